(** * LockImport — HOW THE ACTIVE TERMINAL WAS FOUND when the library was imported (C14)

    The module initialisation at the bottom of [utils.py] ([utils.py:817-852]) looks for a
    terminal among the standard streams, in the order stdout, stdin, stderr, and falls back
    to the controlling terminal; when (and only when) a terminal was found it installs
    [_process_start_wrapper] / [_process_run_wrapper] on [multiprocessing.Process] — the
    hooks that make the terminal lock process-shared.  The cross-process clauses of C14 are
    claimed for every configuration in which a terminal was found, BY WHATEVER ROUTE.

    This file is the vocabulary shared by the model ([model/LocksFound.v]), by the table
    [import_paths] that [harness/tx/tx_locks.py] translates from the import-time block
    ([gen/LockRegions.v]) and by the correspondence ([model/LocksFoundTie.v]).
    Definitions only. *)
From Coq Require Import List Arith Bool.
Import ListNotations.

(** the route by which the active terminal was found *)
Inductive found :=
| FStream (k : nat)   (* the k-th standard stream in the order of priority (0 = stdout, 1 = stdin, 2 = stderr) *)
| FDevTty             (* none of them: the fallback, the controlling terminal of the process *)
| FNone.              (* no terminal at all *)

Definition found_tty (f : found) : bool :=
  match f with FNone => false | _ => true end.

Definition found_eqb (a b : found) : bool :=
  match a, b with
  | FStream i, FStream j => Nat.eqb i j
  | FDevTty, FDevTty => true
  | FNone, FNone => true
  | _, _ => false
  end.

(** the environment of the importing process: which of the standard streams (in the order
    of priority) are terminals, and whether the process has a controlling terminal *)
Record tenv := { e_streams : list bool; e_ctty : bool }.

Fixpoint first_true (l : list bool) (k : nat) : option nat :=
  match l with
  | [] => None
  | b :: r => if b then Some k else first_true r (S k)
  end.

Definition find_terminal (e : tenv) : found :=
  match first_true (e_streams e) 0 with
  | Some k => FStream k
  | None => if e_ctty e then FDevTty else FNone
  end.

(** does the import-time block install the two hooks, as a function of the route *)
Definition install := found -> bool.
(** the code as it is: [if _tty_fd != -1:] after the search ([utils.py:843]) *)
Definition inst_code : install := found_tty.
(** the variant "install the hooks where a standard stream turned out to be a terminal"
    (refuted: [proofs/LocksFoundProofs.v]) *)
Definition inst_stream_only : install :=
  fun f => match f with FStream _ => true | _ => false end.

(** ** one execution path of the import-time block, as translated from the source

    The block's only sources of branching are the attempts to open a terminal device
    ([os.open(...)], which succeeds or raises [OSError]) and tests of [_tty_fd] against
    [-1].  A path is the list of outcomes of the attempts in execution order; the
    translator interprets the block (for / else, try / except, break / continue, if) along
    every path and records what it leaves behind. *)
Record import_path := {
  ip_outcomes : list bool;   (* outcome of every [os.open] attempted, in order *)
  ip_route : found;          (* where the LAST successful attempt stands: iteration k of the loop / outside it *)
  ip_tty : bool;             (* [_tty_fd] was assigned *)
  ip_start : bool;           (* the assignment [Process.start = ...] was executed *)
  ip_run : bool              (* the assignment [Process.run = ...] was executed *)
}.

Definition path_ok (p : import_path) : bool :=
  Bool.eqb (ip_tty p) (found_tty (ip_route p))
  && Bool.eqb (ip_start p) (ip_tty p) && Bool.eqb (ip_run p) (ip_tty p).

(** the table has a path for every route over [n] standard streams *)
Definition has_route (tbl : list import_path) (f : found) : bool :=
  existsb (fun p => found_eqb (ip_route p) f) tbl.
Definition paths_cover (tbl : list import_path) (n : nat) : bool :=
  forallb (fun k => has_route tbl (FStream k)) (seq 0 n)
  && has_route tbl FDevTty && has_route tbl FNone.
