(** Specification side and stream model of the C07 correspondence (harness/props/c07.py,
    harness/impl/impl_c07.py): one observed run of draw() on a pty with a fault injected at
    one stream write / flush / sleep / frame render.  Independent of the translated
    skeletons ([model/C07Tie.v] adds the trace judgement), so that the specification can
    still be evaluated on a tree whose source the translator refuses.

    - specification side: the final state of [Term.exec] on the OBSERVED token stream
      (parser, pending chunk, cursor, SGR) and the observed termios / finalized / size /
      seek / exception facts;
    - model side: the observed call trace must be a run of the translated skeleton
      ([SkelTie.judge], which also says whether the fault fell inside the operation's own
      clean-up), and the observed stream must be the one [model/DrawInt.v] predicts. *)
From Coq Require Import List ZArith Bool Arith.
Import ListNotations.
From TI Require Import lib.Term lib.RectCheck model.SkelTie model.DrawInt.
Open Scope nat_scope.

Inductive scn :=
| SOld (s : style) (anim : bool) (lines : Z)
| SNew (hide anim : bool) (h pb pl : Z) (handler : bool).

(** model coordinates of the fault: non-empty write [k], [j] complete tokens of it
    delivered, cut kind, and whether the fault was inside that write (or its flush) rather
    than in a call before it *)
Record fpos := mkpos { f_k : nat; f_j : nat; f_c : option cut_kind; f_in : bool }.

Record tcase := mkcase {
  c_scn : scn;
  c_frames : list (list tok);   (* render-output writes of the fault-free run *)
  c_fault : option fpos;
  c_kind : nat;                 (* 0 no fault, 1 KeyboardInterrupt, 2 Exception *)
  c_started : bool;             (* a frame render call had been reached *)
  c_obs : list tok;             (* what the terminal received *)
  c_trace : list ev;
  c_out : nat;                  (* 0 returned, 1 KeyboardInterrupt, 2 Exception *)
  c_termios : bool;             (* tcgetattr before = after *)
  c_final : bool;               (* RenderData.finalized (new API; true otherwise) *)
  c_size : bool;                (* image.size setting unchanged *)
  c_seek : bool                 (* image.tell() unchanged *)
}.

Definition is_new (s : scn) : bool := match s with SNew _ _ _ _ _ _ => true | _ => false end.
Definition is_anim (s : scn) : bool := match s with SOld _ a _ => a | SNew _ a _ _ _ _ => a end.
Definition not_str (p : pstate) : bool := match p with InStr => false | _ => true end.

(** the terminal obligation: nothing left swallowing output (old API: parser ground; new
    API: no string open -- see the residue example in proofs/DrawIntProofs.v), no chunked
    transmission pending, cursor visible, attributes default *)
Definition term_okb (new : bool) (t : term) : bool :=
  (if new then not_str (parser t) else is_ground (parser t))
  && is_none (pending t) && visible t && attrs_eqb (sgr t) adefault.

(** still images propagate KeyboardInterrupt, animations (once started) end silently,
    other exceptions propagate *)
Definition exc_okb (c : tcase) : bool :=
  match c_kind c with
  | 0 => Nat.eqb (c_out c) 0
  | 1 => if is_anim (c_scn c) then (if c_started c then Nat.eqb (c_out c) 0 else true)
         else Nat.eqb (c_out c) 1
  | _ => Nat.eqb (c_out c) 2
  end.

(** bit set = obligation violated: 1 terminal, 2 termios, 4 finalized, 8 size, 16 seek, 32 exception *)
Definition spec_bits (c : tcase) : nat :=
  (if term_okb (is_new (c_scn c)) (Term.exec 0%Z (start 0%Z 0%Z) (c_obs c)) then 0 else 1)
  + (if c_termios c then 0 else 2) + (if c_final c then 0 else 4)
  + (if c_size c then 0 else 8) + (if c_seek c then 0 else 16) + (if exc_okb c then 0 else 32).

Definition text_hnd (handler : bool) : list tok := if handler then [TSt; TSgr0] else [].

Definition model_stream (c : tcase) : list tok :=
  match c_scn c, c_fault c with
  | SOld s anim lines, None => old_normal anim lines (c_frames c)
  | SOld s anim lines, Some p => old_interrupted s anim lines (c_frames c) (f_k p) (f_j p) (f_c p)
  | SNew hide anim h pb pl hd, None => new_normal hide anim h pb pl (c_frames c)
  | SNew hide anim h pb pl hd, Some p =>
      new_interrupted (text_hnd hd) hide anim h pb pl (c_frames c) (f_k p) (f_j p) (f_c p) (f_in p)
  end.


(** (index, 100 * (0 if the stream is the model's else 1) + bits) for every case *)
Definition spec_only (cases : list tcase) : list (nat * nat) :=
  combine (seq 0 (length cases))
          (map (fun c => (if toks_eqb (model_stream c) (c_obs c) then 0 else 100) + spec_bits c) cases).

(** index of the first difference between model and observed stream (diagnostics) *)
Definition diff_at (c : tcase) : option nat := first_diff (model_stream c) (c_obs c) 0.
