(** C15 — [terminal_size_cached] called with SEVERAL DISTINCT ARGUMENT TUPLES.

    [utils.py:253-293]:

        cache: tuple[T, os.terminal_size] | None = None          (271)
        def terminal_size_cached_wrapper( *args, **kwargs ):       (275)
            with lock:
                ts = get_terminal_size()                         (279)
                if not cache or ts != cache[1]:                  (280)
                    cache = (func( *args, **kwargs ), ts)          (281)
            return cache[0]                                      (283)
        def invalidate(): with lock: cache = None                (285-289)

    ONE slot (value, terminal size) per decorated function, whatever the arguments: the
    arguments are only handed to the body when it has to run.  The documentation says the
    same ("If the terminal size is the same as for the last call, the last return value is
    returned").  The library itself decorates nothing with it; the decorator is meant for
    functions OF THE TERMINAL SIZE (a decorated method is handed the instance, but its
    result may only depend on the terminal): [size_only] below.

    Vocabulary: an argument tuple is an index [k : nat] into the list of argument tuples a
    history uses; [abody] is the wrapped function: argument tuple, terminal size (cells)
    in force while it runs |-> result.  Commands: [ACall k] a call with argument tuple
    [k]; [ACallR k t] such a call DURING WHOSE BODY the terminal is resized to [t] (the
    body has looked at the terminal, then the resize lands, then it returns; if the slot
    serves the call the body does not run and nothing is resized); [AResize t];
    [AInval] = [_invalidate_terminal_size_cache()].
    A row of a run: what the caller got ([None] for a command that is not a call) and the
    argument tuples the body ran with during the command.

    Beside the code ([code_run]) the EXCLUDED design "a dict keyed by the arguments with a
    single remembered terminal size for the whole dict, not cleared when the size
    changes" ([dict1_run]).  No proofs here. *)
From Coq Require Import List ZArith Bool.
Import ListNotations.

Definition tsz := (nat * nat)%type.                 (* (columns, lines) *)
Definition tsz_eqb (a b : tsz) : bool :=
  Nat.eqb (fst a) (fst b) && Nat.eqb (snd a) (snd b).

Definition abody := nat -> tsz -> Z.
Definition size_only (b : abody) : Prop := forall k k' t, b k t = b k' t.

Inductive acmd :=
| ACall (k : nat)
| ACallR (k : nat) (t : tsz)
| AResize (t : tsz)
| AInval.

Definition arow := (option Z * list nat)%type.

(** * the code: one slot *)
Record cstate := { c_tm : tsz; c_slot : option (Z * tsz) }.
Definition cinit (t0 : tsz) : cstate := {| c_tm := t0; c_slot := None |}.

(** [land]: the size the terminal gets while the body runs (if it runs) *)
Definition code_miss (b : abody) (s : cstate) (k : nat) (land : option tsz) : cstate * arow :=
  let ts := c_tm s in                                              (* 279 *)
  let v := b k ts in                                               (* 281: the body, with THIS call's arguments *)
  ({| c_tm := match land with Some t => t | None => ts end;
      c_slot := Some (v, ts) |}, (Some v, [k])).

Definition code_call (b : abody) (s : cstate) (k : nat) (land : option tsz) : cstate * arow :=
  match c_slot s with
  | Some (v, ts0) =>
      if tsz_eqb (c_tm s) ts0 then (s, (Some v, []))              (* 280 false; 283 *)
      else code_miss b s k land
  | None => code_miss b s k land                                   (* 280: not cache *)
  end.

Definition code_step (b : abody) (s : cstate) (c : acmd) : cstate * arow :=
  match c with
  | ACall k => code_call b s k None
  | ACallR k t => code_call b s k (Some t)
  | AResize t => ({| c_tm := t; c_slot := c_slot s |}, (None, []))
  | AInval => ({| c_tm := c_tm s; c_slot := None |}, (None, []))  (* 285-289 *)
  end.

Fixpoint code_run (b : abody) (s : cstate) (cmds : list acmd) : list arow :=
  match cmds with
  | [] => []
  | c :: r => let (s', row) := code_step b s c in row :: code_run b s' r
  end.

(** * the excluded design: a dict keyed by the arguments, ONE stamp for the whole dict *)
Record dstate := { d_tm : tsz; d_tab : list (nat * Z); d_stamp : option tsz }.
Definition dinit (t0 : tsz) : dstate := {| d_tm := t0; d_tab := []; d_stamp := None |}.

Fixpoint tab_get (tab : list (nat * Z)) (k : nat) : option Z :=
  match tab with
  | [] => None
  | (k', v) :: r => if Nat.eqb k' k then Some v else tab_get r k
  end.

Definition dict1_call (b : abody) (s : dstate) (k : nat) (land : option tsz) : dstate * arow :=
  let ts := d_tm s in
  let stamp_ok := match d_stamp s with Some t0 => tsz_eqb ts t0 | None => false end in
  match (if stamp_ok then tab_get (d_tab s) k else None) with
  | Some v => (s, (Some v, []))
  | None =>
      let v := b k ts in                                           (* refreshes ITS OWN entry only *)
      ({| d_tm := match land with Some t => t | None => ts end;
          d_tab := (k, v) :: d_tab s;
          d_stamp := Some ts |}, (Some v, [k]))                    (* ... and moves the stamp *)
  end.

Definition dict1_step (b : abody) (s : dstate) (c : acmd) : dstate * arow :=
  match c with
  | ACall k => dict1_call b s k None
  | ACallR k t => dict1_call b s k (Some t)
  | AResize t => ({| d_tm := t; d_tab := d_tab s; d_stamp := d_stamp s |}, (None, []))
  | AInval => ({| d_tm := d_tm s; d_tab := []; d_stamp := None |}, (None, []))
  end.

Fixpoint dict1_run (b : abody) (s : dstate) (cmds : list acmd) : list arow :=
  match cmds with
  | [] => []
  | c :: r => let (s', row) := dict1_step b s c in row :: dict1_run b s' r
  end.

(** * the specification side: a function of the history (and of which calls ran the body,
      for the resizes that land in a body) *)

(** what a call with argument tuple [k] must return at terminal size [cur]:
    - [so = true] (the wrapped function is a function of the terminal size): what a fresh
      computation WITH ITS OWN ARGUMENTS gives for the current size;
    - [so = false] (any wrapped function): a value computed FOR THE CURRENT SIZE, with an
      argument tuple used since the last invalidation (the documented "last return value");
    never an exception *)
Definition val_ok (so : bool) (b : abody) (cur : tsz) (called : list nat) (k : nat) (v : option Z) : bool :=
  match v with
  | None => false
  | Some z => if so then Z.eqb z (b k cur) else existsb (fun k0 => Z.eqb z (b k0 cur)) called
  end.

(** the body runs at most once per call, and only with the call's own arguments *)
Definition ran_ok (k : nat) (ran : list nat) : bool :=
  match ran with
  | [] => true
  | [k'] => Nat.eqb k' k
  | _ => false
  end.

Fixpoint spec_ok (so : bool) (b : abody) (cur : tsz) (called : list nat)
         (cmds : list acmd) (rows : list arow) : bool :=
  match cmds, rows with
  | [], [] => true
  | ACall k :: cs, (v, ran) :: rs =>
      val_ok so b cur (k :: called) k v && ran_ok k ran && spec_ok so b cur (k :: called) cs rs
  | ACallR k t :: cs, (v, ran) :: rs =>
      val_ok so b cur (k :: called) k v && ran_ok k ran
      && spec_ok so b (match ran with [] => cur | _ => t end) (k :: called) cs rs
  | AResize t :: cs, (None, []) :: rs => spec_ok so b t called cs rs
  | AInval :: cs, (None, []) :: rs => spec_ok so b cur [] cs rs
  | _, _ => false
  end.

(** histories without a resize inside a body: the values are a function of the history alone *)
Fixpoint aplain (cmds : list acmd) : bool :=
  match cmds with
  | [] => true
  | ACallR _ _ :: _ => false
  | _ :: r => aplain r
  end.

Fixpoint fresh_vals (b : abody) (cur : tsz) (cmds : list acmd) : list (option Z) :=
  match cmds with
  | [] => []
  | ACall k :: r => Some (b k cur) :: fresh_vals b cur r
  | ACallR k _ :: r => Some (b k cur) :: fresh_vals b cur r
  | AResize t :: r => None :: fresh_vals b t r
  | AInval :: r => None :: fresh_vals b cur r
  end.
