(** Executable comparison for the C04 histories that start with the CREATION of the image
    (round 8): a construction route, the keyword arguments [width] / [height] (left out or
    passed, possibly as [None]), the reads right after creation, then a history as in
    [SizingTie.hcase].

    [check_r]: 0 agrees; 1 differs from the model ([SizingRoute.create] + [Sizing.trace]) only;
    2 the observed behaviour contradicts the specification; 3 both.
    The specification side never looks at the route and never calls [valid_size]: the new
    image has the dynamic size [Size.FIT] when no size was given (both values [None], written
    out or not), a manual size is stored as given, any other size argument gives a FIXED pair
    satisfying the C04 clauses ([spec_ok]) for these arguments under the environment at
    creation; [rendered_size] of a dynamic size satisfies the clauses under the environment in
    force at EVERY later read ([hspec]). *)
From Coq Require Import ZArith QArith List Bool PrimFloat.
Import ListNotations.
From TI Require Import lib.FArith lib.FPrim model.Sizing model.SizingTie model.SizingRoute.
Open Scope Z_scope.

Record rcase := {
  rc_route : route;
  rc_w : option dim; rc_h : option dim;     (* keyword arguments: None = not passed *)
  rc_made : bool;                            (* an image came into being *)
  rc_init : hobs;                            (* outcome of the creation; reads right after it *)
  rc_hist : hcase                            (* environment, source, operations, observations *)
}.

Definition rc_env0 (c : rcase) : env PrimFA := st_env (h_init (rc_hist c)).

Definition nil_obs (l : list hobs) : bool := match l with [] => true | _ => false end.

(** ---- the model *)
Definition r_model_ok (c : rcase) : bool :=
  let hc := rc_hist c in
  let fam := h_fam hc in let ow := h_ow hc in let oh := h_oh hc in
  match create (FA := PrimFA) (rc_route c) fam ow oh (rc_env0 c) (rc_w c) (rc_h c) with
  | (Some sz, code) =>
      let s := created_state (rc_env0 c) sz in
      rc_made c && obs_eqb (mk_obs fam ow oh s code None) (rc_init c)
      && obsl_eqb (trace fam ow oh s (h_ops hc)) (h_obs hc)
  | (None, code) =>
      negb (rc_made c) && (ho_outcome (rc_init c) =? code) && nil_obs (h_obs hc)
  end.

(** ---- the specification: a function of the argument VALUES alone *)
Definition given (k : option dim) : dim := match k with Some d => d | None => DNone end.

Definition r_expect (w h : dim) : expect :=
  match w, h with
  | DNone, DNone => ExactSize (Dyn FIT)               (* no size: dynamic *)
  | DInt wi, DInt hi => ExactSize (Fixed wi hi)       (* manual: as given *)
  | _, _ => AutoFixed w h default_frame               (* fixed, computed at creation *)
  end.

(** a non-render operation: [hobs_ok] then demands "no renderer observation" *)
Definition r_no_render : op PrimFA := OResize 0 0 None.

Definition r_init_ok (c : rcase) : bool :=
  let hc := rc_hist c in
  hobs_ok (h_fam hc) (h_ow hc) (h_oh hc) (rc_env0 c)
          (r_expect (given (rc_w c)) (given (rc_h c))) ok r_no_render (rc_init c).

Definition rspec (c : rcase) : bool :=
  let hc := rc_hist c in
  let code := args_outcome (given (rc_w c)) (given (rc_h c)) in
  if negb (code =? ok) then
    negb (rc_made c) && (ho_outcome (rc_init c) =? code) && nil_obs (h_obs hc)
  else
    rc_made c && r_init_ok c
    && hspec (h_fam hc) (h_ow hc) (h_oh hc) (rc_env0 c) (ho_size (rc_init c)) (h_ops hc) (h_obs hc).

Definition check_r (c : rcase) : nat :=
  ((if r_model_ok c then 0 else 1) + (if rspec c then 0 else 2))%nat.

Definition bad_r (cases : list rcase) : list (nat * nat) := nonzero (map check_r cases).

(** diagnostics: the model's creation result and trace; the verdict on the creation and the
    per-operation verdicts of the specification *)
Definition diag_r (c : rcase) :=
  let hc := rc_hist c in
  let fam := h_fam hc in let ow := h_ow hc in let oh := h_oh hc in
  let made := create (FA := PrimFA) (rc_route c) fam ow oh (rc_env0 c) (rc_w c) (rc_h c) in
  (made,
   match fst made with
   | Some sz => map (fun m => (o_outcome m, o_size m, o_rendered m, o_during m))
                    (trace fam ow oh (created_state (rc_env0 c) sz) (h_ops hc))
   | None => []
   end,
   (args_outcome (given (rc_w c)) (given (rc_h c)), r_init_ok c,
    hspec_verdicts fam ow oh (rc_env0 c) (ho_size (rc_init c)) (h_ops hc) (h_obs hc))).
