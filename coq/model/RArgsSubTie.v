(** Executable comparison used by the C16 correspondence for programs over namespace
    SUBCLASSES with their own constructor ([model/RArgsSub.v]).

    A case: the associated namespace classes (default field values), the subclasses
    [(base, constructor descriptor)], a program of construction / update /
    RenderArgs.update / holding-route operations, and per operation what the implementation
    showed (the observation record of [model/RArgsValTie.v]: result, a dump of EVERY live
    instance — its class as an index of the class table, [as_dict()] values, the values
    read attribute by attribute, [hash] —, the field definitions of the classes, the
    driver's side conditions).  [scheck] runs the heap model ([sstep_op]) and,
    independently, the value-level rule ([spec_sop]). *)
From Coq Require Import List ZArith Bool Arith.
Import ListNotations.
From TI Require Import model.RArgsVal model.RArgsValTie model.RArgsSub.

Record scase := {
  sc_cl : list (list val);
  sc_subs : list scls;
  sc_ops : list sop;
  sc_init : list nsobs;
  sc_obs : list nobs
}.

Record sst := {
  ss_h : list nobj;
  ss_env : list (nres rv);
  ss_senv : list (nres sv);
  ss_prev : list nsobs
}.

(** failing sub-checks of one step: 1-2 concern the heap model, 10-12 the rule *)
Definition sstep_check (cl : list (list val)) (sl : list scls) (s : sst) (o : sop) (b : nobs)
  : sst * list nat :=
  let hr := sstep_op cl sl (ss_h s) (ss_env s) o in
  let h' := fst hr in
  let r := snd hr in
  let sv := spec_sop cl sl (ss_senv s) o in
  let isobj := (0 <=? nb_res b)%Z in
  let j := Z.to_nat (nb_res b) in
  let dump := if nb_ext b then ss_prev s ++ nb_dump b else nb_dump b in
  let c1 := match r with
            | NErr e => Z.eqb (nb_res b) (-1 - ncode e)
            | NOk (RObj i) => isobj && Nat.eqb i j
            | NOk (RVal _) => false
            end in
  let c2 := all2 (fun (m : nobj) (ob : nsobs) => shows ob (fst m) (snd m)) h' dump in
  let c10 := match sv with
             | NErr e => Z.eqb (nb_res b) (-1 - ncode e)
             | NOk (SObj _ _) => isobj && (j <? length dump)
             | NOk (SVal _) => false
             end in
  (* the result has the class and the field values the rule gives *)
  let c11 := match sv with
             | NOk (SObj c f) => negb isobj || shows (nth j dump dummy_obs) c f
             | _ => true
             end in
  (* no live instance is altered, at most one appears and none when the call is rejected;
     the field definitions of the classes stay what the class statements said *)
  let c12 := all2 nsobs_eqb (firstn (length (ss_prev s)) dump) (ss_prev s) &&
             (length dump <=? S (length (ss_prev s))) &&
             (isobj || Nat.eqb (length dump) (length (ss_prev s))) &&
             all2 vl_eqb (nb_dfl b) cl && nb_flags b in
  let fails :=
      (if c1 then [] else [1]) ++ (if c2 then [] else [2]) ++
      (if c10 then [] else [10]) ++ (if c11 then [] else [11]) ++ (if c12 then [] else [12]) in
  ({| ss_h := h'; ss_env := ss_env s ++ [r]; ss_senv := ss_senv s ++ [sv]; ss_prev := dump |},
   fails).

Fixpoint swalk (cl : list (list val)) (sl : list scls) (s : sst) (ops : list sop)
         (bs : list nobs) (t : nat) : list (nat * nat) :=
  match ops, bs with
  | o :: ops', b :: bs' =>
    let '(s', fails) := sstep_check cl sl s o b in
    map (fun f => (t, f)) fails ++ swalk cl sl s' ops' bs' (S t)
  | [], [] => []
  | _, _ => [(t, 9)]
  end.

(** all failing (step, sub-check) pairs; (0, 18): the shared default instances do not show
    the default values of the class statements *)
Definition sdiag (c : scase) : list (nat * nat) :=
  let cl := sc_cl c in
  let sl := sl_full cl (sc_subs c) in
  let s0 := nstate0 cl in
  (if all2 (fun (m : nobj) (ob : nsobs) => shows ob (fst m) (snd m)) (fst s0) (sc_init c)
   then [] else [(0, 18)]) ++
  swalk cl sl {| ss_h := fst s0; ss_env := snd s0; ss_senv := senv0 cl; ss_prev := sc_init c |}
        (sc_ops c) (sc_obs c) 0.

(** 0 = agrees with model and rule; 1 = differs from the model only; 2 = the observed
    behaviour contradicts the rule (property fails); 3 = both *)
Definition scheck (c : scase) : nat :=
  let d := sdiag c in
  (if existsb (fun p => snd p <? 10) d then 1 else 0) +
  (if existsb (fun p => 10 <=? snd p) d then 2 else 0).

Definition sbad (cases : list scase) : list (nat * nat) :=
  filter (fun p => negb (Nat.eqb (snd p) 0)) (nindex_from 0 (map scheck cases)).
