(** C13, round 4: faults ANYWHERE -- including the operation's own clean-up blocks.

    [lib/Eff.v]'s semantics [eval] injects no fault inside a clean-up ([finally] /
    [except]) block of the function under analysis ([TryFinally true], flag [c]); that is
    what C07 says ("before its own clean-up starts").  C13 says "leaves the terminal's
    attribute set byte-for-byte identical ... when it is interrupted by a signal AT ANY
    POINT": the attribute restore is itself a step of the clean-up, so everything the
    clean-up does BEFORE the restore -- stream writes / flushes of a possibly broken or
    user-supplied stdout, renderable-defined hooks such as the render-data finalizer --
    is a point of the operation at which an exception may be raised.  The ORDER of the
    steps of a [finally] block matters.

    [evalA] is the semantics of this file: that of [Eff.eval] for the configuration in which
    every call may raise KeyboardInterrupt or an Exception, before or after taking effect,
    with the faults allowed INSIDE clean-up blocks as well.  The only point at which no fault
    is injected is a [tcsetattr] standing in a clean-up block failing BEFORE it takes effect:
    (a) if the operating system refuses the restoring [tcsetattr] itself, no code can put
    the attributes back (the property cannot ask for it); (b) a signal handler's exception
    is raised by CPython only where the evaluation loop polls for pending signals -- when a
    call returns, at a function's entry, on a backward jump -- never between the return of the
    previous call and the call of [tcsetattr] that follows it in straight-line clean-up code:
    that position is the previous call raising AFTER its effect, which IS injected.  A
    [tcsetattr] in a clean-up block may still raise AFTER taking effect, and every [tcsetattr]
    outside clean-up blocks may fail either way, as before.

    [anyfault p] expresses the same thing as a program of the existing language, so that the
    verified analysis of [lib/Eff.v] / [lib/EffSound.v] applies unchanged: every block is
    unprotected (faults everywhere), and a [tcsetattr] of a clean-up block becomes
    [atomic_put]: the call inside a protected block with an empty body (it completes), followed
    by an effect-free call that may raise.  [proofs/C13AnyProofs.v] proves that every run of
    [evalA] is a run of [eval cfg_all] on [anyfault p], with the same final state.

    Definitions only. *)
From Coq Require Import List Bool Arith.
Import ListNotations.
From TI Require Import lib.Eff.

(** the calls that write terminal attributes *)
Definition is_attr_put (o : op) : bool :=
  match o with Put RTermios _ => true | _ => false end.

(** a call that cannot fail before it takes effect, but may raise right after *)
Definition atomic_put (o : op) : prog := Seq (TryFinally true Skip (Op o)) (Op Other).

(** [iso c p]: [c] = the position is inside a clean-up block of the operation *)
Fixpoint iso (c : bool) (p : prog) : prog :=
  match p with
  | Op o => if c && is_attr_put o then atomic_put o else Op o
  | Seq a b => Seq (iso c a) (iso c b)
  | Choice a b => Choice (iso c a) (iso c b)
  | Loop b => Loop (iso c b)
  | TryFinally prot b f => TryFinally false (iso c b) (iso (c || prot) f)
  | TryExcept prot b mk hk me he =>
      TryExcept false (iso c b) mk (iso (c || prot) hk) me (iso (c || prot) he)
  | IfVar x a b => IfVar x (iso c a) (iso c b)
  | Call q => Call (iso c q)
  | Skip | Raise _ | Return | SetVar _ _ => p
  end.

Definition anyfault (p : prog) : prog := iso false p.

(** * The direct semantics: faults anywhere *)

(** may call [o] fail BEFORE taking effect at a position with clean-up flag [c]? *)
Definition fails_before (c : bool) (o : op) : bool := negb (c && is_attr_put o).

(** [evalA c p s o s']: as [Eff.eval cfg_all], except that being inside a clean-up block
    ([c]) protects nothing but the restoring [tcsetattr] from failing before its effect. *)
Inductive evalA : bool -> prog -> st -> outcome -> st -> Prop :=
| A_Skip c s : evalA c Skip s ONorm s
| A_Op c o s : evalA c (Op o) s ONorm (eff o s)
| A_FaultBefore c o k s : fails_before c o = true ->
    evalA c (Op o) s (ORaise k) (fault o k s)
| A_FaultAfter c o k s :
    evalA c (Op o) s (ORaise k) (fault o k (eff o s))
| A_SeqN c a b s s1 o s2 : evalA c a s ONorm s1 -> evalA c b s1 o s2 -> evalA c (Seq a b) s o s2
| A_SeqA c a b s o s1 : evalA c a s o s1 -> is_norm o = false -> evalA c (Seq a b) s o s1
| A_ChoiceL c a b s o s1 : evalA c a s o s1 -> evalA c (Choice a b) s o s1
| A_ChoiceR c a b s o s1 : evalA c b s o s1 -> evalA c (Choice a b) s o s1
| A_Loop0 c b s : evalA c (Loop b) s ONorm s
| A_LoopS c b s s1 o s2 : evalA c b s ONorm s1 -> evalA c (Loop b) s1 o s2 -> evalA c (Loop b) s o s2
| A_LoopA c b s o s1 : evalA c b s o s1 -> is_norm o = false -> evalA c (Loop b) s o s1
| A_Finally c prot b f s o s1 o' s2 :
    evalA c b s o s1 -> evalA (c || prot) f s1 o' s2 ->
    evalA c (TryFinally prot b f) s (after_finally o o') s2
| A_ExceptPass c prot b mk hk me he s o s1 :
    evalA c b s o s1 -> (forall k, o <> ORaise k) ->
    evalA c (TryExcept prot b mk hk me he) s o s1
| A_ExceptKI c prot b mk hk me he s s1 o s2 :
    evalA c b s (ORaise KI) s1 -> may_catch mk = true -> evalA (c || prot) hk s1 o s2 ->
    evalA c (TryExcept prot b mk hk me he) s o s2
| A_ExceptExc c prot b mk hk me he s s1 o s2 :
    evalA c b s (ORaise Exc) s1 -> may_catch me = true -> evalA (c || prot) he s1 o s2 ->
    evalA c (TryExcept prot b mk hk me he) s o s2
| A_MissKI c prot b mk hk me he s s1 :
    evalA c b s (ORaise KI) s1 -> may_miss mk = true ->
    evalA c (TryExcept prot b mk hk me he) s (ORaise KI) s1
| A_MissExc c prot b mk hk me he s s1 :
    evalA c b s (ORaise Exc) s1 -> may_miss me = true ->
    evalA c (TryExcept prot b mk hk me he) s (ORaise Exc) s1
| A_Raise c k s : evalA c (Raise k) s (ORaise k) s
| A_Return c s : evalA c Return s ORet s
| A_IfT c x a b s o s1 : get x (vars s) = true -> evalA c a s o s1 -> evalA c (IfVar x a b) s o s1
| A_IfF c x a b s o s1 : get x (vars s) = false -> evalA c b s o s1 -> evalA c (IfVar x a b) s o s1
| A_SetVar c x v s : evalA c (SetVar x v) s ONorm (set_vars (upd x v (vars s)) s)
| A_Call c p s o s1 : evalA c p s o s1 -> evalA c (Call p) s (after_call o) s1.

(** the obligation of C13: the attributes are those found at entry *)
Definition attrs_restored_any (o : outcome) (s : st) : bool := negb (tmod s).

(** [analyze_any nv p]: the verified analysis of [lib/Eff.v], every call raising, applied to
    [anyfault p] *)
Definition analyze_any (nv : nat) (p : prog) : bool :=
  analyze cfg_all nv (anyfault p) attrs_restored_any.
