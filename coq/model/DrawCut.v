(** * DrawCut — an animation ENDED BY Ctrl-C (C06)

    "Animations end silently on Ctrl-C": [KeyboardInterrupt] arriving at any point of any
    frame, the first included, makes [draw()] return normally.  What the terminal has received
    by then: the writes made so far, the part of the interrupted write that got out (a
    [TCut] where the cut falls inside an escape sequence), what the interrupted-draw handler
    writes if it is called at that point, and the clean-up of the two enclosing [finally]
    blocks.  The streams extend [model/Draw.v]'s [anim_stream] / [old_anim_stream] with an
    interruption point; [cutw] (a write cut after [j] tokens) is [model/DrawInt.v]'s.

    New API ([_renderable.py:749-813,553-591]): the first frame's and every later frame's
    write are guarded by [_handle_interrupted_draw_] (then [return]); every other point of
    [_animate_] is covered by [except KeyboardInterrupt: pass]; the [finally] moves the
    cursor down [height + pad_bottom - 1] lines only if [first_frame_written]; [draw()]'s own
    [finally] writes ["\n"] and shows the cursor.
    Old API ([common.py:1338-1366,763-787]): the whole of [_display_animated]'s [try] — first
    frame, sleeps, [_clear_frame()], later frames — has [except KeyboardInterrupt:
    self._handle_interrupted_draw()]; its [finally] writes [cursor_down(lines - 1)];
    [render()]'s [finally] resets the attributes, shows the cursor and ends the line.
    (iterm2's wezterm pre-erase is printed before that [try]: an interrupt there propagates,
    it is not a silent end.) *)
From Coq Require Import List ZArith Bool.
Import ListNotations.
From TI Require Import lib.Term lib.TermScroll model.Padding model.Draw.
From TI Require model.DrawInt.
Open Scope Z_scope.

Definition cutw := DrawInt.cutw.

(** ** new API *)

(** the control writes: to the render's top-left after the padded first frame, and after a
    later frame *)
Definition ctop1 (l b h : Z) : list tok := [TCR] ++ cuu (h + b - 1) ++ cuf l.
Definition ctop (l h : Z) : list tok := [TCR] ++ cuu (h - 1) ++ cuf l.
(** a later frame as written *)
Definition lframe (l : Z) (F : list tok) : list tok := subst_lf [] (cuf l) F.

Inductive ipoint :=
| IFirst (j : nat) (c : option cut_kind)              (* inside the write of the (padded) first frame *)
| ITop1 (j : nat) (c : option cut_kind)               (* inside the move to the render's top-left after it *)
| IBetween (m : nat)                                  (* [m] later frames complete: sleep / rendering of the next frame *)
| IClear (m : nat) (j : nat) (c : option cut_kind)    (* inside [_clear_frame_]'s write before later frame [m] *)
| IFrame (m : nat) (j : nat) (c : option cut_kind)    (* inside the write of later frame [m] (0-based) *)
| ITop (m : nat) (j : nat) (c : option cut_kind).     (* inside the move to the top-left after later frame [m] *)

(** [first_frame_written] is still false *)
Definition first_incomplete (p : ipoint) : bool :=
  match p with IFirst _ _ | ITop1 _ _ => true | _ => false end.

(** the frames completely drawn before the point (later frames, after the first) *)
Definition done_later (l h : Z) (clear : list tok) (Fs : list (list tok)) (m : nat) : list tok :=
  concat (map (later_frame l h clear) (firstn m Fs)).

(** what reached the terminal from the animation's own writes when the exception was raised *)
Definition anim_delivered (l b h : Z) (clear P : list tok) (Fs : list (list tok)) (p : ipoint) : list tok :=
  match p with
  | IFirst j c => cutw P j c
  | ITop1 j c => P ++ cutw (ctop1 l b h) j c
  | IBetween m => P ++ ctop1 l b h ++ done_later l h clear Fs m
  | IClear m j c => P ++ ctop1 l b h ++ done_later l h clear Fs m ++ cutw clear j c
  | IFrame m j c => P ++ ctop1 l b h ++ done_later l h clear Fs m ++ clear ++ cutw (lframe l (nth m Fs [])) j c
  | ITop m j c => P ++ ctop1 l b h ++ done_later l h clear Fs m ++ clear ++ lframe l (nth m Fs [])
                    ++ cutw (ctop l h) j c
  end.

(** the handler is called for an interrupted frame write only *)
Definition handled (p : ipoint) : bool :=
  match p with IFirst _ _ | IFrame _ _ _ => true | _ => false end.

(** everything written after the exception: handler?, [_animate_]'s finally, [draw()]'s finally *)
Definition anim_recovery (hide : bool) (hnd : list tok) (b h : Z) (p : ipoint) : list tok :=
  (if handled p then hnd else [])
  ++ (if first_incomplete p then [] else cud (h + b - 1))
  ++ [TLF] ++ opt hide TShow.

Definition anim_cut (hide : bool) (hnd : list tok) (l b h : Z) (clear P : list tok)
           (Fs : list (list tok)) (p : ipoint) : list tok :=
  opt hide THide ++ anim_delivered l b h clear P Fs p ++ anim_recovery hide hnd b h p.

(** ** old API *)

Definition old_ctop (lines : Z) : list tok := [TCR] ++ cuu (lines - 1).

Inductive opoint :=
| OFrame (m : nat) (j : nat) (c : option cut_kind)    (* inside the write of frame [m] (0 = the first) *)
| OTop (m : nat) (j : nat) (c : option cut_kind)      (* inside the ["\r" cursor_up] write after frame [m] *)
| OClear (m : nat) (j : nat) (c : option cut_kind)    (* inside [_clear_frame()]'s write before frame [m >= 1] *)
| OBetween (m : nat).                                 (* [m] frames complete: sleep / rendering of the next frame *)

(** [m] frames completely drawn *)
Definition old_done (lines : Z) (clear P1 : list tok) (Ps : list (list tok)) (m : nat) : list tok :=
  match m with
  | O => []
  | S m' => old_frame lines P1 ++ concat (map (fun P => clear ++ old_frame lines P) (firstn m' Ps))
  end.

Definition old_pre_clear (clear : list tok) (m : nat) : list tok :=
  match m with O => [] | S _ => clear end.

Definition old_delivered (lines : Z) (clear P1 : list tok) (Ps : list (list tok)) (p : opoint) : list tok :=
  match p with
  | OFrame m j c => old_done lines clear P1 Ps m ++ old_pre_clear clear m ++ cutw (nth m (P1 :: Ps) []) j c
  | OTop m j c => old_done lines clear P1 Ps m ++ old_pre_clear clear m ++ nth m (P1 :: Ps) []
                    ++ cutw (old_ctop lines) j c
  | OClear m j c => old_done lines clear P1 Ps m ++ cutw clear j c
  | OBetween m => old_done lines clear P1 Ps m
  end.

(** the handler is always called; then [_display_animated]'s finally, then [render()]'s *)
Definition old_recovery (tty : bool) (hnd : list tok) (lines : Z) : list tok :=
  hnd ++ cud (lines - 1) ++ [TSgr0] ++ opt tty TShow ++ [TLF].

Definition old_anim_cut (tty : bool) (hnd : list tok) (lines : Z) (pre clear P1 : list tok)
           (Ps : list (list tok)) (p : opoint) : list tok :=
  opt tty THide ++ pre ++ old_delivered lines clear P1 Ps p ++ old_recovery tty hnd lines.

(** ** the final-state predicate of an interrupted animation (specification side)

    [np]: how many tokens of the stream [S] had reached the terminal when the exception was
    raised.  [park]: the row on which the cursor rests between two frames (the first line of
    the render: new API [row t0 + pad_top], old API [row t0]).  The cursor ends at the left
    margin, visible, attributes reset, the terminal not inside a control sequence or a
    chunked transmission; no cell outside the padded region is touched; and the cursor is on
    the line below the region — displaced downwards by exactly as many lines as the interrupt
    found it below its resting row ([disp = 0]: on the line immediately below the region, as
    after an uninterrupted draw).  While the new API's first frame is incomplete
    ([first_inc]) there is no region yet: the cursor goes to the start of the next line. *)
Definition ev_touch_in (r0 c0 h w : Z) (e : ev) : bool :=
  match e with
  | EMove _ _ => true
  | _ => ev_inside r0 c0 h w e
  end.

Record CutFinal (lm : Z) (t0 : term) (hide first_inc csi_ok : bool) (pw ph park : Z) (np : nat)
       (S : list tok) : Prop := {
  cf_col : col (exec lm t0 S) = lm;
  cf_sgr : sgr (exec lm t0 S) = adefault;
  cf_vis : visible (exec lm t0 S) = if hide then true else visible t0;
  (* never inside a string, no chunked transmission pending; and in the ground state, except
     ([csi_ok], see [new_csi_residue]) for the new API's one residue: a cursor-movement
     sequence cut inside its CSI that no escape sequence follows (cursor not hidden) *)
  cf_clean : pending (exec lm t0 S) = None /\ parser (exec lm t0 S) <> InStr
             /\ (csi_ok = false -> parser (exec lm t0 S) = Ground);
  cf_touch : forallb (ev_touch_in (row t0) lm ph pw) (exec_evs lm t0 S) = true;
  cf_row : row (exec lm t0 S) =
           if first_inc then row (exec lm t0 (firstn np S)) + 1
           else row t0 + ph + (row (exec lm t0 (firstn np S)) - park);
  (* the interrupt found the cursor in the region *)
  cf_at : row t0 <= row (exec lm t0 (firstn np S)) <= row t0 + ph
}.

(** the new API's residue: the cursor is not hidden, the interrupt cut a control write (the
    handler is not called) inside its CSI, and the clean-up writes no escape sequence (no
    [cursor_down]: the first frame is incomplete or the move would be by 0 lines) before the
    line feed *)
Definition new_csi_residue (hide : bool) (b h : Z) (p : ipoint) : bool :=
  negb hide && negb (handled p)
  && match p with
     | ITop1 _ (Some _) | IClear _ _ (Some _) | ITop _ _ (Some _) => true
     | _ => false
     end
  && (first_incomplete p || negb (0 <? h + b - 1)).
