(** * Padding — model of [padding.py] (new API) and of [BaseImage._check_formatting] /
    [_format_render] (old API, [common.py:1150-1188,1366-1415]) and of the padding gate of
    [Renderable.render] ([_renderable.py:593-623]).

    Dimensions are integers; renders are token lists ([lib/Term.v]); a render is given
    as the list of its lines where the structure matters. *)
From Coq Require Import List ZArith Bool Lia.
Import ListNotations.
From TI Require Import lib.Term lib.TermFacts lib.Lines.
Open Scope Z_scope.

(** ** dimensions *)

(** [_ALIGN_RATIOS = ((0, 1), (1, 2), (1, 1))], indexed by LEFT/TOP = 0, CENTER/MIDDLE = 1,
    RIGHT/BOTTOM = 2 *)
Definition align_ratio (a : nat) : Z * Z :=
  match a with O => (0, 1) | S O => (1, 2) | _ => (1, 1) end.

(** one axis of [AlignedPadding._get_exact_dimensions_]: (before, after) *)
Definition aligned_axis (minimum : Z) (align : nat) (render : Z) : Z * Z :=
  if render <? minimum then
    let p := minimum - render in
    let '(num, den) := align_ratio align in
    let before := p * num / den in
    (before, p - before)
  else (0, 0).

(** (left, top, right, bottom) *)
Definition aligned_dims (W H : Z) (ha va : nat) (w h : Z) : Z * Z * Z * Z :=
  let '(l, r) := aligned_axis W ha w in
  let '(t, b) := aligned_axis H va h in
  (l, t, r, b).

(** [AlignedPadding.relative = not width > 0 < height] *)
Definition relative (W H : Z) : bool := negb ((0 <? W) && (0 <? H)).

(** [AlignedPadding.resolve(terminal_size)] *)
Definition resolve (tw th W H : Z) : Z * Z :=
  if relative W H then
    (if W <=? 0 then Z.max (tw + W) 1 else W, if H <=? 0 then Z.max (th + H) 1 else H)
  else (W, H).

(** generic [Padding.get_padded_size] *)
Definition padded_size (d : Z * Z * Z * Z) (w h : Z) : Z * Z :=
  let '(l, t, r, b) := d in (l + w + r, t + h + b).
(** [AlignedPadding.get_padded_size] (override) *)
Definition aligned_padded_size (W H w h : Z) : Z * Z := (Z.max W w, Z.max H h).

(** [ExactPadding.__init__] validation: the first negative dimension is reported *)
Definition exact_valid (l t r b : Z) : bool := (0 <=? l) && (0 <=? t) && (0 <=? r) && (0 <=? b).

(** old API: [_check_formatting] resolution of the pad width / height *)
Definition old_resolve (tw th W H : Z) : Z * Z :=
  (if 0 <? W then W else Z.max (tw + W) 1, if 0 <? H then H else Z.max (th + H) 1).

(** old API [_format_render]'s dimensions; [ha]: 0 = '<', 2 = '>', else centre;
    [va]: 0 = '^', 2 = '_', else middle *)
Definition old_dims (W H : Z) (ha va : nat) (w h : Z) : Z * Z * Z * Z :=
  let '(l, r) :=
      if w <? W then
        match ha with
        | O => (0, W - w)
        | S (S O) => (W - w, 0)
        | _ => ((W - w) / 2, W - w - (W - w) / 2)
        end
      else (0, 0) in
  let '(t, b) :=
      if h <? H then
        match va with
        | O => (0, H - h)
        | S (S O) => (H - h, 0)
        | _ => ((H - h) / 2, H - h - (H - h) / 2)
        end
      else (0, 0) in
  (l, t, r, b).

(** [Renderable.render]: pad iff the padded size differs from the render size *)
Definition pad_gate (d : Z * Z * Z * Z) (w h : Z) : bool :=
  let '(pw, ph) := padded_size d w h in negb ((pw =? w) && (ph =? h)).

(** ** padding a render *)

(** [fill * n], or [cursor_forward(n)] for the empty fill *)
Definition fillseg (fill : option glyph) (n : Z) : list tok :=
  match fill with
  | Some g => glyphs false g (Z.to_nat n)
  | None => if 0 <? n then [TCuf n] else []
  end.

(** [render.replace("\n", right + "\n" + left)] *)
Fixpoint subst_lf (rp lp : list tok) (R : list tok) : list tok :=
  match R with
  | [] => []
  | TLF :: rest => rp ++ TLF :: lp ++ subst_lf rp lp rest
  | x :: rest => x :: subst_lf rp lp rest
  end.

Fixpoint rep {A} (n : nat) (l : list A) : list A :=
  match n with O => [] | S k => l ++ rep k l end.

(** [Padding.pad(render, render_size)], [padding.py:161-194] *)
Definition pad (fill : option glyph) (d : Z * Z * Z * Z) (w : Z) (R : list tok) : list tok :=
  let '(l, t, r, b) := d in
  let width := l + w + r in
  let horizontal := negb (l =? 0) || negb (r =? 0) in
  let vertical := negb (t =? 0) || negb (b =? 0) in
  let lp := fillseg fill l in
  let rp := fillseg fill r in
  let top := rep (Z.to_nat t) (fillseg fill width ++ [TLF]) in
  let bottom := rep (Z.to_nat b) (TLF :: fillseg fill width) in
  if horizontal || vertical then
    top ++ lp ++ (if horizontal then subst_lf rp lp R else R) ++ rp ++ bottom
  else R.

(** the same on a render given as its lines *)
Definition pad_lines (fill : option glyph) (d : Z * Z * Z * Z) (w : Z) (ls : list (list tok))
  : list (list tok) :=
  let '(l, t, r, b) := d in
  let width := l + w + r in
  repeat (fillseg fill width) (Z.to_nat t)
  ++ map (fun ln => fillseg fill l ++ ln ++ fillseg fill r) ls
  ++ repeat (fillseg fill width) (Z.to_nat b).

(** old API [_format_render]: always spaces; pads when [width > cols or height > lines] *)
Definition format_render (W H : Z) (ha va : nat) (w h : Z) (R : list tok) : list tok :=
  pad (Some GSpace) (old_dims W H ha va w h) w R.
