(** Executable comparisons of the C10 correspondence (harness/props/c10.py,
    harness/impl/impl_c10.py): what the implementation showed about the life of its render
    data, against
      - the finalisation ghost of the code model [Iter] (bit 1: model agreement), and
      - the property itself, evaluated on the observations alone (bit 2: double
        finalisation, a render on finalized data, a leak, a caller's data finalized, an
        iterator still open after it ended).
    Definitions only. *)
From Coq Require Import List ZArith Bool Arith Lia.
Import ListNotations.
From TI Require Import model.Iter model.IterSpec model.IterTie model.IterFin model.IterReent model.IterSession.
Open Scope Z_scope.

Definition is_frameb (x : out) : bool := match x with OFrame _ => true | _ => false end.
Definition is_endb (x : out) : bool := match x with OStop | OErr _ => true | _ => false end.
Definition nat_list_eqb := list_eqb Nat.eqb.
Definition bool_list_eqb := list_eqb Bool.eqb.

(** * Iterator histories *)

Record fcase := {
  f_t : tcase;                  (* configuration, history, observed trace / log / fin / finalized after del + gc *)
  f_kind : nat;                 (* 0: RenderIterator(...); 1: _from_render_data_(finalize=False);
                                   2: _from_render_data_(finalize=True) *)
  f_size_fault : bool;          (* _get_render_size_ raises while the render data is being built *)
  f_data_fault : bool;          (* _get_render_data_ raises after the render data was built *)
  f_fin_ops : list nat;         (* observed after every operation: calls of _finalize_render_data_ on the data *)
  f_fz_ops : list bool;         (* observed after every operation: RenderData.finalized *)
  f_closed_ops : list bool;     (* observed after every operation: iterator._closed *)
  f_others : list nat;          (* observed at the end: calls of _finalize_render_data_ on every OTHER render
                                   data object that came into being (abandoned by a failing constructor) *)
  f_fin_caller : nat;           (* observed at the very end, after the caller of _from_render_data_ has
                                   finalized its data itself *)
  f_fin_faults : list nat;      (* schedule: the invocations (0-based, per data object) of
                                   _finalize_render_data_ that raise RuntimeError *)
  f_gc_raised : nat;            (* observed: finalizer exceptions reported as unraisable during
                                   del iterator + gc.collect() (or while a failed constructor's data dies) *)
  f_caller_raised : bool;       (* observed: that final finalize() by the caller raised *)
  f_nested : list (nat * bool)  (* observed, per iterator.close() made from inside _render_ (fault kinds 7: the
                                   ValueError propagates, 8: it is swallowed): what that close() did
                                   (1 = ValueError "generator already executing", 0 = returned, 2 = other)
                                   and iterator._closed right after it *)
}.

(** the instrumented renderable with re-entrant close() calls: kind 7 = call
    [iterator.close()], let its exception propagate (tagged 7); kind 8 = call it, swallow
    the exception and render normally *)
Definition strip8 (faults : list (nat * Z)) : list (nat * Z) := filter (fun kv => negb (snd kv =? 8)) faults.
Definition t_render2 (t : tcase) : vr_state -> Z -> whence -> size -> dur -> Z -> (rres * vr_state) * bool :=
  fun st o w sz d a =>
    (vr_render (t_n t) (t_total t) (strip8 (t_faults t)) (t_ffaults t) (t_stamp t) st o w sz d a,
     match fault_at (fst st) (t_faults t) with Some k => (k =? 7) || (k =? 8) | None => false end).
Definition nested_eqb (a b : nat * bool) : bool := Nat.eqb (fst a) (fst b) && Bool.eqb (snd a) (snd b).

(** the finalizer's exception as the drivers report it *)
Definition fin_err : out := OErr (ERender 90).
Definition oracle (faults : list nat) (k : nat) : bool := existsb (Nat.eqb k) faults.
Definition fout_obs_eqb (y : fout) (x : out) : bool :=
  match y with FO x' => out_eqb x' x | FRaised _ => out_eqb fin_err x end.
Definition fobs_eqb (a : fout * Z) (b : out * Z) : bool := fout_obs_eqb (fst a) (fst b) && (snd a =? snd b).
Fixpoint list_eqb2 {A B} (eqb : A -> B -> bool) (a : list A) (b : list B) : bool :=
  match a, b with
  | [], [] => true
  | x :: a', y :: b' => eqb x y && list_eqb2 eqb a' b'
  | _, _ => false
  end.

Definition f_owns (t : fcase) : bool := negb (Nat.eqb (f_kind t) 1).

Section Model.
  Variable t : fcase.
  Let tt := f_t t.
  (** [Iter] on what the renderable returns: by proofs/IterReentProofs.rrun_run this IS the
      machine with the refused nested close() ([IterReent.rnext nested_close]) *)
  Let render := render1 vr_state (t_render2 tt).
  Let nn := t_n tt.
  Let fr := oracle (f_fin_faults t).

  (** the nested close() calls made during the history: one per [_render_] invocation whose
      call number is scheduled 7 or 8; each is refused (ValueError) and leaves [_closed] False *)
  Definition nested_expected (renders : nat) : list (nat * bool) :=
    map (fun _ => (1%nat, false))
        (filter (fun kv => ((snd kv =? 7) || (snd kv =? 8)) && Nat.ltb (fst kv) renders) (t_faults tt)).

  (** per operation: (fin_calls, finalized, closed) after it *)
  Fixpoint ghost_trace (s : state vr_state) (ops : list op) : list (nat * bool * bool) :=
    match ops with
    | [] => []
    | o :: r => let s' := fst (step vr_state render nn term8030 s o) in
                (fin_calls (gh s'), finalized (gh s'), closed s') :: ghost_trace s' r
    end.

  Definition obs_ghost : list (nat * bool * bool) :=
    map (fun x => (fst (fst x), snd (fst x), snd x))
        (combine (combine (f_fin_ops t) (f_fz_ops t)) (f_closed_ops t)).

  Definition ghost_eqb (a b : nat * bool * bool) : bool :=
    Nat.eqb (fst (fst a)) (fst (fst b)) && Bool.eqb (snd (fst a)) (snd (fst b)) && Bool.eqb (snd a) (snd b).

  (** construction, with the two fault positions of render-data creation
      ([_init] validation and argument compatibility come first: _iterator.py:138-141,
      _renderable.py:1112-1116) *)
  Definition mk_f : state vr_state + err :=
    match mk vr_state nn term8030 (t_cfg tt) t_rs0 with
    | inr e => inr e
    | inl s => if f_size_fault t || f_data_fault t then inr (ERender 1) else inl s
    end.

  Definition model10_ok : bool :=
    Bool.eqb (c_owns (t_cfg tt)) (f_owns t) &&
    match mk_f, t_ctor tt with
    | inr e, Some e' =>
      err_eqb e e' && match t_obs tt with [] => true | _ => false end
      && Nat.eqb (t_fin tt) 0 && negb (t_finalized_end tt)
      && match mk vr_state nn term8030 (t_cfg tt) t_rs0 with
         | inl _ => nat_list_eqb (f_others t) [1%nat]          (* the abandoned data dies: RenderData.__del__ *)
                    && Nat.eqb (f_gc_raised t) (if fr 0%nat then 1 else 0)
         | inr _ => nat_list_eqb (f_others t) [] && Nat.eqb (f_gc_raised t) 0
         end
    | inl s, None =>
      list_eqb2 fobs_eqb (ftrace vr_state render nn term8030 fr s (t_ops tt)) (t_obs tt)
      && list_eqb rcall_eqb (rev (log (gh (frun vr_state render nn term8030 fr s (t_ops tt))))) (t_log tt)
      && list_eqb nested_eqb (nested_expected (length (t_log tt))) (f_nested t)
      && Nat.eqb (length (f_fin_ops t)) (length (t_ops tt))
      && Nat.eqb (length (f_fz_ops t)) (length (t_ops tt))
      && Nat.eqb (length (f_closed_ops t)) (length (t_ops tt))
      && list_eqb ghost_eqb (ghost_trace s (t_ops tt)) obs_ghost
      && (let '(s', r) := fclose vr_state fr (frun vr_state render nn term8030 fr s (t_ops tt)) in  (* del + gc.collect() *)
          Nat.eqb (fin_calls (gh s')) (t_fin tt) && Bool.eqb (finalized (gh s')) (t_finalized_end tt)
          && Nat.eqb (f_gc_raised t) (if r then 1 else 0)
          && (let '(g, r2) := fdata_finalize fr (gh s') in                           (* the caller's finalize() *)
              Nat.eqb (fin_calls g) (f_fin_caller t) && Bool.eqb r2 (f_caller_raised t)))
      && match f_others t with [] => true | _ => false end
    | _, _ => false
    end.
End Model.

(** ** the property, on the observations alone *)

(** what an operation on an iterator that has ended must answer *)
Definition ended_out (o : op) : out :=
  match o with Next => OStop | Close | Drop => OOk | _ => OErr EFinalized end.

(** does this operation, with this answer, end the iterator? *)
Definition ends (o : op) (x : out) : bool :=
  match o with Close | Drop => true | Next => is_endb x | _ => false end.

(** walks the history: [ended] = the iterator has ended before this operation *)
Fixpoint spec_walk (owns may_raise ended : bool) (ops : list op) (obs : list out) (fins : list nat) (fzs : list bool)
  : bool :=
  match ops, obs, fins, fzs with
  | [], [], [], [] => true
  | o :: ops', x :: obs', f :: fins', z :: fzs' =>
    let ok_out :=
        if ended then out_eqb x (ended_out o)
        else match o with
             | Next => is_frameb x || is_endb x
             | Close | Drop => out_eqb x OOk || (owns && may_raise && out_eqb x fin_err)
             | _ => negb (is_frameb x) && negb (out_eqb x OStop) && negb (out_eqb x (OErr EFinalized))
                    && negb (out_eqb x fin_err)
             end in
    let ended' := ended || ends o x in
    ok_out
    && Nat.eqb f (if owns && ended' then 1 else 0)       (* exactly once, exactly when it ends; never a caller's *)
    && Bool.eqb z (owns && ended')
    && spec_walk owns may_raise ended' ops' obs' fins' fzs'
  | _, _, _, _ => false
  end.

(** the number of [next] operations made before the iterator ended *)
Fixpoint live_nexts (ended : bool) (ops : list op) (obs : list out) : nat :=
  match ops, obs with
  | o :: ops', x :: obs' =>
    ((if negb ended && match o with Next => true | _ => false end then 1 else 0)
     + live_nexts (ended || ends o x) ops' obs')%nat
  | _, _ => 0%nat
  end.

Definition spec10_ok (t : fcase) : bool :=
  let tt := f_t t in
  let owns := f_owns t in
  (* no frame is ever rendered with finalized data *)
  forallb (fun rc => negb (rc_finalized rc)) (t_log tt)
  (* every other render data object that came into being is finalized exactly once *)
  && forallb (Nat.eqb 1) (f_others t)
  && match t_ctor tt with
     | Some _ =>
       (* failed construction: a caller's data is left alone (the caller still owns it) *)
       (Nat.leb (t_fin tt) (if Nat.eqb (f_kind t) 2 then 1 else 0))
       && match t_obs tt with [] => true | _ => false end
     | None =>
       spec_walk owns (negb (Nat.eqb (length (f_fin_faults t)) 0)) false
                 (t_ops tt) (map fst (t_obs tt)) (f_fin_ops t) (f_fz_ops t)
       (* the finalizer's exception surfaces at most once, and only if one was scheduled *)
       && Nat.leb (length (filter (out_eqb fin_err) (map fst (t_obs tt))) + f_gc_raised t
                   + (if f_caller_raised t then 1 else 0))
                  (if Nat.eqb (length (f_fin_faults t)) 0 then 0 else 1)
       (* renders only happen for a [next] on a live iterator, one at most per [next] *)
       && Nat.leb (length (t_log tt)) (live_nexts false (t_ops tt) (map fst (t_obs tt)))
       (* after del + gc.collect(): the owner's data finalized exactly once, a caller's never *)
       && Nat.eqb (t_fin tt) (if owns then 1 else 0)
       && Bool.eqb (t_finalized_end tt) owns
       (* and the caller can still finalize its own, once *)
       && Nat.eqb (f_fin_caller t) 1
     end.

Definition check10 (t : fcase) : nat :=
  ((if model10_ok t then 0 else 1) + (if spec10_ok t then 0 else 2))%nat.

Definition bad10 (cases : list fcase) : list (nat * nat) :=
  filter (fun p => negb (Nat.eqb (snd p) 0)) (index_from 0 (map check10 cases)).

(** * One-shot operations: render(), str(), draw() *)

Record ocase := {
  o_t : tcase;                  (* renderable, configuration; [t_ctor]: observed outcome (None = returned),
                                   [t_log]: observed _render_ calls; history fields unused *)
  o_mode : nat;                 (* 0: render(); 1: str(); 2: draw() *)
  o_animate : bool;             (* draw(animate=...) *)
  o_check_size : bool;
  o_allow_scroll : bool;
  o_size_fault : bool;          (* _get_render_size_ raises *)
  o_fin_ret : list nat;         (* observed when the call returned / while its exception was still alive:
                                   per render data object handed out, calls of _finalize_render_data_ *)
  o_fin_gc : list nat;          (* the same after dropping the exception and gc.collect() *)
  o_orphans : list nat;         (* the same for render data objects abandoned half-built *)
  o_fin_faults : list nat;      (* schedule: the invocations of _finalize_render_data_ that raise *)
  o_unraisable : nat            (* observed: finalizer exceptions reported as unraisable (RenderData.__del__) *)
}.

Definition animated (n : option Z) : bool := match n with Some k => 2 <=? k | None => true end.

(** [_init_render_] lines 1121-1137: true = RenderSizeOutofRangeError *)
Definition size_check_fails (pad : padding) (sz : size) (allow_scroll : bool) : bool :=
  let ps := padded_size (resolve term8030 pad) sz in
  (fst term8030 <? fst ps) || (negb allow_scroll && (snd term8030 <? snd ps)).

Section OModel.
  Variable t : ocase.
  Let tt := o_t t.
  Let render := t_render tt.
  Let nn := t_n tt.
  Let fr := oracle (o_fin_faults t).

  (** [_animate_], _renderable.py:749-809: first frame, set_padding(NO_PADDING), the rest;
      StopIteration ends it, an exception propagates; [finally: render_iter.close()] *)
  Fixpoint drive (fuel : nat) (first : bool) (s : state vr_state) : state vr_state * out :=
    match fuel with
    | O => (s, OOk)
    | S f =>
      let '(s1, x) := step vr_state render nn term8030 s Next in
      match x with
      | OFrame _ =>
        drive f false (if first then fst (step vr_state render nn term8030 s1 (SetPadding (PExact 0 0 0 0))) else s1)
      | _ => (fst (step vr_state render nn term8030 s1 Close), x)
      end
    end.

  (** (outcome, fin at return, fin after gc, orphans, log) *)
  Definition oneshot_model : option err * list nat * list nat * list nat * list rcall :=
    let c := t_cfg tt in
    let is_draw := Nat.eqb (o_mode t) 2 in
    match (if Nat.eqb (o_mode t) 1 then Some 0 else c_args c) with     (* str(): default arguments *)
    | None => (Some EIncompat, [], [], [], [])                          (* before the data is created *)
    | Some a =>
      if o_size_fault t then (Some (ERender 1), [], [], [1%nat], [])
      else
        let anim := is_draw && animated nn && o_animate t in
        let check := is_draw && (anim || o_check_size t) in
        let scroll := negb anim && o_allow_scroll t in
        let pad := if Nat.eqb (o_mode t) 1 then PExact 0 0 0 0 else c_pad c in
        if check && size_check_fails pad (c_size c) scroll
        then (Some ESizeRange, [0%nat], [1%nat], [], [])               (* left to RenderData.__del__ *)
        else if anim then
          let c' := {| c_loops := c_loops c; c_cache := animate_cache (c_loops c) (c_cache c);
                       c_size := c_size c; c_dur := c_dur c; c_args := c_args c; c_pad := c_pad c;
                       c_owns := false; c_frame := c_frame c |} in
          match mk vr_state nn term8030 c' t_rs0 with
          | inr e => (Some e, [1%nat], [1%nat], [], [])
          | inl s =>
            let '(s', x) := drive 400 true s in
            (match x with OStop => None | OErr e => Some e | _ => Some (ERender (-99)) end,
             [1%nat], [1%nat], [], rev (log (gh s')))
          end
        else
          let d := if animated nn then c_dur c else DStatic 1 in
          let rc := {| rc_fo := c_frame c; rc_wh := WStart; rc_size := c_size c; rc_dur := d; rc_args := a;
                       rc_finalized := false |} in
          let fault := match fault_at 0 (t_faults tt) with
                       | Some k => Some k
                       | None => match nn with Some _ => ffault_at (c_frame c) (t_ffaults tt) | None => None end
                       end in
          (match fault with Some k => Some (ERender k) | None => None end, [1%nat], [1%nat], [], [rc])
    end.

  (** the finalizer's exception: out of the [finally] of [_init_render_] / [draw()] when the
      data is finalized there (it replaces the outcome); reported as unraisable when the data
      is left to [RenderData.__del__] *)
  Definition omodel_ok : bool :=
    let '(oc, fr_, fg, orph, lg) := oneshot_model in
    let at_return := nat_list_eqb fr_ [1%nat] in
    let in_del := (negb (nat_list_eqb fr_ fg) || negb (nat_list_eqb orph [])) in
    opt_err_eqb (if at_return && fr 0%nat then Some (ERender 90) else oc) (t_ctor tt)
    && Nat.eqb (o_unraisable t) (if in_del && fr 0%nat then 1 else 0)
    && nat_list_eqb fr_ (o_fin_ret t) && nat_list_eqb fg (o_fin_gc t)
    && nat_list_eqb orph (o_orphans t) && list_eqb rcall_eqb lg (t_log tt).
End OModel.

(** the property on the observations alone: every render data object finalized exactly once
    (by the time the operation's exception, if any, is dropped), already when the operation
    returns - except for draw()'s size-validation failure, which leaves it to
    RenderData.__del__; nothing rendered with finalized data *)
Definition ospec_ok (t : ocase) : bool :=
  let tt := o_t t in
  forallb (fun rc => negb (rc_finalized rc)) (t_log tt)
  && Nat.eqb (length (o_fin_ret t)) (length (o_fin_gc t))
  && Nat.leb (length (o_fin_gc t)) 1
  && forallb (Nat.eqb 1) (o_fin_gc t)
  && forallb (Nat.eqb 1) (o_orphans t)
  && forallb (fun k => Nat.leb k 1) (o_fin_ret t)
  && Nat.leb (o_unraisable t + (if opt_err_eqb (t_ctor tt) (Some (ERender 90)) then 1 else 0))
             (if Nat.eqb (length (o_fin_faults t)) 0 then 0 else 1)
  && (if Nat.eqb (o_mode t) 2 && opt_err_eqb (t_ctor tt) (Some ESizeRange) && match t_log tt with [] => true | _ => false end
      then true
      else forallb (Nat.eqb 1) (o_fin_ret t)).

Definition ocheck10 (t : ocase) : nat :=
  ((if omodel_ok t then 0 else 1) + (if ospec_ok t then 0 else 2))%nat.

Definition obad10 (cases : list ocase) : list (nat * nat) :=
  filter (fun p => negb (Nat.eqb (snd p) 0)) (index_from 0 (map ocheck10 cases)).

(** * Sessions: several iterators (and [_animate_] calls) over ONE render data object *)

Inductive xstep := XStep (o : sop) | XAnimate (c : config).

Record scase := {
  sc_n : option Z; sc_total : Z; sc_faults : list (nat * Z); sc_ffaults : list (Z * Z); sc_stamp : bool;
  sc_size : size; sc_dur : dur; sc_frame : Z;      (* the data as [_get_render_data_(iteration=True)] built it *)
  sc_steps : list xstep;                           (* the session *)
  sc_obs : list sout;                              (* observed, per step *)
  sc_fins : list nat;                              (* observed after every step: finalizer calls on the data *)
  sc_fzs : list bool;                              (* observed after every step: RenderData.finalized *)
  sc_log : list rcall;                             (* observed _render_ calls with the finalized flag they saw *)
  sc_fin_end : nat; sc_fz_end : bool;              (* observed after dropping the last iterator + gc.collect() *)
  sc_fin_owner : nat                               (* observed after the owner's own final finalize() *)
}.

Definition sout_eqb (a b : sout) : bool :=
  match a, b with
  | SOut x, SOut y => out_eqb x y
  | SMade, SMade | SDone, SDone | SNoIter, SNoIter => true
  | SRefused e, SRefused e' => err_eqb e e'
  | _, _ => false
  end.

Section SModel.
  Variable t : scase.
  Let render := vr_render (sc_n t) (sc_total t) (sc_faults t) (sc_ffaults t) (sc_stamp t).
  Let nn := sc_n t.
  Notation sstep_ := (sstep vr_state render nn term8030 guard_code).

  (** [_animate_] on the session's data: a non-owning iterator ([draw]'s cache rule), the
      first frame, [set_padding(NO_PADDING)], the rest; [finally: render_iter.close()] *)
  Fixpoint sdrive (fuel : nat) (first : bool) (ss : sess vr_state) : sess vr_state * sout :=
    match fuel with
    | O => (ss, SNoIter)
    | S f =>
      let '(ss1, y) := sstep_ ss (SOp Next) in
      match y with
      | SOut (OFrame _) =>
        sdrive f false (if first then fst (sstep_ ss1 (SOp (SetPadding (PExact 0 0 0 0)))) else ss1)
      | SOut OStop => (fst (sstep_ ss1 (SOp Close)), SDone)
      | _ => (fst (sstep_ ss1 (SOp Close)), y)
      end
    end.

  Definition xstep_model (ss : sess vr_state) (x : xstep) : sess vr_state * sout :=
    match x with
    | XStep o => sstep_ ss o
    | XAnimate c =>
      let c' := {| c_loops := c_loops c; c_cache := animate_cache (c_loops c) (c_cache c); c_size := c_size c;
                   c_dur := c_dur c; c_args := c_args c; c_pad := c_pad c; c_owns := false; c_frame := c_frame c |} in
      let '(ss1, y) := sstep_ ss (SMake c') in
      match y with
      | SMade => let '(ss2, y2) := sdrive 400 true ss1 in (drop_current vr_state ss2, y2)
      | _ => (ss1, y)
      end
    end.

  (** per step: outcome, finalizer calls, finalized flag *)
  Fixpoint xtrace (ss : sess vr_state) (l : list xstep) : list (sout * nat * bool) * sess vr_state :=
    match l with
    | [] => ([], ss)
    | x :: r => let '(ss', y) := xstep_model ss x in
                let '(tr, fin) := xtrace ss' r in
                ((y, fin_calls (data_of vr_state ss'), finalized (data_of vr_state ss')) :: tr, fin)
    end.

  Definition sobs : list (sout * nat * bool) :=
    map (fun p => (fst (fst p), snd (fst p), snd p)) (combine (combine (sc_obs t) (sc_fins t)) (sc_fzs t)).

  Definition sobs_eqb (a b : sout * nat * bool) : bool :=
    sout_eqb (fst (fst a)) (fst (fst b)) && Nat.eqb (snd (fst a)) (snd (fst b)) && Bool.eqb (snd a) (snd b).

  Definition smodel_ok : bool :=
    let ss0 := fresh_sess vr_state {| fo := sc_frame t; wh := WStart; d_size := sc_size t; d_dur := sc_dur t |} t_rs0 in
    let '(tr, ss1) := xtrace ss0 (sc_steps t) in
    let ss2 := drop_current vr_state ss1 in
    Nat.eqb (length (sc_obs t)) (length (sc_steps t)) && Nat.eqb (length (sc_fins t)) (length (sc_steps t))
    && Nat.eqb (length (sc_fzs t)) (length (sc_steps t))
    && list_eqb sobs_eqb tr sobs
    && list_eqb rcall_eqb (rev (log (data_of vr_state ss2))) (sc_log t)
    && Nat.eqb (fin_calls (data_of vr_state ss2)) (sc_fin_end t)
    && Bool.eqb (finalized (data_of vr_state ss2)) (sc_fz_end t)
    && Nat.eqb (fin_calls (data_finalize (data_of vr_state ss2))) (sc_fin_owner t).
End SModel.

(** the property on the observations of a session alone.  [fz]: the data has been
    finalized (by its owner, or by an owning iterator that ended or was dropped);
    [cur]: the current iterator's (owns, has ended).  Sessions in which the owner
    finalizes under a live iterator (the caller's misuse) are not judged. *)
Definition dropped_finalizes (cur : option (bool * bool)) : bool :=
  match cur with Some (true, false) => true | _ => false end.

(** one step: [None] = misuse; else (fz', cur', is the observed outcome acceptable) *)
Definition sspec_step (fz : bool) (cur : option (bool * bool)) (x : xstep) (y : sout)
  : option (bool * option (bool * bool) * bool) :=
  match x with
  | XStep (SMake c) =>
    let fz1 := fz || dropped_finalizes cur in                  (* the previous iterator is dropped first *)
    match y with
    | SMade => Some (fz1, Some (c_owns c, false), negb fz1)     (* finalized data must be refused *)
    | SRefused _ => Some (fz1, None, true)
    | _ => Some (fz1, None, false)
    end
  | XStep (SOp o) =>
    match cur, y with
    | None, SNoIter => Some (fz, None, true)
    | Some (ow, en), SOut x' =>
      let ok_out :=
          if en then out_eqb x' (ended_out o)
          else match o with
               | Next => is_frameb x' || is_endb x'
               | Close | Drop => out_eqb x' OOk
               | _ => negb (is_frameb x') && negb (out_eqb x' OStop) && negb (out_eqb x' (OErr EFinalized))
               end in
      let en' := en || ends o x' in
      Some (fz || (ow && en'), Some (ow, en'), ok_out)
    | _, _ => Some (fz, cur, false)
    end
  | XStep SOwnerFinalize =>
    match cur with
    | Some (_, false) => None
    | _ => Some (true, cur, match y with SDone => true | _ => false end)
    end
  | XAnimate c =>
    let fz1 := fz || dropped_finalizes cur in
    Some (fz1, None,
          if fz1 then match y with SRefused _ => true | _ => false end     (* must be refused *)
          else match y with SDone | SRefused _ | SOut (OErr _) => true | _ => false end)
  end.

(** verdict 0 = accepted so far, 1 = contradicts the property, 2 = misuse (not judged) *)
Fixpoint sspec_walk (fz : bool) (cur : option (bool * bool)) (steps : list xstep) (obs : list sout)
         (fins : list nat) (fzs : list bool) : nat * (bool * option (bool * bool)) :=
  match steps, obs, fins, fzs with
  | [], [], [], [] => (0%nat, (fz, cur))
  | x :: steps', y :: obs', f :: fins', z :: fzs' =>
    match sspec_step fz cur x y with
    | None => (2%nat, (fz, cur))
    | Some (fz', cur', ok) =>
      if ok && Nat.eqb f (if fz' then 1 else 0) && Bool.eqb z fz'      (* never a second call; never a caller's data *)
      then sspec_walk fz' cur' steps' obs' fins' fzs'
      else (1%nat, (fz, cur))
    end
  | _, _, _, _ => (1%nat, (fz, cur))
  end.

Definition sspec_ok (t : scase) : bool :=
  match sspec_walk false None (sc_steps t) (sc_obs t) (sc_fins t) (sc_fzs t) with
  | (2%nat, _) => true
  | (0%nat, (fz, cur)) =>
    let fz_end := fz || dropped_finalizes cur in
    forallb (fun rc => negb (rc_finalized rc)) (sc_log t)            (* no _render_ ever saw finalized data *)
    && Nat.eqb (sc_fin_end t) (if fz_end then 1 else 0) && Bool.eqb (sc_fz_end t) fz_end
    && Nat.eqb (sc_fin_owner t) 1
  | _ => false
  end.

Definition scheck10 (t : scase) : nat :=
  ((if smodel_ok t then 0 else 1) + (if sspec_ok t then 0 else 2))%nat.

Definition sbad10 (cases : list scase) : list (nat * nat) :=
  filter (fun p => negb (Nat.eqb (snd p) 0)) (index_from 0 (map scheck10 cases)).
