(** Executable comparisons of the C10 correspondence (harness/props/c10.py,
    harness/impl/impl_c10.py): what the implementation showed about the life of its render
    data, against
      - the finalisation ghost of the code model [Iter] (bit 1: model agreement), and
      - the property itself, evaluated on the observations alone (bit 2: double
        finalisation, a render on finalized data, a leak, a caller's data finalized, an
        iterator still open after it ended).
    Definitions only. *)
From Coq Require Import List ZArith Bool Arith Lia.
Import ListNotations.
From TI Require Import model.Iter model.IterSpec model.IterTie model.IterFin.
Open Scope Z_scope.

Definition is_frameb (x : out) : bool := match x with OFrame _ => true | _ => false end.
Definition is_endb (x : out) : bool := match x with OStop | OErr _ => true | _ => false end.
Definition nat_list_eqb := list_eqb Nat.eqb.
Definition bool_list_eqb := list_eqb Bool.eqb.

(** * Iterator histories *)

Record fcase := {
  f_t : tcase;                  (* configuration, history, observed trace / log / fin / finalized after del + gc *)
  f_kind : nat;                 (* 0: RenderIterator(...); 1: _from_render_data_(finalize=False);
                                   2: _from_render_data_(finalize=True) *)
  f_size_fault : bool;          (* _get_render_size_ raises while the render data is being built *)
  f_data_fault : bool;          (* _get_render_data_ raises after the render data was built *)
  f_fin_ops : list nat;         (* observed after every operation: calls of _finalize_render_data_ on the data *)
  f_fz_ops : list bool;         (* observed after every operation: RenderData.finalized *)
  f_closed_ops : list bool;     (* observed after every operation: iterator._closed *)
  f_others : list nat;          (* observed at the end: calls of _finalize_render_data_ on every OTHER render
                                   data object that came into being (abandoned by a failing constructor) *)
  f_fin_caller : nat;           (* observed at the very end, after the caller of _from_render_data_ has
                                   finalized its data itself *)
  f_fin_faults : list nat;      (* schedule: the invocations (0-based, per data object) of
                                   _finalize_render_data_ that raise RuntimeError *)
  f_gc_raised : nat;            (* observed: finalizer exceptions reported as unraisable during
                                   del iterator + gc.collect() (or while a failed constructor's data dies) *)
  f_caller_raised : bool        (* observed: that final finalize() by the caller raised *)
}.

(** the finalizer's exception as the drivers report it *)
Definition fin_err : out := OErr (ERender 90).
Definition oracle (faults : list nat) (k : nat) : bool := existsb (Nat.eqb k) faults.
Definition fout_obs_eqb (y : fout) (x : out) : bool :=
  match y with FO x' => out_eqb x' x | FRaised _ => out_eqb fin_err x end.
Definition fobs_eqb (a : fout * Z) (b : out * Z) : bool := fout_obs_eqb (fst a) (fst b) && (snd a =? snd b).
Fixpoint list_eqb2 {A B} (eqb : A -> B -> bool) (a : list A) (b : list B) : bool :=
  match a, b with
  | [], [] => true
  | x :: a', y :: b' => eqb x y && list_eqb2 eqb a' b'
  | _, _ => false
  end.

Definition f_owns (t : fcase) : bool := negb (Nat.eqb (f_kind t) 1).

Section Model.
  Variable t : fcase.
  Let tt := f_t t.
  Let render := t_render tt.
  Let nn := t_n tt.
  Let fr := oracle (f_fin_faults t).

  (** per operation: (fin_calls, finalized, closed) after it *)
  Fixpoint ghost_trace (s : state vr_state) (ops : list op) : list (nat * bool * bool) :=
    match ops with
    | [] => []
    | o :: r => let s' := fst (step vr_state render nn term8030 s o) in
                (fin_calls (gh s'), finalized (gh s'), closed s') :: ghost_trace s' r
    end.

  Definition obs_ghost : list (nat * bool * bool) :=
    map (fun x => (fst (fst x), snd (fst x), snd x))
        (combine (combine (f_fin_ops t) (f_fz_ops t)) (f_closed_ops t)).

  Definition ghost_eqb (a b : nat * bool * bool) : bool :=
    Nat.eqb (fst (fst a)) (fst (fst b)) && Bool.eqb (snd (fst a)) (snd (fst b)) && Bool.eqb (snd a) (snd b).

  (** construction, with the two fault positions of render-data creation
      ([_init] validation and argument compatibility come first: _iterator.py:138-141,
      _renderable.py:1112-1116) *)
  Definition mk_f : state vr_state + err :=
    match mk vr_state nn term8030 (t_cfg tt) t_rs0 with
    | inr e => inr e
    | inl s => if f_size_fault t || f_data_fault t then inr (ERender 1) else inl s
    end.

  Definition model10_ok : bool :=
    Bool.eqb (c_owns (t_cfg tt)) (f_owns t) &&
    match mk_f, t_ctor tt with
    | inr e, Some e' =>
      err_eqb e e' && match t_obs tt with [] => true | _ => false end
      && Nat.eqb (t_fin tt) 0 && negb (t_finalized_end tt)
      && match mk vr_state nn term8030 (t_cfg tt) t_rs0 with
         | inl _ => nat_list_eqb (f_others t) [1%nat]          (* the abandoned data dies: RenderData.__del__ *)
                    && Nat.eqb (f_gc_raised t) (if fr 0%nat then 1 else 0)
         | inr _ => nat_list_eqb (f_others t) [] && Nat.eqb (f_gc_raised t) 0
         end
    | inl s, None =>
      list_eqb2 fobs_eqb (ftrace vr_state render nn term8030 fr s (t_ops tt)) (t_obs tt)
      && list_eqb rcall_eqb (rev (log (gh (frun vr_state render nn term8030 fr s (t_ops tt))))) (t_log tt)
      && Nat.eqb (length (f_fin_ops t)) (length (t_ops tt))
      && Nat.eqb (length (f_fz_ops t)) (length (t_ops tt))
      && Nat.eqb (length (f_closed_ops t)) (length (t_ops tt))
      && list_eqb ghost_eqb (ghost_trace s (t_ops tt)) obs_ghost
      && (let '(s', r) := fclose vr_state fr (frun vr_state render nn term8030 fr s (t_ops tt)) in  (* del + gc.collect() *)
          Nat.eqb (fin_calls (gh s')) (t_fin tt) && Bool.eqb (finalized (gh s')) (t_finalized_end tt)
          && Nat.eqb (f_gc_raised t) (if r then 1 else 0)
          && (let '(g, r2) := fdata_finalize fr (gh s') in                           (* the caller's finalize() *)
              Nat.eqb (fin_calls g) (f_fin_caller t) && Bool.eqb r2 (f_caller_raised t)))
      && match f_others t with [] => true | _ => false end
    | _, _ => false
    end.
End Model.

(** ** the property, on the observations alone *)

(** what an operation on an iterator that has ended must answer *)
Definition ended_out (o : op) : out :=
  match o with Next => OStop | Close | Drop => OOk | _ => OErr EFinalized end.

(** does this operation, with this answer, end the iterator? *)
Definition ends (o : op) (x : out) : bool :=
  match o with Close | Drop => true | Next => is_endb x | _ => false end.

(** walks the history: [ended] = the iterator has ended before this operation *)
Fixpoint spec_walk (owns may_raise ended : bool) (ops : list op) (obs : list out) (fins : list nat) (fzs : list bool)
  : bool :=
  match ops, obs, fins, fzs with
  | [], [], [], [] => true
  | o :: ops', x :: obs', f :: fins', z :: fzs' =>
    let ok_out :=
        if ended then out_eqb x (ended_out o)
        else match o with
             | Next => is_frameb x || is_endb x
             | Close | Drop => out_eqb x OOk || (owns && may_raise && out_eqb x fin_err)
             | _ => negb (is_frameb x) && negb (out_eqb x OStop) && negb (out_eqb x (OErr EFinalized))
                    && negb (out_eqb x fin_err)
             end in
    let ended' := ended || ends o x in
    ok_out
    && Nat.eqb f (if owns && ended' then 1 else 0)       (* exactly once, exactly when it ends; never a caller's *)
    && Bool.eqb z (owns && ended')
    && spec_walk owns may_raise ended' ops' obs' fins' fzs'
  | _, _, _, _ => false
  end.

(** the number of [next] operations made before the iterator ended *)
Fixpoint live_nexts (ended : bool) (ops : list op) (obs : list out) : nat :=
  match ops, obs with
  | o :: ops', x :: obs' =>
    ((if negb ended && match o with Next => true | _ => false end then 1 else 0)
     + live_nexts (ended || ends o x) ops' obs')%nat
  | _, _ => 0%nat
  end.

Definition spec10_ok (t : fcase) : bool :=
  let tt := f_t t in
  let owns := f_owns t in
  (* no frame is ever rendered with finalized data *)
  forallb (fun rc => negb (rc_finalized rc)) (t_log tt)
  (* every other render data object that came into being is finalized exactly once *)
  && forallb (Nat.eqb 1) (f_others t)
  && match t_ctor tt with
     | Some _ =>
       (* failed construction: a caller's data is left alone (the caller still owns it) *)
       (Nat.leb (t_fin tt) (if Nat.eqb (f_kind t) 2 then 1 else 0))
       && match t_obs tt with [] => true | _ => false end
     | None =>
       spec_walk owns (negb (Nat.eqb (length (f_fin_faults t)) 0)) false
                 (t_ops tt) (map fst (t_obs tt)) (f_fin_ops t) (f_fz_ops t)
       (* the finalizer's exception surfaces at most once, and only if one was scheduled *)
       && Nat.leb (length (filter (out_eqb fin_err) (map fst (t_obs tt))) + f_gc_raised t
                   + (if f_caller_raised t then 1 else 0))
                  (if Nat.eqb (length (f_fin_faults t)) 0 then 0 else 1)
       (* renders only happen for a [next] on a live iterator, one at most per [next] *)
       && Nat.leb (length (t_log tt)) (live_nexts false (t_ops tt) (map fst (t_obs tt)))
       (* after del + gc.collect(): the owner's data finalized exactly once, a caller's never *)
       && Nat.eqb (t_fin tt) (if owns then 1 else 0)
       && Bool.eqb (t_finalized_end tt) owns
       (* and the caller can still finalize its own, once *)
       && Nat.eqb (f_fin_caller t) 1
     end.

Definition check10 (t : fcase) : nat :=
  ((if model10_ok t then 0 else 1) + (if spec10_ok t then 0 else 2))%nat.

Definition bad10 (cases : list fcase) : list (nat * nat) :=
  filter (fun p => negb (Nat.eqb (snd p) 0)) (index_from 0 (map check10 cases)).

(** * One-shot operations: render(), str(), draw() *)

Record ocase := {
  o_t : tcase;                  (* renderable, configuration; [t_ctor]: observed outcome (None = returned),
                                   [t_log]: observed _render_ calls; history fields unused *)
  o_mode : nat;                 (* 0: render(); 1: str(); 2: draw() *)
  o_animate : bool;             (* draw(animate=...) *)
  o_check_size : bool;
  o_allow_scroll : bool;
  o_size_fault : bool;          (* _get_render_size_ raises *)
  o_fin_ret : list nat;         (* observed when the call returned / while its exception was still alive:
                                   per render data object handed out, calls of _finalize_render_data_ *)
  o_fin_gc : list nat;          (* the same after dropping the exception and gc.collect() *)
  o_orphans : list nat;         (* the same for render data objects abandoned half-built *)
  o_fin_faults : list nat;      (* schedule: the invocations of _finalize_render_data_ that raise *)
  o_unraisable : nat            (* observed: finalizer exceptions reported as unraisable (RenderData.__del__) *)
}.

Definition animated (n : option Z) : bool := match n with Some k => 2 <=? k | None => true end.

(** [_init_render_] lines 1121-1137: true = RenderSizeOutofRangeError *)
Definition size_check_fails (pad : padding) (sz : size) (allow_scroll : bool) : bool :=
  let ps := padded_size (resolve term8030 pad) sz in
  (fst term8030 <? fst ps) || (negb allow_scroll && (snd term8030 <? snd ps)).

Section OModel.
  Variable t : ocase.
  Let tt := o_t t.
  Let render := t_render tt.
  Let nn := t_n tt.
  Let fr := oracle (o_fin_faults t).

  (** [_animate_], _renderable.py:749-809: first frame, set_padding(NO_PADDING), the rest;
      StopIteration ends it, an exception propagates; [finally: render_iter.close()] *)
  Fixpoint drive (fuel : nat) (first : bool) (s : state vr_state) : state vr_state * out :=
    match fuel with
    | O => (s, OOk)
    | S f =>
      let '(s1, x) := step vr_state render nn term8030 s Next in
      match x with
      | OFrame _ =>
        drive f false (if first then fst (step vr_state render nn term8030 s1 (SetPadding (PExact 0 0 0 0))) else s1)
      | _ => (fst (step vr_state render nn term8030 s1 Close), x)
      end
    end.

  (** (outcome, fin at return, fin after gc, orphans, log) *)
  Definition oneshot_model : option err * list nat * list nat * list nat * list rcall :=
    let c := t_cfg tt in
    let is_draw := Nat.eqb (o_mode t) 2 in
    match (if Nat.eqb (o_mode t) 1 then Some 0 else c_args c) with     (* str(): default arguments *)
    | None => (Some EIncompat, [], [], [], [])                          (* before the data is created *)
    | Some a =>
      if o_size_fault t then (Some (ERender 1), [], [], [1%nat], [])
      else
        let anim := is_draw && animated nn && o_animate t in
        let check := is_draw && (anim || o_check_size t) in
        let scroll := negb anim && o_allow_scroll t in
        let pad := if Nat.eqb (o_mode t) 1 then PExact 0 0 0 0 else c_pad c in
        if check && size_check_fails pad (c_size c) scroll
        then (Some ESizeRange, [0%nat], [1%nat], [], [])               (* left to RenderData.__del__ *)
        else if anim then
          let c' := {| c_loops := c_loops c; c_cache := animate_cache (c_loops c) (c_cache c);
                       c_size := c_size c; c_dur := c_dur c; c_args := c_args c; c_pad := c_pad c;
                       c_owns := false; c_frame := c_frame c |} in
          match mk vr_state nn term8030 c' t_rs0 with
          | inr e => (Some e, [1%nat], [1%nat], [], [])
          | inl s =>
            let '(s', x) := drive 400 true s in
            (match x with OStop => None | OErr e => Some e | _ => Some (ERender (-99)) end,
             [1%nat], [1%nat], [], rev (log (gh s')))
          end
        else
          let d := if animated nn then c_dur c else DStatic 1 in
          let rc := {| rc_fo := c_frame c; rc_wh := WStart; rc_size := c_size c; rc_dur := d; rc_args := a;
                       rc_finalized := false |} in
          let fault := match fault_at 0 (t_faults tt) with
                       | Some k => Some k
                       | None => match nn with Some _ => ffault_at (c_frame c) (t_ffaults tt) | None => None end
                       end in
          (match fault with Some k => Some (ERender k) | None => None end, [1%nat], [1%nat], [], [rc])
    end.

  (** the finalizer's exception: out of the [finally] of [_init_render_] / [draw()] when the
      data is finalized there (it replaces the outcome); reported as unraisable when the data
      is left to [RenderData.__del__] *)
  Definition omodel_ok : bool :=
    let '(oc, fr_, fg, orph, lg) := oneshot_model in
    let at_return := nat_list_eqb fr_ [1%nat] in
    let in_del := (negb (nat_list_eqb fr_ fg) || negb (nat_list_eqb orph [])) in
    opt_err_eqb (if at_return && fr 0%nat then Some (ERender 90) else oc) (t_ctor tt)
    && Nat.eqb (o_unraisable t) (if in_del && fr 0%nat then 1 else 0)
    && nat_list_eqb fr_ (o_fin_ret t) && nat_list_eqb fg (o_fin_gc t)
    && nat_list_eqb orph (o_orphans t) && list_eqb rcall_eqb lg (t_log tt).
End OModel.

(** the property on the observations alone: every render data object finalized exactly once
    (by the time the operation's exception, if any, is dropped), already when the operation
    returns - except for draw()'s size-validation failure, which leaves it to
    RenderData.__del__; nothing rendered with finalized data *)
Definition ospec_ok (t : ocase) : bool :=
  let tt := o_t t in
  forallb (fun rc => negb (rc_finalized rc)) (t_log tt)
  && Nat.eqb (length (o_fin_ret t)) (length (o_fin_gc t))
  && Nat.leb (length (o_fin_gc t)) 1
  && forallb (Nat.eqb 1) (o_fin_gc t)
  && forallb (Nat.eqb 1) (o_orphans t)
  && forallb (fun k => Nat.leb k 1) (o_fin_ret t)
  && Nat.leb (o_unraisable t + (if opt_err_eqb (t_ctor tt) (Some (ERender 90)) then 1 else 0))
             (if Nat.eqb (length (o_fin_faults t)) 0 then 0 else 1)
  && (if Nat.eqb (o_mode t) 2 && opt_err_eqb (t_ctor tt) (Some ESizeRange) && match t_log tt with [] => true | _ => false end
      then true
      else forallb (Nat.eqb 1) (o_fin_ret t)).

Definition ocheck10 (t : ocase) : nat :=
  ((if omodel_ok t then 0 else 1) + (if ospec_ok t then 0 else 2))%nat.

Definition obad10 (cases : list ocase) : list (nat * nat) :=
  filter (fun p => negb (Nat.eqb (snd p) 0)) (index_from 0 (map ocheck10 cases)).
