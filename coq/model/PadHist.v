(** * PadHist — padding under a HISTORY of terminal sizes, padding changes and renders (C05)

    The padding clauses of C05 are stated per output; an output is produced in the middle
    of a history: the terminal has been resized, [RenderIterator.set_padding()] /
    [set_render_size()] / [seek()] have been called, frames have been visited before (and
    are cached), the old image API has formatted / drawn the same class with the same
    specifier before.  This file models the code that decides WHICH padding, resolved
    against WHICH terminal size, is applied to WHICH bare frame at every output:

    - [RenderIterator.__init__] / [_init_render_] ([_iterator.py:130-143],
      [_renderable.py:1121-1125]): the padding is resolved against the terminal size at
      construction;
    - [RenderIterator.set_padding] ([_iterator.py:385-405]): a relative padding is resolved
      against the terminal size AT THAT CALL, [_padded_size] recomputed;
    - [RenderIterator.set_render_size] ([_iterator.py:431-447]);
    - [RenderIterator.seek] (definite frame count, [Seek.START]);
    - one step of [RenderIterator._iterate] ([_iterator.py:583-640]): the per-frame cache of
      BARE frames validated by the render size, the gate
      [self._padded_size != frame.render_size], [self._padding.pad(...)];
    - the per-call padding of the old image API ([BaseImage._check_formatting],
      [common.py:1150-1188], called by [draw()] at [common.py:726] and by
      [_check_format_spec] for [format()]) and of [Renderable.render(padding=)] /
      [_init_render_]: resolved against the terminal size AT THE CALL, nothing kept.

    Definitions only; the specification side ([spec_descrs]: every output described as a
    function of the history prefix alone) and the two designs the property excludes
    ([run_sizecache]: padded frames cached by padded size; [run_memo]: per-call padding
    memoised with its resolution) are here too; proofs in [proofs/PadHistProofs.v]. *)
From Coq Require Import List ZArith Bool Lia.
Import ListNotations.
From TI Require Import lib.Term lib.TermFacts lib.Lines model.Padding model.PadTie.
Open Scope Z_scope.

(** a padding as the API takes it: the kind ([PAligned] possibly relative, [PExact],
    [POld] = the old API's pad_width / pad_height / alignments) and the fill *)
Record padspec := { ps_kind : pkind; ps_fill : option glyph }.

Inductive hstep :=
| HResize (tw th : Z)                     (* the terminal is resized *)
| HSetPadding (p : padspec)               (* RenderIterator.set_padding(p) *)
| HSetSize (w h : Z)                      (* RenderIterator.set_render_size((w, h)) *)
| HSeek (k : nat)                         (* RenderIterator.seek(k) *)
| HNext                                   (* next(iterator): an output *)
| HCall (p : padspec) (k : nat) (w h : Z).
    (* format(image_k, spec) / image_k.draw(pad_width=, pad_height=) / renderable_k.render(padding=p)
       of an image / renderable of render size (w, h): an output *)

(** ** dimensions of a padding *)

(** [AlignedPadding.resolve(terminal_size)] / [_check_formatting]'s resolution, on a kind *)
Definition resolve_kind (tw th : Z) (k : pkind) : pkind :=
  match k with
  | PAligned W H ha va => let '(W', H') := resolve tw th W H in PAligned W' H' ha va
  | PExact l t r b => k
  | POld W H ha va => let '(W', H') := old_resolve tw th W H in POld W' H' ha va
  end.

(** [_get_exact_dimensions_] of a padding that is not relative any more *)
Definition abs_dims (k : pkind) (w h : Z) : Z * Z * Z * Z :=
  match k with
  | PAligned W H ha va => aligned_dims W H ha va w h
  | PExact l t r b => (l, t, r, b)
  | POld W H ha va => old_dims W H ha va w h
  end.

(** [get_padded_size] (with [AlignedPadding]'s override) *)
Definition kind_padded_size (k : pkind) (w h : Z) : Z * Z :=
  match k with
  | PAligned W H _ _ => aligned_padded_size W H w h
  | _ => padded_size (abs_dims k w h) w h
  end.

(** the margins of padding [k] for terminal size [(tw, th)] and render size [(w, h)]
    (= [PadTie.dims_of]) *)
Definition kind_dims (k : pkind) (tw th w h : Z) : Z * Z * Z * Z :=
  match k with
  | PAligned W H ha va => let '(W', H') := resolve tw th W H in aligned_dims W' H' ha va w h
  | PExact l t r b => (l, t, r, b)
  | POld W H ha va => let '(W', H') := old_resolve tw th W H in old_dims W' H' ha va w h
  end.

Definition kind_valid (k : pkind) : bool :=
  match k with PExact l t r b => exact_valid l t r b | _ => true end.

Definition size_eqb (a b : Z * Z) : bool := (fst a =? fst b) && (snd a =? snd b).

(** ** the code: a fold over the history *)

Record hstate := {
  s_tw : Z; s_th : Z;                   (* get_terminal_size() *)
  s_pad : padspec;                      (* self._padding (never relative) *)
  s_psize : Z * Z;                      (* self._padded_size *)
  s_w : Z; s_h : Z;                     (* renderable_data.size *)
  s_pos : nat;                          (* renderable_data.frame_offset *)
  s_cache : list (option (Z * Z * list tok));
      (* cache[frame_no] = (frame, size, ...); the empty list when caching is off *)
}.

Fixpoint upd {A} (l : list A) (n : nat) (x : A) : list A :=
  match l, n with
  | [], _ => []
  | _ :: r, O => x :: r
  | y :: r, S m => y :: upd r m x
  end.

Section Hist.
(** the renderable: [bare k w h] is the render output of frame [k] at render size [(w, h)]
    ([_render_] is a function of the frame number and the size); [N] frames *)
Variable bare : nat -> Z -> Z -> list tok.
Variable N : nat.

Definition with_padding (st : hstate) (p : padspec) : hstate :=
  let p' := {| ps_kind := resolve_kind (s_tw st) (s_th st) (ps_kind p); ps_fill := ps_fill p |} in
  {| s_tw := s_tw st; s_th := s_th st; s_pad := p';
     s_psize := kind_padded_size (ps_kind p') (s_w st) (s_h st);
     s_w := s_w st; s_h := s_h st; s_pos := s_pos st; s_cache := s_cache st |}.

(** [RenderIterator(renderable, padding=p0, cache=cached)] on a terminal of [(tw, th)]
    columns by lines, the renderable's render size being [(w, h)] *)
Definition init_state (tw th w h : Z) (p0 : padspec) (cached : bool) : hstate :=
  with_padding {| s_tw := tw; s_th := th; s_pad := p0; s_psize := (w, h); s_w := w; s_h := h;
                  s_pos := O; s_cache := if cached then repeat None N else [] |} p0.

(** the bare frame: from the cache when the entry was rendered at the current size *)
Definition fetch (st : hstate) : list tok :=
  match nth_error (s_cache st) (s_pos st) with
  | Some (Some (cw, ch, R)) =>
    if size_eqb (cw, ch) (s_w st, s_h st) then R else bare (s_pos st) (s_w st) (s_h st)
  | _ => bare (s_pos st) (s_w st) (s_h st)
  end.

(** one [yield] of [_iterate] *)
Definition emit (st : hstate) : list tok * hstate :=
  let R := fetch st in
  let out :=
      if size_eqb (s_psize st) (s_w st, s_h st) then R
      else pad (ps_fill (s_pad st)) (abs_dims (ps_kind (s_pad st)) (s_w st) (s_h st)) (s_w st) R in
  (out,
   {| s_tw := s_tw st; s_th := s_th st; s_pad := s_pad st; s_psize := s_psize st;
      s_w := s_w st; s_h := s_h st;
      s_pos := Nat.modulo (S (s_pos st)) N;
      s_cache := upd (s_cache st) (s_pos st) (Some (s_w st, s_h st, R)) |}).

(** a per-call padding: resolved against the terminal size now, applied, forgotten *)
Definition call (st : hstate) (p : padspec) (k : nat) (w h : Z) : list tok :=
  pad (ps_fill p) (abs_dims (resolve_kind (s_tw st) (s_th st) (ps_kind p)) w h) w (bare k w h).

Definition step (st : hstate) (s : hstep) : list (list tok) * hstate :=
  match s with
  | HResize tw th =>
    ([], {| s_tw := tw; s_th := th; s_pad := s_pad st; s_psize := s_psize st; s_w := s_w st;
            s_h := s_h st; s_pos := s_pos st; s_cache := s_cache st |})
  | HSetPadding p => ([], with_padding st p)
  | HSetSize w h =>
    ([], {| s_tw := s_tw st; s_th := s_th st; s_pad := s_pad st;
            s_psize := kind_padded_size (ps_kind (s_pad st)) w h; s_w := w; s_h := h;
            s_pos := s_pos st; s_cache := s_cache st |})
  | HSeek k =>
    ([], {| s_tw := s_tw st; s_th := s_th st; s_pad := s_pad st; s_psize := s_psize st;
            s_w := s_w st; s_h := s_h st; s_pos := k; s_cache := s_cache st |})
  | HNext => let '(o, st') := emit st in ([o], st')
  | HCall p k w h => ([call st p k w h], st)
  end.

Fixpoint run_from (st : hstate) (steps : list hstep) : list (list tok) :=
  match steps with
  | [] => []
  | s :: rest => let '(os, st') := step st s in os ++ run_from st' rest
  end.

(** all outputs of a history, in order *)
Definition run (tw th w h : Z) (p0 : padspec) (cached : bool) (steps : list hstep) : list (list tok) :=
  run_from (init_state tw th w h p0 cached) steps.

(** ** the specification: every output as a function of the history before it *)

(** what is in force after a history, read off the history backwards ([rpre] = the
    history so far, most recent step first) *)
Fixpoint term_of (t0 : Z * Z) (rpre : list hstep) : Z * Z :=
  match rpre with
  | [] => t0
  | HResize tw th :: _ => (tw, th)
  | _ :: r => term_of t0 r
  end.

Fixpoint size_of (s0 : Z * Z) (rpre : list hstep) : Z * Z :=
  match rpre with
  | [] => s0
  | HSetSize w h :: _ => (w, h)
  | _ :: r => size_of s0 r
  end.

(** the iterator's padding: the argument of the last [set_padding] (else the
    constructor's), together with the terminal size at THAT moment *)
Fixpoint padding_of (t0 : Z * Z) (p0 : padspec) (rpre : list hstep) : padspec * (Z * Z) :=
  match rpre with
  | [] => (p0, t0)
  | HSetPadding p :: r => (p, term_of t0 r)
  | _ :: r => padding_of t0 p0 r
  end.

(** the frame the next [next()] yields *)
Fixpoint pos_of (rpre : list hstep) : nat :=
  match rpre with
  | [] => O
  | HSeek k :: _ => k
  | HNext :: r => Nat.modulo (S (pos_of r)) N
  | _ :: r => pos_of r
  end.

(** the description of an output: fill, margins, render size, frame *)
Record descr := { d_fill : option glyph; d_dims : Z * Z * Z * Z; d_w : Z; d_h : Z; d_k : nat }.

(** [next()] after the history [rpre]: the CURRENT padding of the iterator, resolved
    against the terminal size at the time it was set, around frame [pos_of] at the
    CURRENT render size *)
Definition descr_next (t0 s0 : Z * Z) (p0 : padspec) (rpre : list hstep) : descr :=
  let '(p, (tw, th)) := padding_of t0 p0 rpre in
  let '(w, h) := size_of s0 rpre in
  {| d_fill := ps_fill p; d_dims := kind_dims (ps_kind p) tw th w h; d_w := w; d_h := h;
     d_k := pos_of rpre |}.

(** a call with its own padding after the history [rpre]: that padding resolved against
    the CURRENT terminal size *)
Definition descr_call (t0 : Z * Z) (rpre : list hstep) (p : padspec) (k : nat) (w h : Z) : descr :=
  let '(tw, th) := term_of t0 rpre in
  {| d_fill := ps_fill p; d_dims := kind_dims (ps_kind p) tw th w h; d_w := w; d_h := h; d_k := k |}.

Fixpoint spec_from (t0 s0 : Z * Z) (p0 : padspec) (rpre : list hstep) (rest : list hstep) : list descr :=
  match rest with
  | [] => []
  | s :: rest' =>
    match s with
    | HNext => [descr_next t0 s0 p0 rpre]
    | HCall p k w h => [descr_call t0 rpre p k w h]
    | _ => []
    end ++ spec_from t0 s0 p0 (s :: rpre) rest'
  end.

Definition spec_descrs (tw th w h : Z) (p0 : padspec) (steps : list hstep) : list descr :=
  spec_from (tw, th) (w, h) p0 [] steps.

(** what an output described by [d] must be: [pad] of the bare frame *)
Definition render_descr (d : descr) : list tok :=
  pad (d_fill d) (d_dims d) (d_w d) (bare (d_k d) (d_w d) (d_h d)).

(** well-formed histories: what the API accepts (positive sizes, valid exact margins,
    seeks within the frame count) *)
Definition step_wf (s : hstep) : bool :=
  match s with
  | HResize tw th => true
  | HSetPadding p => kind_valid (ps_kind p)
  | HSetSize w h => (0 <? w) && (0 <? h)
  | HSeek k => Nat.ltb k N
  | HNext => true
  | HCall p k w h => kind_valid (ps_kind p) && (0 <? w) && (0 <? h)
  end.

Definition hist_wf (w h : Z) (p0 : padspec) (steps : list hstep) : bool :=
  Nat.ltb 0 N && (0 <? w) && (0 <? h) && kind_valid (ps_kind p0) && forallb step_wf steps.

(** ** two designs the property excludes (refuted in [proofs/PadHistProofs.v]) *)

(** (a) padded frames kept per frame number and re-used whenever their SIZE equals the
    current padded size *)
Fixpoint run_sizecache (pc : list (option (Z * Z * list tok))) (st : hstate) (steps : list hstep)
  : list (list tok) :=
  match steps with
  | [] => []
  | HNext :: rest =>
    let '(o, st') := emit st in
    let o' := match nth_error pc (s_pos st) with
              | Some (Some (pw, ph, P)) => if size_eqb (pw, ph) (s_psize st) then P else o
              | _ => o
              end in
    o' :: run_sizecache (upd pc (s_pos st) (Some (fst (s_psize st), snd (s_psize st), o'))) st' rest
  | s :: rest => let '(os, st') := step st s in os ++ run_sizecache pc st' rest
  end.

Definition pkind_eqb (a b : pkind) : bool :=
  match a, b with
  | PAligned W H x y, PAligned W' H' x' y' | POld W H x y, POld W' H' x' y' =>
    (W =? W') && (H =? H') && Nat.eqb x x' && Nat.eqb y y'
  | PExact l t r b, PExact l' t' r' b' => (l =? l') && (t =? t') && (r =? r') && (b =? b')
  | _, _ => false
  end.

Fixpoint memo_find (m : list (pkind * pkind)) (k : pkind) : option pkind :=
  match m with
  | [] => None
  | (a, b) :: r => if pkind_eqb a k then Some b else memo_find r k
  end.

(** (b) the per-call padding memoised TOGETHER WITH its resolution, keyed by the padding
    as given *)
Fixpoint run_memo (m : list (pkind * pkind)) (st : hstate) (steps : list hstep) : list (list tok) :=
  match steps with
  | [] => []
  | HCall p k w h :: rest =>
    let rk := match memo_find m (ps_kind p) with
              | Some rk => rk
              | None => resolve_kind (s_tw st) (s_th st) (ps_kind p)
              end in
    pad (ps_fill p) (abs_dims rk w h) w (bare k w h) :: run_memo ((ps_kind p, rk) :: m) st rest
  | s :: rest => let '(os, st') := step st s in os ++ run_memo m st' rest
  end.

End Hist.
