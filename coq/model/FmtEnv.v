(** C19 — format specifiers: the process environment of format().  Definitions only.

    The property ("an accepted specifier denotes exactly the documented alignment and
    padding size ... so formatting with a specifier equals drawing with the equivalent
    explicit parameters") quantifies over every process in which format() is called.  The
    library is made for processes whose standard streams are on a terminal; a test
    harness calls format() with every stream on a pipe.  Here the environment is an
    explicit input of the formatting function:

      [env]                what a process can find out about its surroundings: the size
                           get_terminal_size() reports, and which of the three standard
                           streams are on the terminal (sys.stdout.isatty() etc.;
                           [e_active]: the library has an active terminal,
                           utils._tty_fd <> -1)
      [format_render_geom] BaseImage._format_render (common.py:1368-1419): the geometry of
                           the padded render
      [impl_format]        BaseImage.__format__ (common.py:271-284) in an environment:
                           _check_format_spec, then _format_render.  The only thing it
                           reads from the environment is get_terminal_size() (inside
                           _check_formatting, for absent / non-positive sizes).

    Specification side (formatting.rst "width: padding width ... default: terminal
    width", "height: padding height ... default: terminal height minus two", "if less than
    or equal to the image's rendered width/height, has no effect"; draw(): "positive:
    absolute and used as-is; non-positive: relative to the terminal dimension"):
      [geom_ok]            the rectangle the documented meaning [FmtSpec.meaning] demands
                           for a render of a given size — a function of the meaning alone;
                           the environment does not occur in it.

    [impl_format_ttycap] is an EXCLUDED design (the padding width capped at the terminal
    width when standard output is a terminal), kept only to be refuted. *)
From Coq Require Import List Bool Arith NArith ZArith.
Import ListNotations.
From TI Require Import lib.Re lib.CRe gen.Regexes model.FmtSpec.
Local Open Scope Z_scope.

Record env := {
  e_ts : tsize;          (* get_terminal_size() in this process *)
  e_in_tty : bool;       (* sys.stdin.isatty()  *)
  e_out_tty : bool;      (* sys.stdout.isatty() *)
  e_err_tty : bool       (* sys.stderr.isatty() *)
}.

(** utils.py:818-831: the first of stdout, stdin, stderr that is a terminal becomes the
    active terminal (the process has no other controlling terminal here) *)
Definition e_active (e : env) : bool := e_out_tty e || e_in_tty e || e_err_tty e.

(** image.rendered_size *)
Record rsize := { rc : Z; rl : Z }.

(** geometry of a formatted render: number of lines, width of every line, index of the
    first line of the primary render, blanks left of it *)
Record geom := { g_lines : Z; g_width : Z; g_top : Z; g_left : Z }.

(** common.py _format_render:
      if width > cols:  left = "" | " " * (width - cols) | " " * ((width - cols) // 2)
      else: left = right = ""
      if height > lines: top = 0 | height - lines | (height - lines) // 2
                         padding lines are max(width, cols) wide
      else: top = bottom = "" *)
Definition format_render_geom (rs : rsize) (ha : option N) (w : Z) (va : option N) (h : Z) : geom :=
  {| g_lines := if rl rs <? h then h else rl rs;
     g_width := if rc rs <? w then w else rc rs;
     g_top := if rl rs <? h then
                match va with
                | Some 94%N => 0                      (* "^" top *)
                | Some 95%N => h - rl rs              (* "_" bottom *)
                | _ => (h - rl rs) / 2                (* middle *)
                end
              else 0;
     g_left := if rc rs <? w then
                 match ha with
                 | Some 60%N => 0                     (* "<" left *)
                 | Some 62%N => w - rc rs             (* ">" right *)
                 | _ => (w - rc rs) / 2               (* center *)
                 end
               else 0 |}.

Inductive formatted :=
| FOk (g : geom) (a : alpha_raw) (sa : sargs)    (* the string returned: geometry + what the renderer was given *)
| FValueErr
| FStyleErr.

(** BaseImage.__format__:
      h_align, width, v_align, height, alpha, style_args = self._check_format_spec(spec)
      return self._format_render(
          self._renderer(self._render_image, alpha, **style_args),
          h_align, width, v_align, height)
    on the fields of a specifier that passed the regular expressions *)
Definition impl_format (e : env) (sty : style) (rs : rsize) (f : fields) (sf : option sfields) : formatted :=
  match interp (e_ts e) sty f sf with
  | Accepted r =>
      FOk (format_render_geom rs (r_halign r) (r_width r) (r_valign r) (r_height r)) (r_alpha r) (r_sargs r)
  | ValueErr => FValueErr
  | StyleErr => FStyleErr
  end.

(** * The documented geometry *)

(** "center" / "middle": the blanks are split evenly; which side gets the odd one is not
    documented (C05 pins the placement down; here either is accepted) *)
Definition near_half (x total : Z) : bool := Z.abs (2 * x - total) <=? 1.

Definition geom_ok (m : meaning) (rs : rsize) (g : geom) : bool :=
  let W := Z.max (m_pw m) (rc rs) in      (* a padding width not above the render width has no effect *)
  let H := Z.max (m_ph m) (rl rs) in
  (g_width g =? W) && (g_lines g =? H)
  && match m_h m with
     | HLeft => g_left g =? 0
     | HRight => g_left g =? W - rc rs
     | HCenter => near_half (g_left g) (W - rc rs)
     end
  && match m_v m with
     | VTop => g_top g =? 0
     | VBottom => g_top g =? H - rl rs
     | VMiddle => near_half (g_top g) (H - rl rs)
     end.

(** str(image): "renders the image with transparency enabled and without alignment /
    padding": the primary render as it is *)
Definition geom_plain (rs : rsize) (g : geom) : bool :=
  (g_width g =? rc rs) && (g_lines g =? rl rs) && (g_left g =? 0) && (g_top g =? 0).

(** * An excluded design *)

(** the padding width silently capped at the terminal width when standard output is a
    terminal ("padded lines wider than the terminal would wrap") *)
Definition impl_format_ttycap (e : env) (sty : style) (rs : rsize) (f : fields) (sf : option sfields) : formatted :=
  match interp (e_ts e) sty f sf with
  | Accepted r =>
      let w := if e_out_tty e then Z.min (r_width r) (cols (e_ts e)) else r_width r in
      FOk (format_render_geom rs (r_halign r) w (r_valign r) (r_height r)) (r_alpha r) (r_sargs r)
  | ValueErr => FValueErr
  | StyleErr => FStyleErr
  end.
