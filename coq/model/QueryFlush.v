(** C12 — WHEN the unread input is discarded relative to the write of the request, and WHEN a
    reply arrives relative to the library's own steps.

    The property says "each [reply] after an arbitrary delay shorter than the timeout": a delay
    of (practically) zero is an allowed delay.  The terminal can answer at any instant after
    the request bytes have reached it — in particular BETWEEN write_tty() returning and the
    library's next step (a quick terminal; the process descheduled right after writing; a slow
    tcdrain() on a link on which the reply is already on its way).  In model/Query.v /
    model/QueryInit.v a reply arrives [d >= 0] ticks after the write has completed ([write_A]:
    time [t_w]), every later step of the library costs [cost i] ticks, [cost] arbitrary: so
    [d = 0] (and every [d < cost] of the next step) IS an arrival inside that window.  What was
    implicit there is the POSITION of the discard of unread input relative to the write; here it
    is a parameter, and the steps are mirrored one by one:

      utils.py:620-628  query_terminal — the code = [flush_before]:
          old_attr = tcgetattr(); new_attr = old_attr without ECHO
          tcsetattr(TCSAFLUSH, new_attr)     <- discard (documented step 1), THEN
          write_tty(request)                 <- step 2: os.write + tcdrain
          read_tty(more, timeout)            <- step 3
          finally: tcsetattr(TCSANOW, old_attr)

      the excluded order = [flush_after_write] ("discard once the request has been transmitted"):
          tcsetattr(TCSADRAIN, new_attr)     <- attribute change that KEEPS the input queue
          write_tty(request)
          tcflush(TCIFLUSH)                  <- one more step; whatever has arrived by then —
                                                unread input AND any reply that was quick — is gone
          read_tty(more, timeout)
          finally: tcsetattr(TCSANOW, old_attr)

    [query_F flush_before] is [QueryInit.query_A always_flush] (proofs/QueryFlushProofs.v), so
    every end-to-end theorem holds for arrivals at ANY point after the request is written;
    [flush_after_write] is refuted there with a reply that arrives between the write and the
    flush.  Definitions only. *)
From Coq Require Import Ascii String List ZArith Bool Arith.
Import ListNotations.
From TI Require Import model.Query model.QueryInit.
Open Scope Z_scope.

Inductive flush_pos := flush_before | flush_after_write.

Section FlushGetters.
Variable cost : nat -> Z.
Variable cfg : config.
Variable term : terminal.
Variable pos : flush_pos.

(** termios.tcflush(fd, TCIFLUSH): one step (a system call), after which whatever has arrived
    by then is gone, what is still on its way stays *)
Definition tcflush_A (s : ttyA) : ttyA :=
  let st := core s in
  with_core s (flush_input {| now := now st + cost (tick st); pend := pend st;
                              tick := S (tick st); written := written st |}).

(** the window in which a reply is exposed to a discard that FOLLOWS the write: from the
    instant write_tty() has returned ([t_w], delay 0) to the end of the next step *)
Definition in_window (s_written : ttyA) (d : Z) : Prop :=
  0 <= d <= cost (tick (core s_written)).

Definition query_F (more : list byte -> bool) (request : list byte) (s : ttyA)
  : option (list byte) * ttyA :=
  if negb (enabled cfg) then (None, s) else
  let old := attr s in
  match pos with
  | flush_before =>
      let s1 := tcsetattr TCSAFLUSH (no_echo old) s in
      let (inp, s2) := timed_read_A cost more (qtimeout cfg) (write_A cost term request s1) in
      (Some inp, tcsetattr TCSANOW old s2)
  | flush_after_write =>
      (* TCSADRAIN waits for pending output and keeps the input queue: on the queue it acts as TCSANOW *)
      let s1 := tcsetattr TCSANOW (no_echo old) s in
      let s2 := tcflush_A (write_A cost term request s1) in
      let (inp, s3) := timed_read_A cost more (qtimeout cfg) s2 in
      (Some inp, tcsetattr TCSANOW old s3)
  end.

(** the getters of QueryInit.v over [query_F] (same control structure) *)
Definition two_phase_F (request : list byte) (s : ttyA) : option (list byte) * ttyA :=
  let (resp, s1) := query_F more_not_csi request s in
  (resp, if enabled cfg then snd (drain_A cost s1) else s1).

Definition get_fg_bg_F (s : ttyA) : option (option rgb * option rgb) * ttyA :=
  let (resp, s') := two_phase_F (TEXT_FG_q ++ TEXT_BG_q ++ DA1_q) s in
  (colors_of_response resp, s').

Definition get_name_version_F (s : ttyA) : (option (list byte) * option (list byte)) * ttyA :=
  let (resp, s') := two_phase_F (XTVERSION_q ++ DA1_q) s in
  (name_version_of_response cfg resp, s').

Definition get_cell_size_F (c : cache) (s : ttyA) : cell_result * cache * ttyA :=
  if cell_query_needed cfg c then
    let (resp, s1) := query_F more_not_c (CELL_SIZE_PX_q ++ TEXT_AREA_SIZE_PX_q ++ DA1_q) s in
    (cell_of_response cfg c resp, s1)
  else (cell_of_response cfg c None, s).

Definition cached_name_version_F (w : ttyA * nv_memo)
  : (option (list byte) * option (list byte)) * (ttyA * nv_memo) :=
  match snd w with
  | Some r => (r, w)
  | None => let (r, s') := get_name_version_F (fst w) in (r, (s', Some r))
  end.

Definition kitty_is_supported_F (w : ttyA * nv_memo) : bool * (ttyA * nv_memo) :=
  let (nv, w1) := cached_name_version_F w in
  if name_is (fst nv) "iterm2" then (false, w1)
  else
    let (resp, s2) := query_F more_kitty (KITTY_SUPPORT_q ++ DA1_q) (fst w1) in
    (kitty_supported (fst nv) (snd nv) resp, (s2, snd w1)).

Definition iterm2_is_supported_F (w : ttyA * nv_memo) : option bool * (ttyA * nv_memo) :=
  let (nv, w1) := cached_name_version_F w in
  (iterm2_supported (fst nv) (snd nv), w1).

Definition auto_image_class_F (w : ttyA * nv_memo) : option style * (ttyA * nv_memo) :=
  let (k, w1) := kitty_is_supported_F w in
  if k then (Some Kitty, w1)
  else
    let (i, w2) := iterm2_is_supported_F w1 in
    match i with
    | Some true => (Some Iterm2, w2)
    | Some false => (Some Block, w2)
    | None => (None, w2)
    end.

End FlushGetters.
