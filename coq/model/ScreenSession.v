(** * ScreenSession — the ways an UrwidImageScreen is started and stopped (C18)

    Definitions only (proofs: proofs/ScreenSessionProofs.v; statements: props/C18.v).

    The property's clause "images are cleared on start, stop and clear" and its main clause
    "after each redraw the placements on the terminal are exactly those of the canvas just
    drawn" quantify over EVERY way the screen is used: [start(alternate_buffer=True)] (what
    urwid.MainLoop does) as well as [start(alternate_buffer=False)] (urwid's inline / partial
    display mode), any number of start/stop cycles, a new screen object for a new cycle, and
    ANY content of the terminal at the time the screen is started (images displayed by an
    earlier command of the shell session, by the application itself before it starts the
    screen or between two sessions, ...).

      1. a terminal with two screen buffers (specification side): graphics placements belong
         to the screen buffer they were made on;
      2. [_start] / [_stop] with the [alternate_buffer] parameter as streams of that terminal;
      3. sessions: histories of foreign output, start(alternate_buffer=b), redraws / clear() /
         clear_images(), stop(), new screen objects, from ANY initial terminal. *)
From Coq Require Import List ZArith Bool Lia Arith.
Import ListNotations.
From TI Require Import lib.Term model.Screen model.ScreenUrwid.

(** ** 1. The terminal with its two screen buffers

    [CSI ? 1049 h] saves the cursor, shows the ALTERNATE screen buffer and clears it: a fresh
    buffer without any placement (kitty keeps one set of placements per buffer and clears
    the alternate one on entry); [CSI ? 1049 l] shows the MAIN buffer again, as it was left,
    including ITS placements, and restores the cursor.  Both do nothing when the terminal
    already shows the buffer asked for.  Every other token acts on the VISIBLE buffer only
    (a delete-all removes the placements of the visible buffer, not those of the other).

    [b_vis]: cursor, placements of the visible buffer; [b_hid]: the placements of the buffer
    that is not shown; [b_alt]: the alternate buffer is the visible one; [b_sav]: the cursor
    saved on entry. *)
Open Scope Z_scope.

Record bterm := mk_bterm { b_vis : pterm; b_hid : list plc; b_alt : bool; b_sav : Z * Z }.
Definition bterm_init : bterm := mk_bterm pterm_init [] false (0, 0).

Inductive btok := BT (x : stok) | BAltOn | BAltOff.

Definition bstep (konsole : bool) (t : bterm) (x : btok) : bterm :=
  let v := b_vis t in
  match x with
  | BT y => mk_bterm (pstep konsole v y) (b_hid t) (b_alt t) (b_sav t)
  | BAltOn =>
    if b_alt t then t
    else mk_bterm (mk_pterm (t_r v) (t_c v) [] (t_sync v)) (t_plcs v) true (t_r v, t_c v)
  | BAltOff =>
    if b_alt t
    then mk_bterm (mk_pterm (fst (b_sav t)) (snd (b_sav t)) (b_hid t) (t_sync v)) (t_plcs v) false (b_sav t)
    else t
  end.
Definition bexec (konsole : bool) (t : bterm) (ts : list btok) : bterm := fold_left (bstep konsole) ts t.

(** what the user sees / the placements of each buffer *)
Definition vis_plcs (t : bterm) : list plc := t_plcs (b_vis t).
Definition main_plcs (t : bterm) : list plc := if b_alt t then b_hid t else t_plcs (b_vis t).
Definition alt_plcs (t : bterm) : list plc := if b_alt t then t_plcs (b_vis t) else b_hid t.
Definition buf_plcs (alt : bool) (t : bterm) : list plc := if alt then alt_plcs t else main_plcs t.

(** the tokens of a stream that are not buffer switches *)
Definition bstoks (ts : list btok) : list stok :=
  flat_map (fun x => match x with BT y => [y] | _ => [] end) ts.

Close Scope Z_scope.

(** ** 2. _start / _stop with the [alternate_buffer] parameter *)

(** urwid's own [_start(alternate_buffer)] (urwid/display/_posix_raw_display.py:174-208):
    SWITCH_TO_ALTERNATE_BUFFER iff [alternate_buffer], then mode settings ([inner]: no image) *)
Definition base_start (alt : bool) (inner : list stok) : list btok :=
  (if alt then [BAltOn] else []) ++ map BT inner.

(** UrwidImageScreen._start (_urwid.py:606-609): the base class' _start, THEN
    clear_images() — whatever the value of [alternate_buffer]. *)
Definition start_session (ksup alt : bool) (inner : list stok) (s : scr) : list btok * scr :=
  let '(o, s') := clear_images_all ksup s in (base_start alt inner ++ map BT o, s').

(** UrwidImageScreen._stop (:611-613): clear_images(), THEN the base class' _stop, which
    calls self.clear() (the overridden one, _posix_raw_display.py:214), resets modes
    ([inner1]) and writes RESTORE_NORMAL_BUFFER iff the screen was started with the alternate
    buffer (_raw_display_base.py:196-206), then the rest ([inner2]). *)
Definition stop_session (ksup alt : bool) (inner1 inner2 : list stok) (s : scr) : list btok * scr :=
  let '(o1, s1) := clear_images_all ksup s in
  let '(o2, s2) := clear_stream ksup s1 in
  (map BT (o1 ++ o2 ++ inner1) ++ (if alt then [BAltOff] else []) ++ map BT inner2, s2).

(** NOT the code: a _start that clears the images only when the alternate buffer is used
    ("without it, what is on the screen belongs to the user's shell session").  Refuted in
    proofs/ScreenSessionProofs.v: the images on the terminal stay, untracked. *)
Definition start_session_guarded (ksup alt : bool) (inner : list stok) (s : scr) : list btok * scr :=
  if alt then start_session ksup alt inner s else (base_start alt inner, s).
(** NOT the code: a _stop that clears only when the alternate buffer is NOT used ("the
    alternate buffer is thrown away anyway") *)
Definition stop_session_guarded (ksup alt : bool) (inner1 inner2 : list stok) (s : scr) : list btok * scr :=
  if alt then (map BT inner1 ++ [BAltOff] ++ map BT inner2, s) else stop_session ksup alt inner1 inner2 s.

(** ** 3. Sessions *)

(** what happens to a screen object and its terminal:
    - [SPre ts]: output of anything but the screen, while the screen is not started (an
      earlier command of the shell session, the application printing images before it starts
      the screen or between two sessions): ANY tokens, buffer switches included;
    - [SNewScreen]: the application replaces the screen object by a new UrwidImageScreen
      (the canvas disguise is class-level state and the widgets' disguises live in the
      widgets: both survive; [_ti_image_cviews] and [_ti_screen_canv] are the new object's);
    - [SStart alt inner]: screen.start(alternate_buffer=alt) (nothing when already started:
      urwid/display/common.py:1014-1030);
    - [SStop inner1 inner2]: screen.stop() (nothing when not started);
    - [SOp o]: a redraw / clear() / clear_images() of a started screen. *)
Inductive sess_op :=
| SPre (ts : list btok)
| SNewScreen
| SStart (alt : bool) (inner : list stok)
| SStop (inner1 inner2 : list stok)
| SOp (o : sop).

(** [sw_w]: the world of model/ScreenUrwid.v, its terminal being the VISIBLE buffer;
    [sw_hid sw_alt sw_sav]: the rest of the two-buffer terminal; [sw_started]: urwid's
    [_started]; [sw_mode]: urwid's [_alternate_buffer] (set by the last _start) *)
Record sworld := mk_sworld { sw_w : world; sw_hid : list plc; sw_alt : bool; sw_sav : (Z * Z)%type;
                             sw_started : bool; sw_mode : bool }.

Definition sw_term (sw : sworld) : bterm := mk_bterm (w_term (sw_w sw)) (sw_hid sw) (sw_alt sw) (sw_sav sw).

(** the session starts from ANY terminal [t0] *)
Definition sworld_init (t0 : bterm) : sworld :=
  mk_sworld (mk_world scr_init None (b_vis t0) [] scr_init 0 []) (b_hid t0) (b_alt t0) (b_sav t0) false false.

Section Session.

Variable H : nat.
Variable konsole : bool.
Variable ksup : bool.
Variable lines : view -> list (Z * Z * Z).
(** the library's _start / _stop (parameters, so that the guarded variants can be refuted) *)
Variable startf : bool -> bool -> list stok -> scr -> list btok * scr.
Variable stopf : bool -> bool -> list stok -> list stok -> scr -> list btok * scr.

(** the world after the screen wrote [r] (its queue is flushed with it) and urwid forgot its
    screen buffer; [n] disguise changes of the canvas class happened *)
Definition after_stream (sw : sworld) (r : list btok * scr) (n : nat) (started mode : bool) : sworld :=
  let w := sw_w sw in
  let t' := bexec konsole (sw_term sw) (map BT (w_queue w) ++ fst r) in
  mk_sworld (mk_world (snd r) None (b_vis t') [] (w_bs w) (if ksup then n + w_nall w else w_nall w) (w_nw w))
            (b_hid t') (b_alt t') (b_sav t') started mode.

Definition sstep (sw : sworld) (o : sess_op) : sworld :=
  let w := sw_w sw in
  match o with
  | SPre ts =>
    if sw_started sw then sw
    else let t' := bexec konsole (sw_term sw) ts in
         mk_sworld (mk_world (w_scr w) (w_sb w) (b_vis t') (w_queue w) (w_bs w) (w_nall w) (w_nw w))
                   (b_hid t') (b_alt t') (b_sav t') false (sw_mode sw)
  | SNewScreen =>
    if sw_started sw then sw
    else mk_sworld (mk_world (mk_scr [] (s_cdis (w_scr w)) (s_wdis (w_scr w)) None) None (w_term w) []
                             (w_bs w) (w_nall w) (w_nw w))
                   (sw_hid sw) (sw_alt sw) (sw_sav sw) false (sw_mode sw)
  | SStart alt inner =>
    if sw_started sw then sw
    else after_stream sw (startf ksup alt inner (w_scr w)) 1 true alt
  | SStop inner1 inner2 =>
    if sw_started sw
    then after_stream sw (stopf ksup (sw_mode sw) inner1 inner2 (w_scr w)) 2 false (sw_mode sw)
    else sw
  | SOp op =>
    if sw_started sw
    then mk_sworld (step H konsole ksup lines w op) (sw_hid sw) (sw_alt sw) (sw_sav sw) true (sw_mode sw)
    else sw
  end.
Definition srun (ops : list sess_op) (sw : sworld) : sworld := fold_left sstep ops sw.

End Session.

(** the code's sessions *)
Definition sstep_code H konsole ksup lines := sstep H konsole ksup lines start_session stop_session.
Definition srun_code H konsole ksup lines := srun H konsole ksup lines start_session stop_session.
