(** * BlockSeq — sequences of block renders in ONE process, over several image instances
    (C02: "every block render the library hands out").

    C02 speaks of every block-style render, hence also of the N-th render of a process in
    which other renders -- of the same instance, of other instances, of instances of other
    classes, with the same or other settings -- were made before.  What the code keeps
    between two renders is, per instance, the frame selected ([_seek_position],
    [common.py:925-943] [seek()], [common.py:2184] the image iterator) and the size
    ([set_size()]); nothing else:

    - [_get_render_data] ([common.py:1428-1525]) decides everything from the PIL image it is
      given AFTER selecting the frame ([img.seek(self._seek_position)], line 1494, precedes
      the mode test of line 1498) and composites over a canvas it allocates itself
      ([Image.new("RGBA", img.size, alpha)], lines 1508 / 1520: one per call);
    - [BlockImage._render_image] ([block.py:54-176]) allocates its own buffer;
    - the alpha setting reaches the render as an argument, from the caller or from
      [_check_format_spec] ([common.py:1100-1147]).

    The model mirrors that: the state is a map instance -> (selected frame, size), a render
    reads it and writes nothing.  The WORLD ([src]: the pixels of frame [n] of instance [i] at
    render size [sz], i.e. decoding and BOX resampling, Pillow's) is a parameter. *)
From Coq Require Import List ZArith Bool Arith.
Import ListNotations.
From TI Require Import lib.Term model.Block model.RenderData.
Open Scope Z_scope.

(** one frame of an image at render resolution: does its mode have an alpha channel
    ([img.mode not in {"1", "L", "RGB", "HSV", "CMYK"}] -- the frames of one image may differ:
    a multi-page TIFF with an RGB page and an RGBA page, a GIF whose first frame is P and
    whose later frames are RGBA), and its pixels, one list per LINE of (upper, lower) pairs *)
Record frame := { f_has_alpha : bool; f_rows : list (list (spx * spx)) }.

(** the settings of one render request: alpha setting, what the terminal-background query
    answers at that moment, kitty work-around, split cells *)
Record settings := { st_alpha : asetting; st_termbg : option rgb; st_kitty : bool; st_split : bool }.

Definition csize := (nat * nat)%type.       (* columns x lines *)

Inductive bop :=
| OSeek (i n : nat)                          (* [image.seek(n)] on instance [i] *)
| OSize (i : nat) (sz : csize)                (* [image.set_size(...)] *)
| ORender (i : nat) (s : settings)           (* [str] / [format] / [_renderer(_render_image, ...)] *)
| OIterFrame (i n : nat) (s : settings)      (* the image iterator: [image._seek_position = n], then renders *)
| OOther.                                    (* anything else that happens in the process: a render by an
                                                instance of another render style, a failed request, ... *)

Record istate := { pos : nat; isize : csize }.
Definition bs_state := nat -> istate.
Definition bs_upd (st : bs_state) (i : nat) (v : istate) : bs_state :=
  fun j => if Nat.eqb j i then v else st j.

(** what a render hands out, with the selection it was made for (ghost data for statements) *)
Record rendered := { r_inst : nat; r_frame : nat; r_size : csize; r_toks : list tok }.

Section World.
Variable comp : Z -> Z -> Z -> Z.                    (* Pillow's per-channel composite *)
Variable src : nat -> nat -> csize -> frame.          (* decoding + resampling *)

(** the pixel data [_get_render_data] hands to the renderer for frame [f] *)
Definition frame_px (f : frame) (s : settings) : list (list px) :=
  map (map (fun ul => render_pair comp (f_has_alpha f) (st_alpha s) (st_termbg s) (fst ul) (snd ul)))
      (f_rows f).

(** THE block render of one request alone: a function of (source pixels at render
    resolution, settings) only *)
Definition render_of (f : frame) (s : settings) : list tok :=
  Block.render (alpha_mode (f_has_alpha f) (st_alpha s)) (st_kitty s) (st_termbg s) (st_split s)
               (frame_px f s).

Definition bs_step (st : bs_state) (o : bop) : bs_state * option rendered :=
  match o with
  | OSeek i n => (bs_upd st i {| pos := n; isize := isize (st i) |}, None)
  | OSize i sz => (bs_upd st i {| pos := pos (st i); isize := sz |}, None)
  | ORender i s =>
    let n := pos (st i) in let sz := isize (st i) in
    (st, Some {| r_inst := i; r_frame := n; r_size := sz; r_toks := render_of (src i n sz) s |})
  | OIterFrame i n s =>
    let sz := isize (st i) in
    (bs_upd st i {| pos := n; isize := sz |},
     Some {| r_inst := i; r_frame := n; r_size := sz; r_toks := render_of (src i n sz) s |})
  | OOther => (st, None)
  end.

Fixpoint bs_run (st : bs_state) (ops : list bop) : list (option rendered) :=
  match ops with
  | [] => []
  | o :: rest => let '(st', out) := bs_step st o in out :: bs_run st' rest
  end.

Fixpoint bs_final (st : bs_state) (ops : list bop) : bs_state :=
  match ops with
  | [] => st
  | o :: rest => bs_final (fst (bs_step st o)) rest
  end.

End World.

(** ** Specification side: which frame / size a request is about, as a function of the
    HISTORY of requests alone (no state): the last [seek] / iterator position, the last
    [set_size] of that instance *)
Definition sel_pos (i : nat) (p0 : nat) (hist : list bop) : nat :=
  fold_left (fun p o => match o with
                        | OSeek j n | OIterFrame j n _ => if Nat.eqb j i then n else p
                        | _ => p
                        end) hist p0.

Definition sel_size (i : nat) (z0 : csize) (hist : list bop) : csize :=
  fold_left (fun z o => match o with
                        | OSize j sz => if Nat.eqb j i then sz else z
                        | _ => z
                        end) hist z0.

(** what the property demands of the cell showing the source pixel pair [(u, l)] of the
    selected frame (kitty work-around aside): [RenderData.src_expect] of each *)
Definition shown_pair (comp : Z -> Z -> Z -> Z) (f : frame) (s : settings) (ul : spx * spx) : shown * shown :=
  (src_expect comp (f_has_alpha f) (st_alpha s) (st_termbg s) (fst ul),
   src_expect comp (f_has_alpha f) (st_alpha s) (st_termbg s) (snd ul)).

(** ** A variant that is NOT the code: the background canvas of the "#rrggbb" branch kept
    between renders, keyed by (size, colour), and composited onto IN PLACE -- used only to
    show that the sequence theorem is not vacuous ([BlockSeqProofs.cached_canvas_refuted]):
    for one-pixel-pair frames, the canvas is the pair of colours left by the previous
    render with that key. *)
Section Cached.
Variable comp : Z -> Z -> Z -> Z.

Definition canvas := list (rgb * (rgb * rgb)).    (* colour asked for -> what the canvas holds now *)

Fixpoint canvas_get (cv : canvas) (c : rgb) : rgb * rgb :=
  match cv with
  | [] => (c, c)                                   (* [Image.new("RGBA", size, colour)] *)
  | (k, v) :: rest => if rgb_eqb k c then v else canvas_get rest c
  end.

(** one render of the pixel pair [(u, l)] over colour [c] with the kept canvas: the pair
    handed to the renderer, and the canvas afterwards *)
Definition cached_render_pair (cv : canvas) (c : rgb) (u l : spx) : (rgb * rgb) * canvas :=
  let '(d1, d2) := canvas_get cv c in
  let out := (comp_rgb comp (s_rgb u) (s_a u) d1, comp_rgb comp (s_rgb l) (s_a l) d2) in
  (out, (c, out) :: cv).

End Cached.
