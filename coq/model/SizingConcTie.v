(** Executable comparison for the C04 correspondence over histories that contain
    CONCURRENT SECTIONS: [CConc raises sched] = [length raises] threads render the image
    at the same time under the schedule [sched] (model/SizingConc.v), every other operation
    is one of model/Sizing.v ([CSeq]).

    [check_c]: 0 agrees; 1 differs from the model only; 2 the observed behaviour contradicts
    the SPECIFICATION ([cspec], judged on the observed values only: after a concurrent
    section [image.size] is what it was before, [rendered_size] obeys the clauses of C04
    under the environment now in force — so a dynamic size follows the next resize — every
    render ended normally unless its renderer raised, and every renderer saw either the size
    setting itself or, for a dynamic setting, a fixed size satisfying the clauses of C04 for
    that member under an environment in force at some moment of the section); 3 both. *)
From Coq Require Import ZArith QArith List Bool PrimFloat.
Import ListNotations.
From TI Require Import lib.FArith lib.FPrim model.Sizing model.SizingConc model.SizingTie.
Open Scope Z_scope.

Inductive cop :=
| CSeq (o : op PrimFA)
| CConc (raises : list bool) (sched : list grant).

Record cobs := {
  co_h : hobs;                              (* what is read after the operation *)
  co_thr : list (Z * option sizeval)        (* per render of a section: outcome, size its renderer saw *)
}.

Record ccase := {
  cc_fam : family; cc_ow : Z; cc_oh : Z;
  cc_term : Z * Z; cc_cell : option (Z * Z);
  cc_ops : list cop;
  cc_obs : list cobs
}.

Definition cc_init (c : ccase) : state PrimFA :=
  @Build_state PrimFA
    (@Build_env PrimFA (fst (cc_term c)) (snd (cc_term c)) (cc_cell c) (Some half) None)
    (Dyn FIT).

(** ------------------------------------------------------------------ model side *)
Definition thr_model (raises : list bool) (st : cstate PrimFA) : list (Z * option sizeval) :=
  map (fun p => ((if snd p : bool then renderer_error else ok), seen_of (fst p) (c_seen st)))
      (index_from 0 raises).

Definition cstep (fam : family) (ow oh : Z) (s : state PrimFA) (o : cop)
  : state PrimFA * (obs * list (Z * option sizeval)) :=
  match o with
  | CSeq o => let '(s', ob) := step fam ow oh s o in (s', (ob, []))
  | CConc raises sched =>
      let st := conc_run code_restore fam ow oh s (length raises) sched in
      let s' := @Build_state PrimFA (c_env st) (c_size st) in
      (s', (mk_obs fam ow oh s' ok None, thr_model raises st))
  end.

Fixpoint ctrace (fam : family) (ow oh : Z) (s : state PrimFA) (ops : list cop)
  : list (obs * list (Z * option sizeval)) :=
  match ops with
  | [] => []
  | o :: r => let '(s', ob) := cstep fam ow oh s o in ob :: ctrace fam ow oh s' r
  end.

Definition thr_eqb (a b : Z * option sizeval) : bool :=
  (fst a =? fst b) && osizeval_eqb (snd a) (snd b).
Fixpoint list_eqb {A B} (eqb : A -> B -> bool) (a : list A) (b : list B) : bool :=
  match a, b with
  | [], [] => true
  | x :: a', y :: b' => eqb x y && list_eqb eqb a' b'
  | _, _ => false
  end.
Definition cobs_eqb (m : obs * list (Z * option sizeval)) (o : cobs) : bool :=
  obs_eqb (fst m) (co_h o) && list_eqb thr_eqb (snd m) (co_thr o).

(** ------------------------------------------------------------- specification side *)
(** what a renderer may see while other renders of the image are in progress *)
Definition during_ok (fam : family) (ow oh : Z) (envs : list (env PrimFA)) (prev : sizeval)
           (d : option sizeval) : bool :=
  match d with
  | None => false
  | Some d =>
      match prev with
      | Fixed _ _ => sizeval_eqb d prev                      (* a fixed size: as stored *)
      | Dyn m =>
          match d with
          | Dyn m' => smode_eqb m m'                          (* the setting itself *)
          | Fixed a b =>                                      (* the member, evaluated for a render *)
              existsb (fun e => spec_ok (env_geom fam e ow oh default_frame) (DSize m) DNone (a, b)) envs
          end
      end
  end.

Fixpoint thr_ok (fam : family) (ow oh : Z) (envs : list (env PrimFA)) (prev : sizeval)
         (raises : list bool) (thr : list (Z * option sizeval)) : bool :=
  match raises, thr with
  | [], [] => true
  | r :: raises', t :: thr' =>
      (fst t =? (if r then renderer_error else ok)) && during_ok fam ow oh envs prev (snd t)
      && thr_ok fam ow oh envs prev raises' thr'
  | _, _ => false
  end.

(** a non-render operation of the sequential specification: [hobs_ok] then demands "no
    renderer observation" of the final read-out and judges size / rendered_size only *)
Definition no_render : op PrimFA := OResize 0 0 None.

Fixpoint cspec (fam : family) (ow oh : Z) (e : env PrimFA) (prev : sizeval)
         (ops : list cop) (obs : list cobs) : bool :=
  match ops, obs with
  | [], [] => true
  | CSeq o :: ops', ob :: obs' =>
      let '(e', x, c) := hspec_step fam ow oh e prev o in
      hobs_ok fam ow oh e' x c o (co_h ob)
      && match co_thr ob with [] => true | _ => false end
      && cspec fam ow oh e' (ho_size (co_h ob)) ops' obs'
  | CConc raises sched :: ops', ob :: obs' =>
      let e' := env_after e sched in
      hobs_ok fam ow oh e' (ExactSize prev) ok no_render (co_h ob)      (* the setting is what it was *)
      && thr_ok fam ow oh (envs_of e sched) prev raises (co_thr ob)
      && cspec fam ow oh e' (ho_size (co_h ob)) ops' obs'
  | _, _ => false
  end.

Definition check_c (c : ccase) : nat :=
  let s := cc_init c in
  ((if list_eqb cobs_eqb (ctrace (cc_fam c) (cc_ow c) (cc_oh c) s (cc_ops c)) (cc_obs c) then 0 else 1)
   + (if cspec (cc_fam c) (cc_ow c) (cc_oh c) (st_env s) (st_size s) (cc_ops c) (cc_obs c)
      then 0 else 2))%nat.

Definition bad_c (cases : list ccase) : list (nat * nat) := nonzero (map check_c cases).

(** diagnostics: the model's trace and the per-operation verdict of the specification *)
Fixpoint cspec_verdicts (fam : family) (ow oh : Z) (e : env PrimFA) (prev : sizeval)
         (ops : list cop) (obs : list cobs) : list bool :=
  match ops, obs with
  | CSeq o :: ops', ob :: obs' =>
      let '(e', x, c) := hspec_step fam ow oh e prev o in
      hobs_ok fam ow oh e' x c o (co_h ob) :: cspec_verdicts fam ow oh e' (ho_size (co_h ob)) ops' obs'
  | CConc raises sched :: ops', ob :: obs' =>
      let e' := env_after e sched in
      (hobs_ok fam ow oh e' (ExactSize prev) ok no_render (co_h ob)
       && thr_ok fam ow oh (envs_of e sched) prev raises (co_thr ob))
      :: cspec_verdicts fam ow oh e' (ho_size (co_h ob)) ops' obs'
  | _, _ => []
  end.
Definition diag_c (c : ccase) :=
  let s := cc_init c in
  (map (fun m => (o_size (fst m), o_rendered (fst m), snd m))
       (ctrace (cc_fam c) (cc_ow c) (cc_oh c) s (cc_ops c)),
   cspec_verdicts (cc_fam c) (cc_ow c) (cc_oh c) (st_env s) (st_size s) (cc_ops c) (cc_obs c)).
