(** * PadAnimOld — where the image classes' animation ([BaseImage._display_animated],
    [common.py:1318-1369], with the per-style steps before it: [ITerm2Image._display_animated]
    [iterm2.py:523-550], [KittyImage._display_animated] [kitty.py:374-379]) puts the frames
    of an animated [draw()] (C05: EVERY frame occupies exactly the padded box
    max(render, minimum) columns by lines, placed by the alignment, where the first frame was
    drawn).

    The stream itself is [Draw.old_anim_stream] (C06's model): an optional per-style
    PRE-ANIMATION step (iterm2 style on WezTerm with [mix] false: a placeholder of
    erase-characters formatted like a frame, i.e. padded to the box, then the cursor taken
    back to the top of the box), then every frame formatted (padded to the [lines]-line box),
    drawn from the top-left of the box and followed by ["\r" cursor_up(lines - 1)]; finally
    [cursor_down(lines - 1)].

    Here the same stream with its two cursor returns as PARAMETERS:
    - [up]: how "up (lines - 1) lines" after every frame is spelt ([cuu] =
      [_ctlseqs.cursor_up], empty for a distance <= 0, is the code; [raw_cuu], the bare
      [CSI n A] template, is the excluded design: [CSI 0 A] moves up ONE line),
    - [k]: the distance of the pre-animation step's cursor return ([max(pad_height,
      rendered_height) - 1] is the code; [rendered_height - 1], the line count of the
      UNFORMATTED placeholder, is the excluded design). *)
From Coq Require Import List ZArith Bool Lia.
Import ListNotations.
From TI Require Import lib.Term lib.Lines model.Padding model.Draw.
Open Scope Z_scope.

(** the bare control sequence template [CURSOR_UP % n] *)
Definition raw_cuu (n : Z) : list tok := [TCuu n].

Definition old_frame_by (up : Z -> list tok) (lines : Z) (P : list tok) : list tok :=
  P ++ [TCR] ++ up (lines - 1).

Definition old_anim_body_by (up : Z -> list tok) (lines : Z) (pre clear P1 : list tok)
           (Ps : list (list tok)) : list tok :=
  pre ++ old_frame_by up lines P1
  ++ concat (map (fun P => clear ++ old_frame_by up lines P) Ps)
  ++ cud (lines - 1).

Definition old_anim_stream_by (up : Z -> list tok) (tty : bool) (lines : Z) (pre clear P1 : list tok)
           (Ps : list (list tok)) : list tok :=
  opt tty THide ++ old_anim_body_by up lines pre clear P1 Ps ++ [TSgr0] ++ opt tty TShow ++ [TLF].

(** the pre-animation step with the cursor return distance as a parameter: the placeholder
    formatted like a frame ([_format_render] adds the padding), ["\r"], up [k] lines *)
Definition pre_by (k : Z) (W H : Z) (ha va : nat) (w h : Z) : list tok :=
  format_render W H ha va w h (joinlf (wez_erase_ls w h)) ++ [TCR] ++ cuu k.

(** the per-style pre-animation step as the code has it: only the iterm2 style on WezTerm
    with [mix] false has one *)
Inductive pre_step := PreNone | PrePlaceholder.
Definition pre_of (s : pre_step) (W H : Z) (ha va : nat) (w h : Z) : list tok :=
  match s with PreNone => [] | PrePlaceholder => pre_by (Z.max H h - 1) W H ha va w h end.

(** the excluded designs *)
Definition pre_unformatted (W H : Z) (ha va : nat) (w h : Z) : list tok := pre_by (h - 1) W H ha va w h.
