(** C12 — the INITIAL STATE of the terminal when a query is made.

    The property quantifies over every terminal that answers correctly; the state the
    terminal device is in WHEN the query is made is part of that:
      (a) its attribute set (echo on/off, canonical / non-canonical, ISIG, OPOST, VMIN, VTIME:
          cooked as in a shell, cbreak / raw as inside a full-screen program), and
      (b) the unread bytes already in its input queue (type-ahead: printable bytes, escape
          sequences of keys, an earlier reply nobody read, half an escape sequence).
    model/Query.v starts every theorem from an empty queue and has no attributes at all.  Here
    both are explicit inputs: [ttyA] = the tty of Query.v + its attribute set, and the steps
    of [query_terminal] / [read_tty] that touch either are mirrored one by one:

      utils.py:620-628  query_terminal:
          old_attr = tcgetattr(); new_attr = old_attr without ECHO
          tcsetattr(TCSAFLUSH, new_attr)        <- the documented step 1 of a query, "clear all
                                                   unread input", is the ACTION of this call
          write_tty(request); read_tty(more, timeout)
          finally: tcsetattr(TCSANOW, old_attr)
      utils.py:681-717  read_tty:
          old = tcgetattr(); new = old without ICANON and ECHO, VTIME = 0, VMIN = 0 / min
          tcsetattr(TCSANOW, new); <loop>; finally: tcsetattr(TCSANOW, old)

    [guard] is the condition under which query_terminal performs its tcsetattr pair: the code
    performs it ALWAYS ([always_flush]); [flush_if_echo] (only when input echo is on — "nothing
    to change or restore if echo is already off") is the excluded design, refuted in
    proofs/QueryInitProofs.v.  Definitions only. *)
From Coq Require Import Ascii String List ZArith Bool Arith.
Import ListNotations.
From TI Require Import model.Query.
Open Scope Z_scope.

(** the part of struct termios the query code reads or writes, plus two flags that tell the
    usual modes apart *)
Record tattr := {
  a_echo : bool;      (* lflag ECHO *)
  a_icanon : bool;    (* lflag ICANON *)
  a_isig : bool;      (* lflag ISIG *)
  a_opost : bool;     (* oflag OPOST *)
  a_vmin : Z;         (* cc[VMIN] *)
  a_vtime : Z         (* cc[VTIME] *)
}.

Definition cooked : tattr :=
  {| a_echo := true; a_icanon := true; a_isig := true; a_opost := true; a_vmin := 1; a_vtime := 0 |}.
(** tty.setcbreak *)
Definition cbreak : tattr :=
  {| a_echo := false; a_icanon := false; a_isig := true; a_opost := true; a_vmin := 1; a_vtime := 0 |}.
(** tty.setraw *)
Definition rawmode : tattr :=
  {| a_echo := false; a_icanon := false; a_isig := false; a_opost := false; a_vmin := 1; a_vtime := 0 |}.

Definition tattr_eqb (a b : tattr) : bool :=
  Bool.eqb (a_echo a) (a_echo b) && Bool.eqb (a_icanon a) (a_icanon b) &&
  Bool.eqb (a_isig a) (a_isig b) && Bool.eqb (a_opost a) (a_opost b) &&
  (a_vmin a =? a_vmin b) && (a_vtime a =? a_vtime b).

Inductive tcaction := TCSANOW | TCSAFLUSH.

(** the terminal device: queue, clock, requests written (Query.tty) + attribute set *)
Record ttyA := { core : tty; attr : tattr }.

Definition with_core (s : ttyA) (st : tty) : ttyA := {| core := st; attr := attr s |}.

(** input received and not read is discarded: what has arrived by [now] goes, what is still
    on its way stays (exactly the filter of Query.query) *)
Definition flush_input (st : tty) : tty :=
  {| now := now st; pend := filter (fun a => now st <? fst a) (pend st);
     tick := tick st; written := written st |}.

Definition tcsetattr (action : tcaction) (a : tattr) (s : ttyA) : ttyA :=
  {| core := match action with TCSAFLUSH => flush_input (core s) | TCSANOW => core s end;
     attr := a |}.

(** utils.py:621-622 *)
Definition no_echo (a : tattr) : tattr :=
  {| a_echo := false; a_icanon := a_icanon a; a_isig := a_isig a; a_opost := a_opost a;
     a_vmin := a_vmin a; a_vtime := a_vtime a |}.

(** utils.py:681-690 (echo=False): non-canonical — so that every byte that has arrived is
    readable, which [read_loop] / [drain] presuppose —, no echo, never block on time *)
Definition read_mode (a : tattr) (vmin : Z) : tattr :=
  {| a_echo := false; a_icanon := false; a_isig := a_isig a; a_opost := a_opost a;
     a_vmin := vmin; a_vtime := 0 |}.

(** the state a case starts from: [q0] sits unread in the queue (it arrived at time 0, the
    query is made at time 0 or later), the attribute set is [a] *)
Definition tty_init (q0 : list byte) : tty :=
  {| now := 0; pend := map (pair 0) q0; tick := 0; written := [] |}.
Definition ttyA_init (a : tattr) (q0 : list byte) : ttyA := {| core := tty_init q0; attr := a |}.

(** everything in the queue has arrived (it is unread INPUT, not a reply on its way) *)
Definition arrived_all (st : tty) : Prop := Forall (fun a => fst a <= now st) (pend st).
Definition clear_input (st : tty) : tty :=
  {| now := now st; pend := []; tick := tick st; written := written st |}.

Section InitGetters.
Variable cost : nat -> Z.
Variable cfg : config.
Variable term : terminal.
(** does query_terminal perform its tcsetattr(TCSAFLUSH) / tcsetattr(TCSANOW, old) pair when
    it meets this attribute set? *)
Variable guard : tattr -> bool.

(** write_tty(request): one step; the terminal's replies are on their way from then on *)
Definition write_A (request : list byte) (s : ttyA) : ttyA :=
  let st := core s in
  let t_w := now st + cost (tick st) in
  with_core s {| now := t_w; pend := merge (pend st) (flatten (shift t_w (term request)));
                 tick := S (tick st); written := written st ++ [request] |}.

(** read_tty(more, timeout), timeout a positive number *)
Definition timed_read_A (more : list byte -> bool) (timeout : Z) (s : ttyA) : list byte * ttyA :=
  let old := attr s in
  let s1 := tcsetattr TCSANOW (read_mode old 0) s in
  let st := core s1 in
  match read_loop cost more timeout (pend st) (tick st) (now st) (now st) [] with
  | (inp, rest, t, i) =>
      (inp, tcsetattr TCSANOW old
              {| core := {| now := t; pend := rest; tick := i; written := written st |};
                 attr := attr s1 |})
  end.

(** read_tty() *)
Definition drain_A (s : ttyA) : list byte * ttyA :=
  let old := attr s in
  let s1 := tcsetattr TCSANOW (read_mode old 0) s in
  let (inp, st') := drain_tty cost (core s1) in
  (inp, tcsetattr TCSANOW old {| core := st'; attr := attr s1 |}).

(** utils.py:617-628 *)
Definition query_A (more : list byte -> bool) (request : list byte) (s : ttyA)
  : option (list byte) * ttyA :=
  if negb (enabled cfg) then (None, s) else
  let old := attr s in
  let s1 := if guard old then tcsetattr TCSAFLUSH (no_echo old) s else s in
  let (inp, s2) := timed_read_A more (qtimeout cfg) (write_A request s1) in
  (Some inp, if guard old then tcsetattr TCSANOW old s2 else s2).

(** the getters of Query.v over [ttyA] (same control structure, [query_A] / [drain_A]) *)
Definition two_phase_A (request : list byte) (s : ttyA) : option (list byte) * ttyA :=
  let (resp, s1) := query_A more_not_csi request s in
  (resp, if enabled cfg then snd (drain_A s1) else s1).

Definition get_fg_bg_A (s : ttyA) : option (option rgb * option rgb) * ttyA :=
  let (resp, s') := two_phase_A (TEXT_FG_q ++ TEXT_BG_q ++ DA1_q) s in
  (colors_of_response resp, s').

Definition get_name_version_A (s : ttyA) : (option (list byte) * option (list byte)) * ttyA :=
  let (resp, s') := two_phase_A (XTVERSION_q ++ DA1_q) s in
  (name_version_of_response cfg resp, s').

Definition get_cell_size_A (c : cache) (s : ttyA) : cell_result * cache * ttyA :=
  if cell_query_needed cfg c then
    let (resp, s1) := query_A more_not_c (CELL_SIZE_PX_q ++ TEXT_AREA_SIZE_PX_q ++ DA1_q) s in
    (cell_of_response cfg c resp, s1)
  else (cell_of_response cfg c None, s).

Definition cached_name_version_A (w : ttyA * nv_memo)
  : (option (list byte) * option (list byte)) * (ttyA * nv_memo) :=
  match snd w with
  | Some r => (r, w)
  | None => let (r, s') := get_name_version_A (fst w) in (r, (s', Some r))
  end.

Definition kitty_is_supported_A (w : ttyA * nv_memo) : bool * (ttyA * nv_memo) :=
  let (nv, w1) := cached_name_version_A w in
  if name_is (fst nv) "iterm2" then (false, w1)
  else
    let (resp, s2) := query_A more_kitty (KITTY_SUPPORT_q ++ DA1_q) (fst w1) in
    (kitty_supported (fst nv) (snd nv) resp, (s2, snd w1)).

Definition iterm2_is_supported_A (w : ttyA * nv_memo) : option bool * (ttyA * nv_memo) :=
  let (nv, w1) := cached_name_version_A w in
  (iterm2_supported (fst nv) (snd nv), w1).

Definition auto_image_class_A (w : ttyA * nv_memo) : option style * (ttyA * nv_memo) :=
  let (k, w1) := kitty_is_supported_A w in
  if k then (Some Kitty, w1)
  else
    let (i, w2) := iterm2_is_supported_A w1 in
    match i with
    | Some true => (Some Iterm2, w2)
    | Some false => (Some Block, w2)
    | None => (None, w2)
    end.

Definition epochA := (ttyA * fg_memo * nv_memo)%type.

Definition session_step_A (call : scall) (w : epochA) : sres * epochA :=
  let '(s, mfg, mnv) := w in
  match call with
  | SFg f =>
      match lookup_form f mfg with
      | Some v => (RFg (Some v), w)
      | None =>
          let (r, s') := get_fg_bg_A s in
          match r with
          | None => (RFg None, (s', mfg, mnv))
          | Some cs => let v := represent (form_hex f) cs in
                       (RFg (Some v), (s', (f, v) :: mfg, mnv))
          end
      end
  | SNv =>
      let (r, w') := cached_name_version_A (s, mnv) in
      (RNv (fst r) (snd r), (fst w', mfg, snd w'))
  end.

Fixpoint session_A (calls : list scall) (w : epochA) : list sres * epochA :=
  match calls with
  | [] => ([], w)
  | call :: rest =>
      let (r, w1) := session_step_A call w in
      let (rs, w2) := session_A rest w1 in
      (r :: rs, w2)
  end.

End InitGetters.

(** the code: the pair is performed whatever the mode met (utils.py:620-628) *)
Definition always_flush : tattr -> bool := fun _ => true.
(** excluded design: only when input echo is on *)
Definition flush_if_echo : tattr -> bool := a_echo.
