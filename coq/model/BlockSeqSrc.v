(** * BlockSeqSrc — the SOURCE OBJECTS behind a sequence of block renders (C02: "the two
    corresponding pixels of THE IMAGE at render resolution", for every image PIL can open).

    [model/BlockSeq.v] takes the world [src i n sz] (frame [n] of instance [i] at render size
    [sz]) as a parameter: ONE function, the same for every request of the sequence.  That is a
    statement about the source objects: many formats are decoded LAZILY and their decoder can be
    configured before the first load (JPEG / MPO: [Image.draft()] makes libjpeg decode at 1/2, 1/4
    or 1/8 scale -- IN PLACE: the PIL object has the reduced size from then on and is loaded at
    that scale for good).  A PIL image handed in by the caller ([BlockImage(pil_img)]:
    [_get_image()] returns the caller's object itself, [common.py:1421-1426]) lives through the
    whole sequence; a file / URL source is opened afresh for every render ([Image.open(self._source)]).

    This file splits [src] into what it is made of and gives the source objects a state:
    - [dec i n d]: frame [n] of source [i] decoded at scale [1/d] ([d = 1]: in full) -- the
      decoder's (Pillow / libjpeg); [d > 1] is NOT a BOX reduction of [dec i n 1] (DCT-domain
      scaling);
    - [resample img sz]: conversion + BOX resampling of a decoded image to render size [sz]
      ([convert_resize_img], [common.py:1467-1490]; the identity at render resolution);
    - per instance a decoder state: not loaded yet (still configurable) or loaded at scale [1/d].

    The code never configures a decoder: [_get_render_data] goes [img.seek] -> [img.convert(mode)]
    -> [img.resize(size, BOX)] ([common.py:1492-1499, 1467-1490]), which loads the frame in full.
    [policy] is the scale a render at size [sz] configures on a source that is still unloaded; the
    code is [full_policy] (always 1).  Definitions only; proofs in [proofs/BlockSeqSrcProofs.v]. *)
From Coq Require Import List ZArith Bool Arith.
Import ListNotations.
From TI Require Import lib.Term model.Block model.RenderData model.BlockSeq.
Open Scope Z_scope.

(** decoder state of a source object *)
Inductive dstate := Unloaded | Loaded (d : nat).

(** the scale a read of the object decodes at: a loaded object keeps the scale it was loaded
    at, an unloaded one is decoded at the scale configured now *)
Definition scale_of (ds : dstate) (configure : nat) : nat :=
  match ds with Unloaded => configure | Loaded d => d end.

(** an object that is unloaded or loaded in full: reading it yields the image's own pixels *)
Definition intact (ds : dstate) : bool :=
  match ds with Unloaded => true | Loaded d => Nat.eqb d 1 end.

Definition dstates := nat -> dstate.
Definition ds_upd (ds : dstates) (i : nat) (v : dstate) : dstates :=
  fun j => if Nat.eqb j i then v else ds j.

Section Sources.
Variable comp : Z -> Z -> Z -> Z.
Variable image : Type.
Variable dec : nat -> nat -> nat -> image.          (* instance, frame, 1/scale: the decoder *)
Variable resample : image -> csize -> frame.         (* convert + BOX resize *)
(** is the source of instance [i] one PIL object living through the sequence (the caller's),
    or opened afresh for every render (file / URL source)? *)
Variable persistent : nat -> bool.
(** the scale a render of instance [i] at size [sz] configures on an unloaded source *)
Variable policy : nat -> csize -> nat.

(** the world of [BlockSeq] when every decode is a full decode *)
Definition full_src : nat -> nat -> csize -> frame := fun i n sz => resample (dec i n 1%nat) sz.

(** one render of instance [i] (frame [n], size [sz]): the object it reads, the scale that
    object is decoded at, the object's state afterwards *)
Definition read_scale (ds : dstates) (i : nat) (sz : csize) : nat :=
  scale_of (if persistent i then ds i else Unloaded) (policy i sz).

Definition after_read (ds : dstates) (i : nat) (sz : csize) : dstates :=
  if persistent i then ds_upd ds i (Loaded (read_scale ds i sz)) else ds.

Definition srcs_state := (bs_state * dstates)%type.

Definition srcs_step (st : srcs_state) (o : bop) : srcs_state * option rendered :=
  let '(bs, ds) := st in
  match o with
  | OSeek i n => ((bs_upd bs i {| pos := n; isize := isize (bs i) |}, ds), None)
  | OSize i sz => ((bs_upd bs i {| pos := pos (bs i); isize := sz |}, ds), None)
  | ORender i s =>
    let n := pos (bs i) in let sz := isize (bs i) in
    ((bs, after_read ds i sz),
     Some {| r_inst := i; r_frame := n; r_size := sz;
             r_toks := render_of comp (resample (dec i n (read_scale ds i sz)) sz) s |})
  | OIterFrame i n s =>
    let sz := isize (bs i) in
    ((bs_upd bs i {| pos := n; isize := sz |}, after_read ds i sz),
     Some {| r_inst := i; r_frame := n; r_size := sz;
             r_toks := render_of comp (resample (dec i n (read_scale ds i sz)) sz) s |})
  | OOther => (st, None)
  end.

Fixpoint srcs_run (st : srcs_state) (ops : list bop) : list (option rendered) :=
  match ops with
  | [] => []
  | o :: rest => let '(st', out) := srcs_step st o in out :: srcs_run st' rest
  end.

Fixpoint srcs_final (st : srcs_state) (ops : list bop) : srcs_state :=
  match ops with
  | [] => st
  | o :: rest => srcs_final (fst (srcs_step st o)) rest
  end.

(** what the CALLER gets when he reads frame [n] of the image he handed in for instance [i],
    after the sequence (he configures nothing: a full decode unless the object was loaded
    otherwise in the meantime) *)
Definition caller_view (ds : dstates) (i n : nat) : image := dec i n (scale_of (ds i) 1%nat).

End Sources.

(** the code: no decoder is ever configured *)
Definition full_policy : nat -> csize -> nat := fun _ _ => 1%nat.

(** ** A variant that is NOT the code: "let the decoder do the down-scaling" -- before
    converting / resizing, an unloaded source whose pixel size [orig i] is at least twice the
    render size in both directions is configured to decode at 1/2, 1/4 or 1/8 scale (what
    [Image.draft(None, size)] does; the largest of 8, 4, 2 that does not go below the
    requested size).  Used to show that the statements about [full_policy] are not vacuous
    ([BlockSeqSrcProofs.draft_*_refuted]). *)
Definition draft_scale (orig render : csize) : nat :=
  let q := Nat.min (fst orig / Nat.max 1 (fst render)) (snd orig / Nat.max 1 (snd render)) in
  if Nat.leb 8 q then 8%nat else if Nat.leb 4 q then 4%nat else if Nat.leb 2 q then 2%nat else 1%nat.

(** [sz] is a size in CELLS (columns x lines); the block style renders 2 pixel rows per line *)
Definition draft_policy (orig : nat -> csize) : nat -> csize -> nat :=
  fun i sz => draft_scale (orig i) (fst sz, 2 * snd sz)%nat.
