(** Executable comparison used by the C14 correspondence: a schedule is replayed on the
    model (at the grain the harness can realise, [Locks.macro]) and the (thread, event)
    trace is compared with the one the real code produced under the deterministic
    scheduler.  Independently, the property is judged on the observed trace alone by the
    specification's judge ([model/LocksSpec.v]: bodies never overlap, every reply read is
    the reader's own, none is lost) — the judge that [C14_trace_accepted] proves to accept
    every trace of the model.

    [check]: 0 = agrees; 1 = differs from the model only; 2 = the observed trace
    contradicts the property; 3 = both ([proofs/LocksTieProofs.v]: 2 never comes alone). *)
From Coq Require Import List Arith Bool.
Import ListNotations.
From TI Require Import lib.Sched model.Locks model.LocksSpec.

Definition lcode (l : lref) : nat := match l with LT => 0 | LM => 1 end.

Definition enc_event (e : event) : list nat :=
  match e with
  | EAcq l => [1; lcode l]
  | ERel l => [2; lcode l]
  | EEnter => [3]
  | EExit => [4]
  | EWrite n => [5; n]
  | EReply u n => [6; u; n]
  | ESwap => [7]
  | EStart c h => [8; c; lcode h]
  end.

Fixpoint nl_eqb (a b : list nat) : bool :=
  match a, b with
  | [], [] => true
  | x :: a', y :: b' => Nat.eqb x y && nl_eqb a' b'
  | _, _ => false
  end.

Fixpoint tr_eqb (a b : list (nat * list nat)) : bool :=
  match a, b with
  | [], [] => true
  | x :: a', y :: b' => Nat.eqb (fst x) (fst y) && nl_eqb (snd x) (snd y) && tr_eqb a' b'
  | _, _ => false
  end.

Record lcase := {
  l_threads : list (nat * nat * list cmd);   (* (thread id, process, program) *)
  l_term : nat;
  l_sched : list nat;
  l_obs : list (nat * list nat)
}.

Fixpoint lookup {A} (d : A) (l : list (nat * A)) (k : nat) : A :=
  match l with
  | [] => d
  | (k', v) :: r => if Nat.eqb k k' then v else lookup d r k
  end.

Definition cfg_of (c : lcase) (sgl : bool) : cfg :=
  {| proc := lookup 0 (map (fun x => (fst (fst x), snd (fst x))) (l_threads c));
     single := sgl; term_tid := l_term c |}.

Definition prog_of (c : lcase) : nat -> list cmd :=
  lookup [] (map (fun x => (fst (fst x), snd x)) (l_threads c)).

Definition model_trace (c : lcase) (sgl : bool) : list (nat * list nat) :=
  map (fun te => (fst te, enc_event (snd te)))
      (rev (log (run_sched (macro (cfg_of c sgl)) (init (prog_of c)) (l_sched c)))).

(** ** the property on an observed trace: the judge of [model/LocksSpec.v], which is
    proved to accept every trace of the model ([C14_trace_accepted]) *)

(** any lock other than the thread lock is read as "the shared lock" (a second, third ...
    lock object cannot equal the model's trace — code 1 — but the observation is still judged) *)
Definition dec_lref (n : nat) : option lref :=
  match n with 0 => Some LT | _ => Some LM end.

Definition dec_event (l : list nat) : option event :=
  match l with
  | [1; c] => option_map EAcq (dec_lref c)
  | [2; c] => option_map ERel (dec_lref c)
  | [3] => Some EEnter
  | [4] => Some EExit
  | [5; n] => Some (EWrite n)
  | [6; u; n] => Some (EReply u n)
  | [7] => Some ESwap
  | [8; c; k] => option_map (EStart c) (dec_lref k)
  | _ => None
  end.

Fixpoint dec_trace (tr : list (nat * list nat)) : option (list (nat * event)) :=
  match tr with
  | [] => Some []
  | (t, l) :: r =>
    match dec_event l, dec_trace r with
    | Some e, Some r' => Some ((t, e) :: r')
    | _, _ => None
    end
  end.

(** an observed trace that is not even made of events cannot equal the model's (code 1) *)
Definition obs_ok (tr : list (nat * list nat)) : bool :=
  match dec_trace tr with Some t => accepts t | None => true end.

Definition check (c : lcase) : nat :=
  (if tr_eqb (l_obs c) (model_trace c false) then 0 else 1)
  + (if obs_ok (l_obs c) then 0 else 2).

Fixpoint index_from {A} (n : nat) (l : list A) : list (nat * A) :=
  match l with [] => [] | x :: r => (n, x) :: index_from (S n) r end.

Definition bad (cases : list lcase) : list (nat * nat) :=
  filter (fun p => negb (Nat.eqb (snd p) 0)) (index_from 0 (map check cases)).

(** which schedules would break the property in the single-[with] variant (reported in
    the histogram: the schedules do exercise the race): bit 4 of the code *)
Definition racy_code (c : lcase) : nat :=
  if accepts (rev (log (run_sched (macro (cfg_of c true)) (init (prog_of c)) (l_sched c))))
  then 0 else 4.

Definition bad_racy (cases : list lcase) : list (nat * nat) :=
  filter (fun p => negb (Nat.eqb (snd p) 0))
         (index_from 0 (map (fun c => check c + racy_code c) cases)).

(** ** supporting evidence: enter/exit stamps of real threads / processes.
    Intervals [(enter, exit)] (nanoseconds, shifted) must be pairwise disjoint. *)
From Coq Require Import ZArith.
Fixpoint disjoint_from (a : Z * Z) (l : list (Z * Z)) : bool :=
  match l with
  | [] => true
  | b :: r => ((snd a <=? fst b)%Z || (snd b <=? fst a)%Z) && disjoint_from a r
  end.
Fixpoint pairwise_disjoint (l : list (Z * Z)) : bool :=
  match l with
  | [] => true
  | a :: r => (fst a <=? snd a)%Z && disjoint_from a r && pairwise_disjoint r
  end.
Definition stamps_bad (runs : list (list (Z * Z))) : list (nat * nat) :=
  filter (fun p => negb (Nat.eqb (snd p) 0))
         (index_from 0 (map (fun l => if pairwise_disjoint l then 0 else 2) runs)).
