(** C01, sessions: a sequence of render requests on ONE image instance.

    C01 speaks of "the render output of an image": every render output the library hands
    out, i.e. also the N-th render of an instance after earlier renders that completed,
    failed, or were interrupted at any point (an asynchronous KeyboardInterrupt is the
    documented way to end an animation: common.py `draw()`; `_renderer()` common.py:1714-1720
    re-raises it after closing the image).

    The code's renders keep nothing between two renders of an instance: each
    `_render_image` call allocates its own text buffer (block.py:95 `buffer = io.StringIO()`,
    kitty.py:464 `with io.StringIO() as buffer`, iterm2.py:737 idem; WHOLE renders: a local
    "".join, kitty.py:484, iterm2.py:645/775), writes the render into it piece by piece and returns its value; when an
    exception lands between two writes the frame -- and the buffer with what was written so
    far -- is dropped and the exception propagates through `_renderer` to the caller.
    The model mirrors exactly that: [run_render] starts from an empty buffer, an interrupted
    request delivers nothing and leaves nothing behind. *)
From Coq Require Import List ZArith Bool.
Import ListNotations.
From TI Require Import lib.Term model.Block model.GfxRender.
Open Scope Z_scope.

(** The parameters a render output is a function of (image content at the render size,
    alpha mode, style arguments, terminal identity, payload/chunk structure). *)
Inductive rparams :=
| PBlock (alpha kitty : bool) (bgcol : option rgb) (split : bool) (w : nat) (rows : list (list px))
| PKittyLines (w z : Z) (mix blend : bool) (pls : list (list Z))
| PKittyWhole (w h z : Z) (mix blend : bool) (pl : list Z)
| PItermLines (w : Z) (konsole wezterm mix : bool) (sps : list (Z * Z))
| PItermWhole (w h : Z) (konsole wezterm mix : bool) (sp : Z * Z).

Definition p_render (p : rparams) : list tok :=
  match p with
  | PBlock alpha kitty bgcol split _ rows => Block.render alpha kitty bgcol split rows
  | PKittyLines w z mix blend pls => kitty_lines w z mix blend pls
  | PKittyWhole w h z mix blend pl => kitty_whole w h z mix blend pl
  | PItermLines w k wz mix sps => iterm2_lines w k wz mix sps
  | PItermWhole w h k wz mix sp => iterm2_whole w h k wz mix sp
  end.

(** advertised size (rendered_width x rendered_height) of a request *)
Definition p_w (p : rparams) : Z :=
  match p with
  | PBlock _ _ _ _ w _ => Z.of_nat w
  | PKittyLines w _ _ _ _ | PKittyWhole w _ _ _ _ _ | PItermLines w _ _ _ _
  | PItermWhole w _ _ _ _ _ => w
  end.
Definition p_h (p : rparams) : Z :=
  match p with
  | PBlock _ _ _ _ _ rows => Z.of_nat (length rows)
  | PKittyLines _ _ _ _ pls => Z.of_nat (length pls)
  | PItermLines _ _ _ _ sps => Z.of_nat (length sps)
  | PKittyWhole _ h _ _ _ _ | PItermWhole _ h _ _ _ _ => h
  end.

(** well-formed request: at least one column and one line; block: rectangular pixel data *)
Definition p_wf (p : rparams) : Prop :=
  match p with
  | PBlock _ _ _ _ w rows => rows <> [] /\ (0 < w)%nat /\ (forall r, In r rows -> length r = w)
  | _ => 0 < p_w p /\ 0 < p_h p
  end.

Definition p_wfb (p : rparams) : bool :=
  match p with
  | PBlock _ _ _ _ w rows =>
    negb (Nat.eqb (length rows) 0) && negb (Nat.eqb w 0)
    && forallb (fun r => Nat.eqb (length r) w) rows
  | _ => (0 <? p_w p) && (0 <? p_h p)
  end.

(** One request of a session.  [r_cut = Some k]: the render is aborted (asynchronous
    exception, or an exception raised by a call the render makes) when [k] pieces have
    been written into its buffer. *)
Record req := { r_par : rparams; r_cut : option nat }.

Definition interrupted (r : req) : bool := match r_cut r with Some _ => true | None => false end.

Inductive outcome :=
| Done (out : list tok)          (* the render output handed to the caller *)
| Aborted (written : list tok).  (* what was in the render's own buffer when it died *)

(** one `_renderer(_render_image, ...)` call *)
Definition run_render (r : req) : outcome :=
  let buffer : list tok := [] in            (* fresh per call *)
  match r_cut r with
  | None => Done (buffer ++ p_render (r_par r))
  | Some k => Aborted (buffer ++ firstn k (p_render (r_par r)))
  end.

(** what the caller of the render gets: the output, or nothing (the exception) *)
Definition yielded (o : outcome) : option (list tok) :=
  match o with Done out => Some out | Aborted _ => None end.

(** A session: the requests are served one after the other by the same instance. *)
Fixpoint session (s : list req) : list (option (list tok)) :=
  match s with
  | [] => []
  | r :: s' => yielded (run_render r) :: session s'
  end.

(** the render outputs handed out during a session, each with its request *)
Fixpoint session_outputs (s : list req) : list (req * list tok) :=
  match s with
  | [] => []
  | r :: s' =>
    match yielded (run_render r) with
    | Some out => (r, out) :: session_outputs s'
    | None => session_outputs s'
    end
  end.
