(** C19 — WHICH error a rejected specifier raises, in particular one that is wrong in
    more than one way.  Definitions only.

    Documented (docs + docstrings of /repo/src/term_image/image/common.py):
      * _check_format_spec: a specifier that does not match the general form raises
        ValueError "Invalid format specifier" (formatting.rst; C19_value_error_iff_not_main_grammar);
      * BaseImage._check_style_format_spec, "Raises: StyleError: Invalid style-specific
        format specifier", and: "At every step in the call chain, the specifier should be
        of the form [parent] [current] [invalid] ... Handle the portions in the order
        *invalid*, *parent*, *current*, so that validity can be determined before any
        further processing.  At any point in the chain where the *invalid* portion exists
        the format spec can be correctly taken to be invalid."  Hence: a style part that
        is not a sentence of the style's grammar (a trailing portion nobody matches, or a
        leading portion no class of the hierarchy accepts) is a StyleError WHATEVER the
        values of the fields of the current level are;
      * _check_style_args, "Raises: ValueError: An argument is of an appropriate type but
        has an unexpected/invalid value": the fields of a SENTENCE are range-checked
        (kitty z-index: "within the 32-bit signed integer range (excluding -(2**31))";
        compression level 0..9).
    Where the docs are silent (which of two out-of-range fields of one level is reported)
    nothing is modelled beyond the exception class: all of them are ValueError.

    Specification side: [spec_error] (scanners of the documented grammar, FmtSpec.parse /
    parse_style; judged by sentence-hood first).
    Implementation side: [impl_error] = the general part, then the call chain [chain]
    over the levels of the class hierarchy, each level split by an executable model of
    _get_style_format_spec ([split]: search-then-sequential-match).  [chain_own_first] is
    the excluded design that range-checks the level's own fields before handing the
    parent portion up. *)
From Coq Require Import List Bool Arith NArith ZArith.
Import ListNotations.
From TI Require Import lib.Re lib.CRe gen.Regexes model.FmtSpec.
Local Open Scope N_scope.

Inductive error_kind :=
| EInvalid      (* ValueError: Invalid format specifier *)
| EStyle        (* StyleError: Invalid style-specific format specifier *)
| ERange.       (* ValueError: a field value outside its documented range *)

Inductive exc_class := CValueError | CStyleError.
Definition class_of (k : error_kind) : exc_class :=
  match k with EStyle => CStyleError | _ => CValueError end.

(** * 1. Specification side *)

(** a sentence of the general form (FmtSpec.parse + "at least one of v_align and
    height after a dot") *)
Definition main_sentence (s : list N) : option fields :=
  match parse s with
  | Some f => if f_dot f && negb (is_some (f_valign f)) && is_nil (f_height f) then None else Some f
  | None => None
  end.

(** the documented ranges of the style fields of a sentence *)
Definition comp_in_range (c : Z) : bool := ((0 <=? c) && (c <=? 9))%Z.
Definition own_range_ok (sf : sfields) : bool :=
  z_in_range (doc_z sf) && comp_in_range (doc_comp sf).

Definition spec_error (sty : style) (s : list N) : option error_kind :=
  match main_sentence s with
  | None => Some EInvalid
  | Some f =>
      match f_style f with
      | None => None
      | Some t =>
          match parse_style sty t with
          | None => Some EStyle                     (* not a sentence of the style's grammar *)
          | Some sf => if own_range_ok sf then None else Some ERange
          end
      end
  end.

Definition spec_accepts (sty : style) (s : list N) : bool :=
  match main_sentence s with
  | None => false
  | Some f =>
      match f_style f with
      | None => true
      | Some t => match parse_style sty t with Some sf => own_range_ok sf | None => false end
      end
  end.

(** * 2. Implementation side *)

(** ** one level of the hierarchy, abstractly: what _get_style_format_spec returns for a
    text — the parent portion, the outcome of the value check of every field of the
    level IN THE ORDER _check_style_args visits them, the invalid portion *)
Definition level := list N -> list N * list bool * list N.

(** kitty.py:337 / iterm2.py:506 _check_style_format_spec over common.py:1252:
      parent, fields = cls._get_style_format_spec(spec, original)   # raises if invalid
      if parent: args.update(super()._check_style_format_spec(parent, original))
      ... return cls._check_style_args(args)
    [levels] = the classes of the hierarchy that define a style grammar, the most
    derived first; above them BaseImage: `if spec: raise StyleError`. *)
Fixpoint chain (lv : list level) (t : list N) : option error_kind :=
  match lv with
  | [] => if is_nil t then None else Some EStyle
  | l :: up =>
      let '(parent, checks, invalid) := l t in
      if negb (is_nil invalid) then Some EStyle
      else
        match (if is_nil parent then None else chain up parent) with
        | Some e => Some e
        | None => if forallb (fun b => b) checks then None else Some ERange
        end
  end.

(** the excluded design: the fields of the current level go through the value check
    BEFORE the parent portion is handed up *)
Fixpoint chain_own_first (lv : list level) (t : list N) : option error_kind :=
  match lv with
  | [] => if is_nil t then None else Some EStyle
  | l :: up =>
      let '(parent, checks, invalid) := l t in
      if negb (is_nil invalid) then Some EStyle
      else if negb (forallb (fun b => b) checks) then Some ERange
      else if is_nil parent then None else chain_own_first up parent
  end.

(** what the documentation demands of a hierarchy, stated without any order of
    processing: sentence-hood first, then the ranges *)
Fixpoint sentence (lv : list level) (t : list N) : bool :=
  match lv with
  | [] => is_nil t
  | l :: up => let '(parent, _, invalid) := l t in
               is_nil invalid && (is_nil parent || sentence up parent)
  end.
Fixpoint ranges_ok (lv : list level) (t : list N) : bool :=
  match lv with
  | [] => true
  | l :: up => let '(parent, checks, _) := l t in
               forallb (fun b => b) checks && (is_nil parent || ranges_ok up parent)
  end.
Definition doc_chain_error (lv : list level) (t : list N) : option error_kind :=
  if negb (sentence lv t) then Some EStyle
  else if negb (ranges_ok lv t) then Some ERange else None.

(** ** _get_style_format_spec (common.py:1546), executable *)

(** a field pattern matched at the head of a text: (matched, rest); the engine's match
    of these patterns is the longest one (tx_regex.field_shape) *)
Definition fmatch := list N -> option (list N * list N).

Definition m_one (rs : ranges) : fmatch := fun s =>
  match s with x :: r => if isin rs x then Some ([x], r) else None | [] => None end.
Definition m_pair (a : N) (rs : ranges) : fmatch := fun s =>
  match s with
  | x :: y :: r => if (x =? a) && isin rs y then Some ([x; y], r) else None
  | _ => None
  end.
(** z-?\d+ *)
Definition m_z : fmatch := fun s =>
  match s with
  | x :: r =>
      if (x =? 122) then
        let (neg, r1) := opt_char (fun y => (y =? 45)) r in
        let (ds, r2) := span (isin d_intdigit) r1 in
        if is_nil ds then None
        else Some (x :: (match neg with Some c => [c] | None => [] end) ++ ds, r2)
      else None
  | [] => None
  end.

(** pattern.search(spec): (text before the leftmost match, matched, rest) *)
Fixpoint search (m : fmatch) (s : list N) : option (list N * list N * list N) :=
  match m s with
  | Some (mt, r) => Some ([], mt, r)
  | None =>
      match s with
      | [] => None
      | x :: s' => match search m s' with
                   | Some (b, mt, r) => Some (x :: b, mt, r)
                   | None => None
                   end
      end
  end.

(** second loop: pattern.match(spec, pos=end) for each remaining pattern *)
Fixpoint seq_match (ms : list fmatch) (s : list N) : list (option (list N)) * list N :=
  match ms with
  | [] => ([], s)
  | m :: ms' =>
      match m s with
      | Some (mt, r) => let (fs, e) := seq_match ms' r in (Some mt :: fs, e)
      | None => let (fs, e) := seq_match ms' s in (None :: fs, e)
      end
  end.

(** first loop + second loop: (parent, fields, invalid); no pattern occurs at all:
    start = end = len(spec), the whole text is the parent portion *)
Fixpoint split (ms : list fmatch) (s : list N) : list N * list (option (list N)) * list N :=
  match ms with
  | [] => (s, [], [])
  | m :: ms' =>
      match search m s with
      | Some (b, mt, r) => let (fs, e) := seq_match ms' r in (b, Some mt :: fs, e)
      | None => let '(p, fs, e) := split ms' s in (p, None :: fs, e)
      end
  end.

(** the value of a matched z field: int(z_index[1:]) *)
Definition z_value (mt : list N) : Z :=
  match mt with
  | _ :: 45 :: ds => (- int_of ds)%Z
  | _ :: ds => int_of ds
  | [] => 0%Z
  end.
(** int(compress[-1]) *)
Definition c_value (mt : list N) : Z :=
  match mt with [_; d] => digit_val d | _ => 4%Z end.

Definition kitty_patterns : list fmatch := [m_one d_LW; m_z; m_pair 109 d_bit; m_pair 99 d_digit].
Definition iterm2_patterns : list fmatch := [m_one d_LWA; m_pair 109 d_bit; m_pair 99 d_digit].

(** KittyImage: args = {method, z_index, mix, compress} in this order; value checks of
    kitty.py:181-225 (method: always a known one here; mix: `lambda _: True`) *)
Definition kitty_level : level := fun t =>
  let '(p, fs, e) := split kitty_patterns t in
  (p,
   match fs with
   | [me; z; mx; cp] =>
       [true;
        match z with Some mt => z_in_range (z_value mt) | None => true end;
        true;
        match cp with Some mt => comp_in_range (c_value mt) | None => true end]
   | _ => []
   end, e).
Definition iterm2_level : level := fun t =>
  let '(p, fs, e) := split iterm2_patterns t in
  (p,
   match fs with
   | [me; mx; cp] =>
       [true; true; match cp with Some mt => comp_in_range (c_value mt) | None => true end]
   | _ => []
   end, e).

(** the classes that define a style grammar, most derived first (BlockImage: none) *)
Definition levels (sty : style) : list level :=
  match sty with Block => [] | Kitty => [kitty_level] | ITerm2 => [iterm2_level] end.

(** common.py:1097 _check_format_spec: the general form first ("Invalid format
    specifier"); _check_formatting and the alpha field cannot refuse what the general
    form lets through; then `style_spec and cls._check_style_format_spec(..)` *)
Definition impl_error_with (ch : list level -> list N -> option error_kind)
                           (sty : style) (s : list N) : option error_kind :=
  match main_sentence s with
  | None => Some EInvalid
  | Some f => match f_style f with None => None | Some t => ch (levels sty) t end
  end.
Definition impl_error := impl_error_with chain.
Definition impl_error_own_first := impl_error_with chain_own_first.
