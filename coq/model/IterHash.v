(** * IterHash — a render iterator whose cache is validated through a function of the key (C09)

    [RenderIterator._iterate] keeps, with every cached frame, the settings it was rendered
    with — [(size, duration, render_args)] — and re-renders when that triple is not EQUAL
    to the current one ([_iterator.py:584-594], [Iter.key_eqb]).  The comparison could as
    well go through any function [h] of the triple: keep [h key] with the frame and
    re-render when [h key <> h key'] (e.g. Python's [hash], which is what
    [ImageIterator._animate] does with the rendered size).  This file is the model of that
    family: [Iter] with the one comparison [key_eqb] replaced by [hkey_eqb h]; everything
    else — what is rendered, what is stored, seeks, setters, the end of a pass — is [Iter]'s.
    An entry is still represented by the triple it was filled under; storing [h] of it
    instead is observationally the same, since the triple is only ever looked at through [h].

    The question the family answers: for which [h] is frame caching still invisible?
    Exactly for those that are injective on the settings that can occur
    ([proofs/IterHashProofs.v]).  CPython's [hash] is not: [py_int_hash] below.

    Definitions only. *)
From Coq Require Import List ZArith Bool Lia.
Import ListNotations.
From TI Require Import model.Iter.
Open Scope Z_scope.

(** the settings a cache entry is validated by *)
Definition key := (size * dur * Z)%type.
Definition entry_key (e : centry) : key := (ce_size e, ce_dur e, ce_args e).
Definition current_key {RS} (s : state RS) : key := (d_size (rd s), d_dur (rd s), args s).

(** the validity test through [h] *)
Definition hkey_eqb (h : key -> Z) (e : centry) (r : rdata) (a : Z) : bool :=
  h (entry_key e) =? h (d_size r, d_dur r, a).

Section IterHash.
  Variable RS : Type.
  Variable render : RS -> Z -> whence -> size -> dur -> Z -> rres * RS.
  Variable n : option Z.
  Variable term : size.
  Variable h : key -> Z.

  (** [Iter.body] with the validity test through [h] *)
  Definition hbody (s : state RS) (fno : Z) : state RS * out :=
    let r := rd s in
    let hit := if cached s then
                 match cache s fno with
                 | Some e => if hkey_eqb h e r (args s) then Some (ce_frame e) else None
                 | None => None
                 end
               else None in
    match hit with
    | Some f => deliver RS n s f
    | None => render_frame RS render n s fno
    end.

  (** [Iter.pass_end], [Iter.next], [Iter.step], [Iter.run], [Iter.trace] over [hbody] *)
  Definition hpass_end (s : state RS) : state RS * out :=
    let r := rd s in
    let s1 := set_rd RS s {| fo := 0; wh := wh r; d_size := d_size r; d_dur := d_dur r |} in
    let s2 := if 0 <? g_loop s1
              then set_pub_loop RS (set_g_loop RS s1 (g_loop s1 - 1)) (g_loop s1 - 1) else s1 in
    if g_loop s2 =? 0 then (close RS s2, OStop)
    else hbody s2 0.

  Definition hnext (s : state RS) : state RS * out :=
    if closed s then (s, OStop)
    else
      match phase s with
      | AtDummy =>
        let fno := fo (rd s) * (if definite n then 1 else 0) in
        if g_loop s =? 0 then (close RS s, OStop)
        else if fno <? fc n then hbody s fno else hpass_end s
      | AtFrame =>
        let fno := if definite n then fo (rd s) else 0 in
        if fno <? fc n then hbody s fno else hpass_end s
      end.

  Definition hstep (s : state RS) (o : op) : state RS * out :=
    match o with
    | Next => hnext s
    | _ => step RS render n term s o
    end.

  Definition hrun (s : state RS) (ops : list op) : state RS :=
    fold_left (fun s o => fst (hstep s o)) ops s.

  Fixpoint htrace (s : state RS) (ops : list op) : list (out * Z) :=
    match ops with
    | [] => []
    | o :: r => let '(s', x) := hstep s o in (x, pub_loop s') :: htrace s' r
    end.
End IterHash.

(** ** which settings can occur: a frame duration is DYNAMIC or a positive integer
    ([set_frame_duration] and the renderable reject anything else); sizes and argument
    values are unconstrained here *)
Definition dur_valid (d : dur) : bool :=
  match d with DDynamic => true | DStatic ms => 0 <? ms end.
Definition key_valid (k : key) : bool := dur_valid (snd (fst k)).

(** ** CPython's hash of an [int] (64-bit builds, [Objects/longobject.c: long_hash]):
    sign(x) * (|x| mod (2^61 - 1)), with -1 (the error value of the C API) replaced by -2 *)
Definition py_modulus : Z := 2 ^ 61 - 1.
Definition py_int_hash (x : Z) : Z :=
  let r := Z.rem x py_modulus in if r =? -1 then -2 else r.

(** a key hash that is as good as the hash of its integer components allows: it is an
    INJECTIVE function of (width, height, duration, hash of the argument value) — the
    only information lost is what [py_int_hash] loses on the argument value.  (CPython's
    tuple hash combines the component hashes; whatever the combination, two keys with
    component-wise equal hashes collide, so this is the best case.) *)
Definition arg_hashed_key (k : key) : Z * Z * Z * Z :=
  let '(sz, d, a) := k in
  (fst sz, snd sz, match d with DDynamic => -1 | DStatic ms => ms end, py_int_hash a).

(** ** a deterministic renderable whose output is exactly what it was asked for: the
    witness of the converse direction *)
Definition echo_render (st : unit) (o : Z) (w : whence) (sz : size) (d : dur) (a : Z) : rres * unit :=
  (ROk {| rf_number := o; rf_duration := 1; rf_size := sz;
          rf_output := [o; fst sz; snd sz;
                        match d with DDynamic => 0 | DStatic _ => 1 end;
                        match d with DDynamic => 0 | DStatic ms => ms end; a] |}, st).

(** the configuration and the history of the converse direction: two frames, caching on,
    no padding; render frame 0 under [k], move every setting to [k'], go back to frame 0 *)
Definition collide_cfg (k : key) (cache : bool) : config :=
  {| c_loops := 2; c_cache := CBool cache; c_size := fst (fst k); c_dur := snd (fst k);
     c_args := Some (snd k); c_pad := PExact 0 0 0 0; c_owns := true; c_frame := 0 |}.
Definition collide_ops (k' : key) : list op :=
  [Next; SetSize (fst (fst k')); SetDuration (snd (fst k')); SetArgs (Some (snd k'));
   Seek 0 WStart; Next].
