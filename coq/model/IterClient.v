(** * IterClient — every piece of CLIENT code that runs inside [RenderIterator.__next__] (C10)

    [model/Iter.v] has ONE fallible call inside [next]: the renderable's [_render_].  The
    iterator runs more client code than that while it produces a frame:

    - [padding.pad(render_output, render_size)] of the iterator's padding object — custom
      [Padding] subclasses are part of the public extension API ([padding.py:99-175]); the base
      [pad()] in turn calls the subclass's [_get_exact_dimensions_];
    - the attributes of whatever [_render_] returned ([frame.render_size], ...): a [_render_]
      that returns something that is not a [Frame] makes the iterator itself raise
      [AttributeError] while it post-processes the "frame";
    - in the control operations [set_padding] / [set_render_size]:
      [padding.get_padded_size(render_size)] (-> [_get_exact_dimensions_]).

    Here all of it is ONE state-passing oracle [client] (a [Section] variable: any function), asked
    with the [call] being made; it answers with a value, garbage, [StopIteration] or another
    exception.  The step semantics is the code's ([_iterator.py:154-168, 543-638]): the padding
    step is INSIDE the generator [_iterate] (lines 614-620), so whatever it raises comes out of
    [next(self._iterator)] and goes through [__next__]'s ladder
    [except StopIteration / AttributeError / Exception: self.close(); raise].

    [next] takes the place of the padding step as a parameter [late]: [false] = the code;
    [true] = the excluded design in which the frame is post-processed / padded by [__next__] AFTER
    the ladder (the generator yields frames as rendered): an exception out of the padding step
    then escapes [next()] with the iterator open and the owned data un-finalized.

    Simplifications (none of them touches finalization): one pass over the frames (loops = 1), no
    frame cache, sizes are abstract naturals compared by equality, seek is absolute.

    Definitions only; proofs in [proofs/IterClientProofs.v]. *)
From Coq Require Import List Bool Arith.
Import ListNotations.

(** the client code entered, with what identifies the callee *)
Inductive call :=
| CRender (pos : nat)          (* renderable._render_(render_data, render_args), frame_offset = pos *)
| CPad (pid sz : nat)          (* padding #pid .pad(render_output, render_size = sz) *)
| CSize (pid rsz : nat).       (* padding #pid .get_padded_size(rsz) *)

(** what it did *)
Inductive cres :=
| RVal (sz : nat)     (* _render_: a Frame of render size [sz]; get_padded_size: the size; pad: a string *)
| RGarbage            (* returned something else (_render_: not a Frame, e.g. None) *)
| RStop               (* raised StopIteration *)
| RRaise (e : nat).   (* raised another Exception, tagged [e] *)

Inductive err :=
| EFinalized          (* FinalizedIteratorError *)
| EValue              (* ValueError (seek out of range) *)
| EStopDefinite       (* StopDefiniteIterationError *)
| EAttr               (* AttributeError raised by the iterator's own code on a non-Frame *)
| EGenStop            (* RuntimeError: StopIteration raised inside the generator by non-render code (PEP 479) *)
| EClient (e : nat).  (* what the client code raised, as is *)

Inductive out := OFrame (padded : bool) | OStop | OOk | OErr (e : err).

Inductive op :=
| Next
| Seek (p : nat)               (* seek(p, Seek.START) *)
| SetSize (rsz : nat)          (* set_render_size *)
| SetPadding (pid : nat)       (* set_padding(<padding object #pid>) *)
| Close
| Drop.                        (* __del__ *)

(** finalisation ghost: [owns] = [_finalize_data]; [finalized] = [RenderData.finalized];
    [fin_calls] = entries into [_finalize_render_data_]; [bad_use] = client calls entered while
    the data was finalized *)
Record ghost := { owns : bool; finalized : bool; fin_calls : nat; bad_use : nat }.

Section IterClient.
  Variable CS : Type.
  Variable client : CS -> call -> cres * CS.
  (** frame count: [None] = INDEFINITE *)
  Variable n : option nat.

  Record state := {
    closed : bool;       (* _closed *)
    pos : nat;           (* _renderable_data.frame_offset *)
    pid : nat;           (* self._padding (identity) *)
    rsize : nat;         (* _renderable_data.size *)
    padded : nat;        (* self._padded_size *)
    gh : ghost;
    cs : CS
  }.

  Definition set_closed s v := {| closed := v; pos := pos s; pid := pid s; rsize := rsize s; padded := padded s; gh := gh s; cs := cs s |}.
  Definition set_pos s v := {| closed := closed s; pos := v; pid := pid s; rsize := rsize s; padded := padded s; gh := gh s; cs := cs s |}.
  Definition set_pid s v := {| closed := closed s; pos := pos s; pid := v; rsize := rsize s; padded := padded s; gh := gh s; cs := cs s |}.
  Definition set_rsize s v := {| closed := closed s; pos := pos s; pid := pid s; rsize := v; padded := padded s; gh := gh s; cs := cs s |}.
  Definition set_padded s v := {| closed := closed s; pos := pos s; pid := pid s; rsize := rsize s; padded := v; gh := gh s; cs := cs s |}.
  Definition set_gh s v := {| closed := closed s; pos := pos s; pid := pid s; rsize := rsize s; padded := padded s; gh := v; cs := cs s |}.
  Definition set_cs s v := {| closed := closed s; pos := pos s; pid := pid s; rsize := rsize s; padded := padded s; gh := gh s; cs := v |}.

  (** [RenderData.finalize()], [_types.py:1378-1382] *)
  Definition data_finalize (g : ghost) : ghost :=
    if finalized g then g
    else {| owns := owns g; finalized := true; fin_calls := S (fin_calls g); bad_use := bad_use g |}.

  (** [close()], [_iterator.py:186-197] *)
  Definition close (s : state) : state :=
    if closed s then s
    else set_closed (set_gh s (if owns (gh s) then data_finalize (gh s) else gh s)) true.

  (** entering client code *)
  Definition ask (s : state) (c : call) : cres * state :=
    let '(r, cs') := client (cs s) c in
    let g := gh s in
    (r, set_cs (if finalized g
                then set_gh s {| owns := owns g; finalized := true; fin_calls := fin_calls g;
                                 bad_use := S (bad_use g) |}
                else s) cs').

  Definition definite : bool := match n with Some _ => true | None => false end.
  Definition exhausted (s : state) : bool :=
    match n with Some k => k <=? pos s | None => false end.

  (** lines 622-628: [frame_offset += 1] (definite) / reset of a pending seek (indefinite) *)
  Definition advance (s : state) : state := set_pos s (if definite then S (pos s) else 0).

  (** [__next__] (lines 154-168) resuming [_iterate] (lines 578-630); [late] moves the
      post-processing of the frame (the [.render_size] test, [padding.pad]) behind the ladder *)
  Definition next (late : bool) (s : state) : state * out :=
    if closed s then (s, OStop)                              (* 160-162 *)
    else if exhausted s then (close s, OStop)                (* generator returns; 157-159 *)
    else
      let '(r, s1) := ask s (CRender (pos s)) in             (* 596 *)
      match r with
      | RRaise e => (close s1, OErr (EClient e))             (* 160-168 *)
      | RStop => if definite then (close s1, OErr EStopDefinite)    (* 598-602; 166-168 *)
                 else (close s1, OStop)                      (* 603-604; 157-159 *)
      | RGarbage =>                                          (* 614: frame.render_size *)
        if late then (advance s1, OErr EAttr)                (* yielded as is; fails behind the ladder *)
        else (close s1, OErr EAttr)                          (* 160-165 *)
      | RVal sz =>
        if sz =? padded s1 then (advance s1, OFrame false)   (* 614 *)
        else if late then
          let '(r2, s2) := ask (advance s1) (CPad (pid s1) sz) in
          match r2 with
          | RVal _ | RGarbage => (s2, OFrame true)
          | RStop => (s2, OStop)                             (* a raw StopIteration out of __next__ *)
          | RRaise e => (s2, OErr (EClient e))
          end
        else
          let '(r2, s2) := ask s1 (CPad (pid s1) sz) in      (* 619 *)
          match r2 with
          | RVal _ | RGarbage => (advance s2, OFrame true)   (* 615-630 *)
          | RStop => (close s2, OErr EGenStop)               (* PEP 479; 166-168 *)
          | RRaise e => (close s2, OErr (EClient e))         (* 160-168 *)
          end
      end.

  (** [seek(p, START)], lines 326-358 *)
  Definition seek (s : state) (p : nat) : state * out :=
    if closed s then (s, OErr EFinalized)
    else match n with
         | None => (set_pos s p, OOk)
         | Some k => if p <? k then (set_pos s p, OOk) else (s, OErr EValue)
         end.

  (** the tail of [set_padding] / [set_render_size]:
      [self._padded_size = self._padding.get_padded_size(size)]; an exception out of the client
      code propagates as is, the iterator stays open, [_padded_size] keeps its value *)
  Definition refresh_padded (s : state) : state * out :=
    let '(r, s1) := ask s (CSize (pid s) (rsize s)) in
    match r with
    | RVal k => (set_padded s1 k, OOk)
    | RGarbage => (set_padded s1 0, OOk)     (* a non-size: equal to no frame's size *)
    | RStop => (s1, OErr (EClient 0))
    | RRaise e => (s1, OErr (EClient e))
    end.

  (** [set_render_size], lines 440-444 *)
  Definition set_render_size (s : state) (rsz : nat) : state * out :=
    if closed s then (s, OErr EFinalized) else refresh_padded (set_rsize s rsz).

  (** [set_padding], lines 394-402 *)
  Definition set_padding (s : state) (p : nat) : state * out :=
    if closed s then (s, OErr EFinalized) else refresh_padded (set_pid s p).

  Definition step (late : bool) (s : state) (o : op) : state * out :=
    match o with
    | Next => next late s
    | Seek p => seek s p
    | SetSize rsz => set_render_size s rsz
    | SetPadding p => set_padding s p
    | Close => (close s, OOk)
    | Drop => (close s, OOk)
    end.

  Definition run (late : bool) (s : state) (ops : list op) : state :=
    fold_left (fun s o => fst (step late s o)) ops s.

  (** ** What is observable from outside, per operation: the outcome, the entries into the
      finalizer of the iterator's render data so far, the data's [finalized] flag *)
  Record snap := { o_out : out; o_fin : nat; o_fz : bool }.

  Definition snap_of (s : state) (x : out) : snap :=
    {| o_out := x; o_fin := fin_calls (gh s); o_fz := finalized (gh s) |}.

  Fixpoint trace (late : bool) (s : state) (ops : list op) : list (op * snap) :=
    match ops with
    | [] => []
    | o :: r => let '(s', x) := step late s o in (o, snap_of s' x) :: trace late s' r
    end.

  (** a freshly constructed iterator (the constructor's faults are model/IterCtor.v's) *)
  Definition mk (own : bool) (p rsz psz : nat) (c0 : CS) : state :=
    {| closed := false; pos := 0; pid := p; rsize := rsz; padded := psz;
       gh := {| owns := own; finalized := false; fin_calls := 0; bad_use := 0 |}; cs := c0 |}.
End IterClient.

Arguments closed {CS}. Arguments pos {CS}. Arguments pid {CS}. Arguments rsize {CS}.
Arguments padded {CS}. Arguments gh {CS}. Arguments cs {CS}.

(** ** Specification side: the property as a function of the observed history alone

    (no iterator state, no oracle).  The iterator's life ENDS with the first [next()] that does
    not return a frame (StopIteration or ANY exception), with [close()] and with its collection.
    Before the end the data is not finalized; from the end on the finalizer has been entered
    exactly once iff the iterator owns the data; after the end [next()] stops, control
    operations raise the finalized-iterator error, [close()] is accepted. *)
Definition ends_life (o : op) (x : out) : bool :=
  match o, x with
  | Next, OStop | Next, OErr _ => true
  | Close, _ | Drop, _ => true
  | _, _ => false
  end.

Definition dead_outcome (o : op) (x : out) : bool :=
  match o, x with
  | Next, OStop => true
  | Close, OOk | Drop, OOk => true
  | Seek _, OErr EFinalized | SetSize _, OErr EFinalized | SetPadding _, OErr EFinalized => true
  | _, _ => false
  end.

Fixpoint spec_ok (own ended : bool) (h : list (op * snap)) : bool :=
  match h with
  | [] => true
  | (o, x) :: r =>
    let e := ended || ends_life o (o_out x) in
    (if e then Nat.eqb (o_fin x) (if own then 1 else 0) && Bool.eqb (o_fz x) own
     else Nat.eqb (o_fin x) 0 && negb (o_fz x))
    && (if ended then dead_outcome o (o_out x) else true)
    && spec_ok own e r
  end.
