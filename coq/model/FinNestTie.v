(** * FinNestTie — judge of the "nest" family of the C10 correspondence

    One case = one scenario on the real code with SEVERAL render-data objects alive at once:
    composite renderables (the render data of a node holds [RenderIterator]s over its children -
    owning their data or not - and the node's [_finalize_render_data_] closes them / finalizes
    their data / drops the last reference to it), several iterators open at the same time, one-off
    [render()] / [draw()] / [str()] of composites, and a second thread that performs operations
    while the first is inside a finalizer (Event gates).

    Objects are numbered in creation order.  [n_bodies]: what the scenario's finalizers do (the
    declared structure).  [n_progs]: one entry per top-level operation - the objects whose life
    that operation ENDS according to its public outcome (the iterator it closed / exhausted / that
    failed owned them, the one-off operation they were created for completed, everything is
    collected); each operation is a thread of model/FinNest.v.  [n_sched]: (operation, number of
    moves, has the operation completed by then); after each entry the driver took a snapshot
    [n_obs]: per object created so far, the entries into its finalizer and [finalized] ([None]:
    the object has been collected).

    [ncheck]: bit 1 = differs from the machine of model/FinNest.v (the code's [finalize()]);
    bit 2 = the observations alone contradict the property. *)
From Coq Require Import List Bool Arith.
Import ListNotations.
From TI Require Import model.FinNest.

Record ncase := {
  n_bodies : list (list nat);
  n_progs : list (list nat);
  n_sched : list (nat * nat * bool);
  n_obs : list (list (nat * option bool));
  n_bad_use : nat;               (* entries into _render_ / a finalizer that saw finalized = True *)
  n_unraisable : nat
}.

Fixpoint index_from {A} (i : nat) (l : list A) : list (nat * A) :=
  match l with [] => [] | x :: r => (i, x) :: index_from (S i) r end.

Definition snapshot_ok (c : cfg) (o : list (nat * option bool)) : bool :=
  forallb (fun p => let '(j, (calls, fz)) := p in
                    Nat.eqb (o_calls (hp c j)) calls &&
                    match fz with Some b => Bool.eqb (is_done (hp c j)) b | None => is_done (hp c j) end)
          (index_from 0 o).

Fixpoint nmodel (body : nat -> list nat) (c : cfg) (sched : list (nat * nat * bool))
         (obs : list (list (nat * option bool))) : bool :=
  match sched, obs with
  | (t, k, _) :: sr, o :: orest =>
    let s := repeat t k in
    race_free body false c s &&
    (let c' := run body false c s in snapshot_ok c' o && nmodel body c' sr orest)
  | [], [] => true
  | _, _ => false
  end.

Definition nmodel_ok (t : ncase) : bool :=
  nmodel (body_of (n_bodies t)) (init (n_progs t)) (n_sched t) (n_obs t).

(** everything the end of the life of the objects [l] entails: the objects themselves and,
    transitively, whatever their finalizers finalize *)
Fixpoint reach (fuel : nat) (bs : list (list nat)) (l : list nat) : list nat :=
  match fuel with
  | 0 => l
  | S f => l ++ reach f bs (flat_map (body_of bs) l)
  end.

Definition finalized_once (o : list (nat * option bool)) (j : nat) : bool :=
  match nth_error o j with
  | Some (calls, fz) => Nat.eqb calls 1 && match fz with Some b => b | None => true end
  | None => false
  end.

Definition sane (o : list (nat * option bool)) : bool :=
  forallb (fun x => let '(calls, fz) := x in
                    Nat.leb calls 1 &&
                    match fz with Some true | None => Nat.eqb calls 1 | Some false => true end) o.

Fixpoint nspec (bs : list (list nat)) (progs : list (list nat)) (sched : list (nat * nat * bool))
         (obs : list (list (nat * option bool))) : bool :=
  match sched, obs with
  | (t, _, completed) :: sr, o :: orest =>
    sane o &&
    (if completed then forallb (finalized_once o) (reach (length bs) bs (nth t progs [])) else true) &&
    nspec bs progs sr orest
  | [], [] => true
  | _, _ => false
  end.

Definition nspec_ok (t : ncase) : bool :=
  nspec (n_bodies t) (n_progs t) (n_sched t) (n_obs t) &&
  Nat.eqb (n_bad_use t) 0 && Nat.eqb (n_unraisable t) 0.

Definition ncheck (t : ncase) : nat :=
  (if nmodel_ok t then 0 else 1) + (if nspec_ok t then 0 else 2).

Definition nbad (cases : list ncase) : list (nat * nat) :=
  filter (fun p => negb (Nat.eqb (snd p) 0)) (index_from 0 (map ncheck cases)).
