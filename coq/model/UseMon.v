(** C10, "never used afterwards", on the effect skeletons (lib/Eff.v).

    A USE of the render data is every tracked call that hands the render data to
    renderable-defined code: [Render] ([_render_] / [next(render_iter)]) and
    [HandleInterrupt] ([_handle_interrupted_draw_], the documented extension point that
    receives the render data in order to use it).  A use is BAD when the obligation "data
    unfinalized" ([unfin]) is not open at that moment: the data has been finalized already
    (or was never created).

    [evalU] is the semantics [Eff.eval] with one more ghost component: "a bad use has
    happened".  It is rule for rule [Eff.eval]; the only difference is that every rule of
    [Op o] (completed, faulted before or after taking effect: the renderable's code was
    entered in all three) first marks the ghost with [is_use o && negb (unfin s)].

    [instr] is the same monitor expressed INSIDE the skeleton language, with two ghost
    tracked booleans ([gl]: mirror of [unfin], [gb]: the bad-use flag), so that the shared
    abstract interpreter [Eff.analyze] (sound: [EffSound.analyze_sound]) can be run on it.
    proofs/UseMonSound.v proves that every [evalU] run of [p] is matched by an [Eff.eval]
    run of [instr p] that ends with [gb] set whenever the ghost is set.  Definitions only. *)
From Coq Require Import List Bool Arith.
Import ListNotations.
From TI Require Import lib.Eff.

Definition is_use (o : op) : bool :=
  match o with Render | HandleInterrupt => true | _ => false end.

(** * The ghost semantics *)

Definition ust := (st * bool)%type.

Definition mark (o : op) (u : ust) : ust := (fst u, snd u || (is_use o && negb (unfin (fst u)))).
Definition lift (f : st -> st) (u : ust) : ust := (f (fst u), snd u).

Section SemU.
Variable C : cfg.

Inductive evalU : bool -> prog -> ust -> outcome -> ust -> Prop :=
| U_Skip c s : evalU c Skip s ONorm s
| U_Op c o s : evalU c (Op o) s ONorm (lift (eff o) (mark o s))
| U_FaultBefore o k s : mf C o = true -> fk C k = true ->
    evalU false (Op o) s (ORaise k) (lift (fault o k) (mark o s))
| U_FaultAfter o k s : mf C o = true -> fk C k = true ->
    evalU false (Op o) s (ORaise k) (lift (fault o k) (lift (eff o) (mark o s)))
| U_SeqN c a b s s1 o s2 : evalU c a s ONorm s1 -> evalU c b s1 o s2 -> evalU c (Seq a b) s o s2
| U_SeqA c a b s o s1 : evalU c a s o s1 -> is_norm o = false -> evalU c (Seq a b) s o s1
| U_ChoiceL c a b s o s1 : evalU c a s o s1 -> evalU c (Choice a b) s o s1
| U_ChoiceR c a b s o s1 : evalU c b s o s1 -> evalU c (Choice a b) s o s1
| U_Loop0 c b s : evalU c (Loop b) s ONorm s
| U_LoopS c b s s1 o s2 : evalU c b s ONorm s1 -> evalU c (Loop b) s1 o s2 -> evalU c (Loop b) s o s2
| U_LoopA c b s o s1 : evalU c b s o s1 -> is_norm o = false -> evalU c (Loop b) s o s1
| U_Finally c prot b f s o s1 o' s2 :
    evalU c b s o s1 -> evalU (c || prot) f s1 o' s2 ->
    evalU c (TryFinally prot b f) s (after_finally o o') s2
| U_ExceptPass c prot b mk hk me he s o s1 :
    evalU c b s o s1 -> (forall k, o <> ORaise k) ->
    evalU c (TryExcept prot b mk hk me he) s o s1
| U_ExceptKI c prot b mk hk me he s s1 o s2 :
    evalU c b s (ORaise KI) s1 -> may_catch mk = true -> evalU (c || prot) hk s1 o s2 ->
    evalU c (TryExcept prot b mk hk me he) s o s2
| U_ExceptExc c prot b mk hk me he s s1 o s2 :
    evalU c b s (ORaise Exc) s1 -> may_catch me = true -> evalU (c || prot) he s1 o s2 ->
    evalU c (TryExcept prot b mk hk me he) s o s2
| U_MissKI c prot b mk hk me he s s1 :
    evalU c b s (ORaise KI) s1 -> may_miss mk = true ->
    evalU c (TryExcept prot b mk hk me he) s (ORaise KI) s1
| U_MissExc c prot b mk hk me he s s1 :
    evalU c b s (ORaise Exc) s1 -> may_miss me = true ->
    evalU c (TryExcept prot b mk hk me he) s (ORaise Exc) s1
| U_Raise c k s : evalU c (Raise k) s (ORaise k) s
| U_Return c s : evalU c Return s ORet s
| U_IfT c x a b s o s1 : get x (vars (fst s)) = true -> evalU c a s o s1 -> evalU c (IfVar x a b) s o s1
| U_IfF c x a b s o s1 : get x (vars (fst s)) = false -> evalU c b s o s1 -> evalU c (IfVar x a b) s o s1
| U_SetVar c x v s : evalU c (SetVar x v) s ONorm (lift (fun t => set_vars (upd x v (vars t)) t) s)
| U_Call c p s o s1 : evalU c p s o s1 -> evalU c (Call p) s (after_call o) s1.

End SemU.

(** * The monitor inside the skeleton language *)

Section Instr.
Variables gl gb : nat.   (* ghost tracked booleans: "data live", "a bad use has happened" *)

Definition guard : prog := IfVar gl Skip (SetVar gb true).

(** [gl] under-approximates [unfin] whatever faults: it is cleared BEFORE a [Finalize]
    and set AFTER a [NewData]; a use is preceded by the guard *)
Definition pre_op (o : op) : prog :=
  match o with
  | Finalize => SetVar gl false
  | _ => if is_use o then guard else Skip
  end.
Definition post_op (o : op) : prog :=
  match o with NewData => SetVar gl true | _ => Skip end.
Definition instr_op (o : op) : prog := Seq (pre_op o) (Seq (Op o) (post_op o)).

Fixpoint instr (p : prog) : prog :=
  match p with
  | Op o => instr_op o
  | Seq a b => Seq (instr a) (instr b)
  | Choice a b => Choice (instr a) (instr b)
  | Loop b => Loop (instr b)
  | TryFinally prot b f => TryFinally prot (instr b) (instr f)
  | TryExcept prot b mk hk me he => TryExcept prot (instr b) mk (instr hk) me (instr he)
  | IfVar x a b => IfVar x (instr a) (instr b)
  | Call p => Call (instr p)
  | Skip | Raise _ | Return | SetVar _ _ => p
  end.

(** the program does not mention the ghosts *)
Fixpoint fresh (p : prog) : bool :=
  match p with
  | Seq a b | Choice a b => fresh a && fresh b
  | Loop b | Call b => fresh b
  | TryFinally _ b f => fresh b && fresh f
  | TryExcept _ b _ hk _ he => fresh b && fresh hk && fresh he
  | IfVar x a b => negb (Nat.eqb x gl) && negb (Nat.eqb x gb) && fresh a && fresh b
  | SetVar x _ => negb (Nat.eqb x gl) && negb (Nat.eqb x gb)
  | Skip | Op _ | Raise _ | Return => true
  end.

(** the monitored operation: no data yet, nothing bad yet *)
Definition monitored (p : prog) : prog := sq [SetVar gl false; SetVar gb false; instr p].

Definition no_bad_use (_ : outcome) (s : st) : bool := negb (get gb (vars s)).
End Instr.

(** an operation that is handed live render data by its caller ([_animate_]) *)
Definition with_live_data (p : prog) : prog := Seq (Op NewData) p.
