(** Executable comparison for the C01 / C02 correspondence: the implementation's lexed
    render against the token models, and the render contract / pixel oracle evaluated on
    the implementation's own tokens. *)
From Coq Require Import List ZArith Bool Lia.
Import ListNotations.
From TI Require Import lib.Term lib.TermFacts lib.Rect lib.RectCheck lib.Lines model.Block model.GfxRender.
Open Scope Z_scope.

(** payload lengths of the chunks of each kitty transmission in a token stream *)
Fixpoint chunk_lens (ts : list tok) (cur : option (list Z)) : list (list Z) :=
  match ts with
  | [] => match cur with Some l => [rev l] | None => [] end
  | TKittyFirst _ _ p :: rest =>
    (match cur with Some l => [rev l] | None => [] end) ++ chunk_lens rest (Some [p])
  | TKittyCont _ p :: rest =>
    match cur with
    | Some l => chunk_lens rest (Some (p :: l))
    | None => chunk_lens rest (Some [p])
    end
  | _ :: rest => chunk_lens rest cur
  end.

(** a transmission whose payload is empty is modelled with an empty length list *)
Definition norm_lens (l : list Z) : list Z := match l with [0] => [] | _ => l end.

Fixpoint iterm_sps (ts : list tok) : list (Z * Z) :=
  match ts with
  | [] => []
  | TIterm _ _ _ s p :: rest => (s, p) :: iterm_sps rest
  | _ :: rest => iterm_sps rest
  end.

Inductive rcase :=
| RBlock (alpha kitty : bool) (bgcol : option rgb) (split : bool) (rows : list (list px))
| RKittyLines (z : Z) (mix blend : bool)
| RKittyWhole (z : Z) (mix blend : bool)
| RItermLines (konsole wezterm mix : bool)
| RItermWhole (konsole wezterm mix : bool).

Definition model_toks (w h : Z) (c : rcase) (obs : list tok) : list tok :=
  match c with
  | RBlock alpha kitty bgcol split rows => Block.render alpha kitty bgcol split rows
  | RKittyLines z mix blend => kitty_lines w z mix blend (map norm_lens (chunk_lens obs None))
  | RKittyWhole z mix blend =>
    kitty_whole w h z mix blend (norm_lens (hd [] (chunk_lens obs None)))
  | RItermLines k wz mix => iterm2_lines w k wz mix (iterm_sps obs)
  | RItermWhole k wz mix => iterm2_whole w h k wz mix (hd (0, 0) (iterm_sps obs))
  end.

(** expected (upper, lower) colour codes of a block render *)
Definition expect_codes alpha kitty bgcol (rows : list (list px)) : list (list (Z * Z)) :=
  map (map (fun p => let '(u, l) := Block.expect alpha kitty bgcol p in
                     (colour_code u, colour_code l))) rows.

Fixpoint zz_eqb (a b : list (Z * Z)) : bool :=
  match a, b with
  | [], [] => true
  | (x1, x2) :: a', (y1, y2) :: b' => (x1 =? y1) && (x2 =? y2) && zz_eqb a' b'
  | _, _ => false
  end.
Fixpoint zzl_eqb (a b : list (list (Z * Z))) : bool :=
  match a, b with
  | [], [] => true
  | x :: a', y :: b' => zz_eqb x y && zzl_eqb a' b'
  | _, _ => false
  end.

(** the pixel oracle of C02 on the observed tokens, drawn at (r0, lm) *)
Definition pixels_ok (w h : Z) (c : rcase) (obs : list tok) (r0 lm : Z) : bool :=
  match c with
  | RBlock alpha kitty bgcol _ rows =>
    zzl_eqb (area_codes (log (exec lm (start r0 lm) obs)) r0 lm h w)
            (expect_codes alpha kitty bgcol rows)
  | _ => true
  end.

Record tcase := { t_w : Z; t_h : Z; t_case : rcase; t_obs : list tok }.

(** 0 = agrees; +1 model tokens differ; +2 the render contract fails on the observed
    tokens; +4 the pixel oracle fails on the observed tokens *)
Definition check (t : tcase) : nat :=
  let w := t_w t in let h := t_h t in let obs := t_obs t in
  (if toks_eqb (model_toks w h (t_case t) obs) obs then 0 else 1)
  + (if rect_checkb w h 0 0 obs && rect_checkb w h 5 3 obs then 0 else 2)
  + (if pixels_ok w h (t_case t) obs 0 0 && pixels_ok w h (t_case t) obs 2 7 then 0 else 4).

Fixpoint index_from {A} (n : nat) (l : list A) : list (nat * A) :=
  match l with [] => [] | x :: r => (n, x) :: index_from (S n) r end.
Definition bad (cases : list tcase) : list (nat * nat) :=
  filter (fun p => negb (Nat.eqb (snd p) 0)) (index_from 0 (map check cases)).

(** details for a report: which clauses of the contract fail, first token difference *)
Definition explain (t : tcase) :=
  (rect_check (t_w t) (t_h t) 0 0 (t_obs t),
   first_diff (model_toks (t_w t) (t_h t) (t_case t) (t_obs t)) (t_obs t) 0).
