(** * IterCloseProg — the body of [RenderIterator.close()] as a step program (C10, source tie)

    [harness/tx/tx_close.py] translates the statements of [RenderIterator.close]
    (render/_iterator.py) into a list of [cstmt] ([gen/CloseSrc.v], regenerated on every run).
    This file runs such a program over the iterator state of [model/Iter.v] with the finalizer
    oracle of [model/IterFin.v] ([fr k]: does the k-th entry of [_finalize_render_data_] raise):
    [CFinalize] is the only step that may raise; a raised exception skips the rest of a
    statement list; the [finally] block runs all the same and the exception propagates
    afterwards.  Closing the generator and deleting attributes have no counterpart in the
    model's state (a generator suspended at a plain [yield] runs nothing on [close()]).
    [proofs/IterCloseTie.v] proves that the translated program IS [IterFin.fclose].
    Definitions only. *)
From Coq Require Import List ZArith Bool Arith.
Import ListNotations.
From TI Require Import model.Iter model.IterFin.

Inductive cstmt :=
| CIfNotClosed (body : list cstmt)        (* [if not self._closed:] *)
| CGenClose                               (* [self._iterator.close()] *)
| CDelIter                                (* [del self._iterator] *)
| CTryFinally (body fin : list cstmt)
| CIfOwns (body : list cstmt)             (* [if self._finalize_data:] *)
| CFinalize                               (* [self._render_data.finalize()] *)
| CDelData                                (* [del self._render_data] *)
| CSetClosed.                             (* [self._closed = True] *)

Section Run.
  Variable RS : Type.
  Variable fr : nat -> bool.
  Local Notation state := (state RS).

  (** (state, has an exception been raised and not yet handled) *)
  Fixpoint crun (p : cstmt) (sr : state * bool) {struct p} : state * bool :=
    let go := fix go (l : list cstmt) (sr : state * bool) {struct l} : state * bool :=
                match l with
                | [] => sr
                | x :: r => if snd sr then sr else go r (crun x sr)
                end in
    let s := fst sr in
    match p with
    | CIfNotClosed body => if closed s then sr else go body sr
    | CIfOwns body => if owns (gh s) then go body sr else sr
    | CTryFinally body fin =>
      let sr1 := go body sr in
      (* the [finally] block runs whether or not the body raised; the subset's [finally]
         blocks raise nothing themselves, so the body's exception (if any) propagates *)
      (fst (go fin (fst sr1, false)), snd sr1)
    | CFinalize => let '(g, r) := fdata_finalize fr (gh s) in (set_gh RS s g, r)
    | CSetClosed => (set_closed RS s true, snd sr)
    | CGenClose | CDelIter | CDelData => sr
    end.

  Fixpoint crun_list (l : list cstmt) (sr : state * bool) : state * bool :=
    match l with
    | [] => sr
    | x :: r => if snd sr then sr else crun_list r (crun x sr)
    end.

  Definition ccall (prog : list cstmt) (s : state) : state * bool := crun_list prog (s, false).
End Run.
