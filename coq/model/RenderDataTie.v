(** * RenderDataTie — executable comparison for the C02 correspondence at render
    resolution: the [(rgb, a)] data the real [_get_render_data] handed to the block
    renderer vs [RenderData.render_px] (model) and vs [RenderData.src_expect] (what the
    property demands of each SOURCE pixel). *)
From Coq Require Import List ZArith Bool.
Import ListNotations.
From TI Require Import lib.Term model.Block model.RenderData.
Open Scope Z_scope.

Record rdcase := {
  rd_has_alpha : bool;            (* the source mode has an alpha channel *)
  rd_set : asetting;
  rd_termbg : option rgb;
  rd_src : list spx;              (* source pixels, row-major, after convert("RGBA") *)
  rd_obs : list (rgb * Z);        (* observed (rgb, a) *)
  rd_obs_amode : bool             (* observed: the renderer's image is in mode RGBA *)
}.

Definition shown_eqb (x y : shown) : bool :=
  match x, y with
  | STermBg, STermBg => true
  | SColour a, SColour b => rgb_eqb a b
  | _, _ => false
  end.

Definition pxdata_eqb (x y : rgb * Z) : bool := rgb_eqb (fst x) (fst y) && (snd x =? snd y).

Fixpoint all2 {A B} (f : A -> B -> bool) (l : list A) (m : list B) : bool :=
  match l, m with
  | [], [] => true
  | a :: l', b :: m' => f a b && all2 f l' m'
  | _, _ => false
  end.

(** what an observed pixel will look like on the screen (by [Block.expect], C02's theorem;
    the kitty work-around aside): terminal background iff alpha mode and [a = 0] *)
Definition obs_shown (amode : bool) (o : rgb * Z) : shown :=
  if Block.transparent amode (snd o) then STermBg else SColour (fst o).

(** 0 = agrees; +1 = differs from the model; +2 = contradicts the specification *)
Definition rd_check (c : rdcase) : nat :=
  let m := all2 pxdata_eqb (map (render_px comp_exact (rd_has_alpha c) (rd_set c) (rd_termbg c)) (rd_src c)) (rd_obs c)
           && Bool.eqb (alpha_mode (rd_has_alpha c) (rd_set c)) (rd_obs_amode c) in
  let s := all2 (fun p o => shown_eqb (src_expect comp_exact (rd_has_alpha c) (rd_set c) (rd_termbg c) p)
                                      (obs_shown (rd_obs_amode c) o)) (rd_src c) (rd_obs c) in
  ((if m then 0 else 1) + (if s then 0 else 2))%nat.

Definition rd_bad (cs : list rdcase) : list (nat * nat) :=
  let fix go (i : nat) (cs : list rdcase) :=
      match cs with
      | [] => []
      | c :: r => let k := rd_check c in
                  if Nat.eqb k 0 then go (S i) r else (i, k) :: go (S i) r
      end in go 0%nat cs.
