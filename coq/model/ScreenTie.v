(** Executable comparison for the C18 correspondence: scripted sessions of a real
    UrwidImageScreen (harness/impl/impl_c18.py), judged step by step against
    - the MODEL (model/Screen.v): the deletes written, _ti_image_cviews, the disguise
      states, the z-index allocator                                     -> code 1 if different;
    - the SPECIFICATION, on the implementation's own bytes: the placements on the
      placement-level terminal after executing everything written so far = the placements
      of the canvas just drawn written on an empty terminal (no ghost, nothing missing);
      one synchronized update per redraw; nothing left after start / stop / clear;
      _ti_image_cviews = the positions read off the canvas' layout (obtained with urwid's
      own shard functions); live z-indexes distinct, non-zero, in range; no exception
      escapes a legitimate redraw                                       -> code 2 if violated.
    After every step the model state is re-synchronised with the observation, so that
    every step is judged on its own.

    The terminal is the TWO-BUFFER terminal of model/ScreenSession.v: a session starts with
    whatever earlier output left on it ([XPre]: images printed by an earlier command, by the
    application itself before start() or between two sessions); the screen is started with
    either value of urwid's [alternate_buffer] ([XStart alt]) any number of times, possibly as
    a new screen object ([XNewScreen]).  "Cleared on start / clear" is judged on the buffer the
    user sees, "cleared on stop" on the buffer the screen ran on, "the placements are those
    of the canvas just drawn" on the visible buffer with the canvas' rows written from the
    row where the screen's display begins (row 0 with the alternate buffer; the row of the
    cursor at start() without it: urwid then addresses rows relatively).

    result of a case: 0, or  code + 10 * reason + 1000 * (index of the step). *)
From Coq Require Import List ZArith Bool Lia Arith.
Import ListNotations.
From TI Require Import lib.Term model.Screen model.ScreenSession model.ScreenBlend.

Record tobs := mk_obs {
  o_freed : list (nat * Z);      (* widgets finalised during the step, with their z-index *)
  o_live : list (nat * Z);       (* live kitty widgets after the step *)
  o_free : list Z;               (* _ti_free_z_indexes *)
  o_next : Z;                    (* _ti_next_z_index *)
  o_cls : list (Z * list Z);     (* (_ti_next_z_index, _ti_free_z_indexes) as seen from each class of the widget tree *)
  o_cdis : nat;
  o_wdis : list (nat * nat);
  o_cviews : list view;
  o_resized : bool;              (* urwid's [_resized]: a resize is pending (the environment, observed) *)
  o_reached : bool               (* a draw step: urwid's screen buffer holds the canvas handed over *)
}.

Inductive tact :=
| XDraw (c : canvas) (lay : layout) (bad raised : bool) (out : list btok) (truth : list (list stok))
| XClear (out : list btok)
| XStart (alt : bool) (out : list btok)      (* screen.start(alternate_buffer=alt) *)
| XStop (out : list btok)
| XPre (out : list btok)                      (* written to the terminal by something else while the screen is stopped *)
| XNewScreen                                  (* the (stopped) screen object is replaced by a new UrwidImageScreen *)
| XNew (wid : nat) (kitty : bool) (z : option Z)   (* a widget (of any class of the tree) constructed;
                                                       [None]: the constructor raised *)
| XDel
| XWinch (out : list btok)                    (* a SIGWINCH is delivered to the started screen *)
| XResized (out : list btok)                  (* the resize is handled: get_input() reports 'window resize' *)
| XApi (ws : list (nat * wkind)) (now : bool) (imm out : list btok).
                                         (* the public clear_images(ws..., now=now): what went to the
                                            terminal device at once, what was put into the output buffer *)

Record tstep := mk_step { ts_act : tact; ts_obs : tobs }.
(** [tc_ident]: the identity of the session's terminal (model/ScreenBlend.v): identified as kitty
    with its version, Konsole, or unidentified with forced support; [tc_konsole] = [is_konsole]
    of it (checked: a case that says otherwise is malformed, model reason 11) *)
Record tcase := mk_case { tc_konsole : bool; tc_ksup : bool; tc_ikon : bool; tc_fuel : nat;
                          tc_next : Z; tc_ident : tident; tc_steps : list tstep }.

(** [m_queue]: written to the screen's output buffer and not flushed yet (clear() and
    clear_images(now=False) do not flush; draw_screen / start / stop do) *)
Record tstate := mk_tstate { m_scr : scr; m_term : bterm; m_alloc : alloc_st; m_live : list (nat * Z);
                             m_queue : list btok;
                             m_dirty : bool;  (* a public clear_images() call / an aborted redraw since the last write of the screen *)
                             m_origin : Z;    (* the terminal row where the screen's display begins *)
                             (* the ENVIRONMENT (urwid), specification side: a SIGWINCH arrived and the resize
                                has not been handled (urwid's draw_screen returns without drawing,
                                _raw_display_base.py:582, :713); the canvas object that reached the terminal
                                last, while urwid's screen buffer is valid (urwid returns at once when handed
                                that very object, :577) *)
                             m_pending : bool;
                             m_reached : option nat }.

(** a run of tokens without buffer switches (keeps the generated case files small) *)
Definition bts (l : list stok) : list btok := map BT l.

(** *** comparisons *)

Definition views_same (a b : list view) : bool :=
  forallb (fun v => view_mem v b) a && forallb (fun v => view_mem v a) b.

Definition is_big_del (x : stok) : bool :=
  match x with KDel DelAll | KDel (DelZ _) => true | _ => false end.
Definition stok_del_eqb (a b : stok) : bool :=
  match a, b with
  | KDel DelAll, KDel DelAll => true
  | KDel (DelZ x), KDel (DelZ y) => Z.eqb x y
  | _, _ => false
  end.
Fixpoint remove_first (x : stok) (l : list stok) : option (list stok) :=
  match l with
  | [] => None
  | y :: t => if stok_del_eqb x y then Some t
              else match remove_first x t with Some t' => Some (y :: t') | None => None end
  end.
(** equal as multisets *)
Fixpoint dels_same (a b : list stok) : bool :=
  match a with
  | [] => match b with [] => true | _ => false end
  | x :: a' => match remove_first x b with Some b' => dels_same a' b' | None => false end
  end.

Definition wdis_same (model obs : list (nat * nat)) : bool :=
  forallb (fun e => Nat.eqb (wdis_get (fst e) model) (snd e)) obs.

Fixpoint zs_subset (a b : list Z) : bool :=
  match a with [] => true | x :: t => zmem x b && zs_subset t b end.
Definition zs_same (a b : list Z) : bool := zs_subset a b && zs_subset b a.

Fixpoint z_nodup (l : list Z) : bool :=
  match l with [] => true | x :: t => negb (zmem x t) && z_nodup t end.
Definition z_ok (z : Z) : bool := negb (Z.eqb z 0) && Z.leb (- (zlimit - 1)) z && Z.leb z (zlimit - 1).

Definition cview_eqb (a b : cview) : bool :=
  Nat.eqb (cv_tl a) (cv_tl b) && Nat.eqb (cv_tt a) (cv_tt b) && Nat.eqb (cv_cols a) (cv_cols b)
  && Nat.eqb (cv_rows a) (cv_rows b) && canv_eqb (cv_canv a) (cv_canv b).
Fixpoint cviews_eqb (a b : list cview) : bool :=
  match a, b with
  | [], [] => true
  | x :: a', y :: b' => cview_eqb x y && cviews_eqb a' b'
  | _, _ => false
  end.
Fixpoint shards_eqb (a b : list shard) : bool :=
  match a, b with
  | [], [] => true
  | (n, x) :: a', (m, y) :: b' => Nat.eqb n m && cviews_eqb x y && shards_eqb a' b'
  | _, _ => false
  end.

(** the placements of a canvas: its rows written, each from column 0, on an empty terminal *)
Fixpoint truth_toks (y : Z) (rows : list (list stok)) : list stok :=
  match rows with
  | [] => []
  | r :: rest => KCup y 0 :: r ++ truth_toks (y + 1) rest
  end.
Definition truth_plcs (konsole : bool) (origin : Z) (rows : list (list stok)) : list plc :=
  t_plcs (pexec konsole pterm_init (truth_toks origin rows)).

(** *** the allocator against an observed construction *)
Fixpoint z_remove (z : Z) (l : list Z) : list Z :=
  match l with [] => [] | x :: t => if Z.eqb x z then t else x :: z_remove z t end.
(** the state after the observed result, or [None] when [alloc] cannot produce it for any
    choice of [set.pop()] *)
Definition alloc_obs (res : option Z) (s : alloc_st) : option alloc_st :=
  match a_free s, res with
  | [], None => if Z.eqb (a_next s) zlimit then Some s else None
  | [], Some z => if Z.eqb (a_next s) zlimit then None
                  else if Z.eqb z (a_next s)
                       then Some (mk_alloc (if Z.ltb 0 z then (- z)%Z else (- z + 1)%Z) []) else None
  | _ :: _, None => None
  | f, Some z => if zmem z f then Some (mk_alloc (a_next s) (z_remove z f)) else None
  end.

(** *** one step *)

Definition resync (st : tstate) (o : tobs) (term : bterm) (canv : option nat) (queue : list btok) (dirty : bool)
           (origin : Z) (pending : bool) (reached : option nat) : tstate :=
  mk_tstate (mk_scr (o_cviews o) (o_cdis o) (o_wdis o) canv) term (mk_alloc (o_next o) (o_free o)) (o_live o) queue dirty origin
            pending reached.

Definition live_eqb (a b : nat * Z) : bool := Nat.eqb (fst a) (fst b) && Z.eqb (snd a) (snd b).
Definition live_same (a b : list (nat * Z)) : bool :=
  forallb (fun x => existsb (live_eqb x) b) a && forallb (fun x => existsb (live_eqb x) a) b.

(** (model reason, spec reason); 0 = fine.
    The model has ONE allocator for the whole class tree of UrwidImage (the code addresses
    it through [__class__]): whatever the class of the widget constructed, the observed
    index must be what that single allocator gives, every class must see the same counter
    and free set, and the live widgets with their indexes must be the model's.
    Specification on the observation alone: the z-indexes of ALL live kitty widgets,
    whatever their classes, are pairwise distinct, non-zero and in range, and only live
    widgets' indexes are freed. *)
Definition judge_alloc (st : tstate) (a : tact) (o : tobs) : nat * nat :=
  let al0 := fold_left (fun s e => release (snd e) s) (o_freed o) (m_alloc st) in
  let freed_live := forallb (fun e => existsb (live_eqb e) (m_live st)) (o_freed o) in
  let live0 := filter (fun l => negb (existsb (live_eqb l) (o_freed o))) (m_live st) in
  let al1 := match a with
             | XNew _ true res => alloc_obs res al0
             | _ => Some al0
             end in
  let live1 := match a with
               | XNew w true (Some z) => (w, z) :: live0
               | _ => live0
               end in
  let model_ok := match al1 with
                  | Some s => Z.eqb (a_next s) (o_next o) && zs_same (a_free s) (o_free o)
                              && forallb (fun c => Z.eqb (fst c) (o_next o) && zs_same (snd c) (o_free o)) (o_cls o)
                              && live_same live1 (o_live o)
                  | None => false
                  end in
  let zs := map snd (o_live o) in
  let spec_ok := z_nodup zs && forallb z_ok zs && freed_live in
  ((if model_ok then 0 else 1), (if spec_ok then 0 else 6)).

Definition no_plcs (l : list plc) : bool := match l with [] => true | _ => false end.

(** *** the z-indexes of the TRANSMITTED placements

    The screen deletes a kitty widget's images by the z-index the widget holds (the allocator's).
    So every placement of the canvas must carry the z-index of the widget whose view it lies in
    (0 for an iTerm2 image on Konsole), must lie in a tracked view, and the views of two different
    live kitty widgets must carry different z-indexes ON THE TERMINAL.  [vs]: the tracked views
    read off the canvas' layout ([positions], 1-based rows and columns); [ps]: the placements of
    the canvas' rows (the terminal's, 0-based, the display beginning at row [origin]). *)
Definition view_has (origin : Z) (v : view) (p : plc) : bool :=
  let r0 := (origin + Z.of_nat (v_row v) - 1)%Z in
  let c0 := (Z.of_nat (v_col v) - 1)%Z in
  Z.leb r0 (p_r p) && Z.ltb (p_r p) (r0 + Z.of_nat (v_rows v))
  && Z.leb c0 (p_c p) && Z.ltb (p_c p) (c0 + Z.of_nat (v_cols v)).
Definition placed_z_ok (origin : Z) (vs : list view) (ps : list plc) : bool :=
  forallb (fun p => existsb (fun v => view_has origin v p) vs
                    && forallb (fun v => negb (view_has origin v p) || Z.eqb (p_z p) (kind_z (v_kind v))) vs) ps
  && forallb (fun v => forallb (fun w => negb (is_kitty (v_kind v) && is_kitty (v_kind w))
                                         || Nat.eqb (v_wid v) (v_wid w)
                                         || negb (Z.eqb (kind_z (v_kind v)) (kind_z (v_kind w)))) vs) vs.

Definition judge_screen (c : tcase) (st : tstate) (a : tact) (o : tobs)
  : nat * nat * bterm * option nat * list btok * Z :=
  let k := tc_konsole c in
  let s := m_scr st in
  let origin := m_origin st in
  match a with
  | XDraw cv lay bad raised out truth =>
    let term' := bexec k (m_term st) (m_queue st ++ out) in
    let sout := bstoks out in
    let lay_ok := match cv with
                  | Composite _ sh => wf_layout lay && shards_eqb (shards_of lay) sh
                  | Single _ _ _ => true
                  end in
    let model :=
      if negb lay_ok then 2
      else match draw_screen (tc_fuel c) (tc_ksup c) (tc_ikon c) k cv [] s with
           | None => 3
           | Some (mout, s') =>
             if negb (dels_same (filter is_big_del mout) (filter is_big_del sout)) then 4
             else if negb (views_same (s_prev s') (o_cviews o)) then 5
             else if negb (Nat.eqb (s_cdis s') (o_cdis o)) then 6
             else if negb (wdis_same (s_wdis s') (o_wdis o)) then 7
             else 0
           end in
    let tracking := tc_ksup c || tc_ikon c in
    let same := match s_canv s with Some i => Nat.eqb i (canvas_id cv) | None => false end in
    (* the environment: urwid does not draw while a resize is pending, nor when the base class'
       draw raises before its output is written; it returns at once when handed the canvas object
       its screen buffer holds *)
    let aborted := m_pending st || raised in
    let quick := match m_reached st with Some i => Nat.eqb i (canvas_id cv) | None => false end in
    let pos := match cv with
               | Composite _ _ => positions k lay
               | Single ci cols rows => positions k [(rows, [CNew (mk_cview 0 0 cols rows ci)])]
               end in
    let spec :=
      if raised && negb bad then 1
      else if negb (bracketed sout) then 2
      else if tracking && negb same && negb (views_same pos (o_cviews o)) then 3
      else if tracking && negb (placed_z_ok origin pos (truth_plcs k origin truth)) then 8
      (* a redraw that did not reach the terminal (aborted by urwid; or short-circuited by urwid
         because it is handed the very canvas object it drew last, after a public clear_images()
         call or an aborted redraw deleted images: not a redraw in the sense of the property, the
         images stay cleared until a new canvas is drawn): the terminal must not show anything that
         the canvas now tracked does not have - else the tracking is out of sync with the terminal
         and the image is never deleted *)
      else if aborted || (quick && m_dirty st)
      then (if negb (plcs_subset (vis_plcs term') (truth_plcs k origin truth)) then 9 else 0)
      else if negb (plcs_subset (vis_plcs term') (truth_plcs k origin truth)) then 4     (* a ghost *)
      else if negb (plcs_subset (truth_plcs k origin truth) (vis_plcs term')) then 5     (* an image line missing *)
      (* EXACTLY those of the canvas, COUNTED: a placement stacked on an equal one (same rectangle, same
         z-index) by a row re-sent without a delete is one placement too many; on Konsole, which replaces
         an equal placement, equal placements are one ([norm], ScreenBlendProofs.konsole_is_dedup) *)
      else if negb (plcs_exact (tc_ident c) (vis_plcs term') (truth_plcs k origin truth)) then 10
      else 0 in
    (* the environment model against urwid's own record *)
    let model := if Nat.eqb model 0 && negb (Bool.eqb (o_reached o) (negb aborted || quick)) then 10 else model in
    (model, spec, term', Some (canvas_id cv), [], origin)
  | XClear out | XStart _ out | XStop out =>
    (* clear() only queues its output; start / stop flush *)
    let queued := match a with XClear _ => true | _ => false end in
    let flushed := bexec k (m_term st) (m_queue st ++ out) in
    let sout := bstoks out in
    (* the buffer the terminal showed while the screen ran *)
    let ran_on := b_alt (m_term st) in
    let '(mout, s') := match a with
                       | XClear _ => let r := clear_stream (tc_ksup c) s in (bts (fst r), snd r)
                       | XStart alt _ => start_session (tc_ksup c) alt [] s
                       | _ => stop_session (tc_ksup c) ran_on [] [] s      (* urwid 2.6: _stop() calls clear() *)
                       end in
    let model :=
      if negb (dels_same (filter is_big_del (bstoks mout)) (filter is_big_del sout)) then 4
      else if negb (Nat.eqb (s_cdis s') (o_cdis o)) then 6
      else if negb (wdis_same (s_wdis s') (o_wdis o)) then 7
      else if negb (views_same (s_prev s') (o_cviews o)) then 5
      else 0 in
    (* cleared on start / clear: nothing on the buffer the user sees; cleared on stop: nothing
       on the buffer the screen ran on *)
    let left := match a with
                | XStop _ => buf_plcs ran_on flushed
                | _ => vis_plcs flushed
                end in
    let spec := if tc_ksup c && negb (no_plcs left) then 7 else 0 in
    (* where the display begins: row 0 of the alternate buffer; without it, the row of the cursor *)
    let origin' := match a with
                   | XStart alt _ => if alt then 0%Z else t_r (b_vis flushed)
                   | _ => origin
                   end in
    if queued then (model, spec, m_term st, s_canv s, m_queue st ++ out, origin')
    else (model, spec, flushed, s_canv s, [], origin')
  | XApi ws now imm out =>
    let '(mi, mq, s') := api_clear_images (tc_ksup c) ws now s in
    let model :=
      if negb (dels_same (filter is_big_del mi) (filter is_big_del (bstoks imm))) then 4
      else if negb (dels_same (filter is_big_del mq) (filter is_big_del (bstoks out))) then 4
      else if negb (Nat.eqb (s_cdis s') (o_cdis o)) then 6
      else if negb (wdis_same (s_wdis s') (o_wdis o)) then 7
      else if negb (views_same (s_prev s') (o_cviews o)) then 5
      else 0 in
    (model, 0, bexec k (m_term st) imm, s_canv s, m_queue st ++ out, origin)
  | XPre out =>
    (* foreign output changes the terminal, not the screen *)
    let model :=
      if negb (Nat.eqb (s_cdis s) (o_cdis o)) then 6
      else if negb (views_same (s_prev s) (o_cviews o)) then 5
      else 0 in
    (model, 0, bexec k (m_term st) out, s_canv s, m_queue st, origin)
  | XNewScreen =>
    (* the new object tracks nothing and has drawn no canvas; the disguises are class / widget state *)
    let model :=
      if negb (Nat.eqb (s_cdis s) (o_cdis o)) then 6
      else if negb (views_same [] (o_cviews o)) then 5
      else 0 in
    (model, 0, m_term st, None, [], origin)
  | XNew _ _ _ | XDel =>
    let model :=
      if negb (Nat.eqb (s_cdis s) (o_cdis o)) then 6
      else if negb (views_same (s_prev s) (o_cviews o)) then 5
      else 0 in
    (model, 0, m_term st, s_canv s, m_queue st, origin)
  | XWinch out | XResized out =>
    (* the signal handler and get_input() write nothing and leave the library's state alone *)
    let model :=
      if negb (Nat.eqb (s_cdis s) (o_cdis o)) then 6
      else if negb (views_same (s_prev s) (o_cviews o)) then 5
      else if negb (wdis_same (s_wdis s) (o_wdis o)) then 7
      else match bstoks out with [] => 0 | _ => 4 end in
    (model, 0, bexec k (m_term st) out, s_canv s, m_queue st, origin)
  end.

Record verdict := mk_verdict { v_mis : option (nat * nat); v_fail : option (nat * nat) }.

Fixpoint judge_steps (c : tcase) (st : tstate) (i : nat) (steps : list tstep) (v : verdict) : verdict :=
  match steps with
  | [] => v
  | stp :: rest =>
    let a := ts_act stp in
    let o := ts_obs stp in
    let '(m1, s1) := judge_alloc st a o in
    let '(m2, s2, term', canv, queue', origin') := judge_screen c st a o in
    let m := if Nat.eqb m2 0 then (if Nat.eqb m1 0 then 0 else 8) else m2 in
    let s := if Nat.eqb s2 0 then s1 else s2 in
    let aborted := match a with XDraw _ _ _ raised _ _ => m_pending st || raised | _ => false end in
    let quick := match a with
                 | XDraw cv _ _ _ _ _ => match m_reached st with Some j => Nat.eqb j (canvas_id cv) | None => false end
                 | _ => false
                 end in
    let dirty' := match a with
                  | XApi _ _ _ _ => true
                  | XDraw _ _ _ _ _ _ => if aborted then true else if quick then m_dirty st else false
                  | XClear _ | XStart _ _ | XStop _ | XWinch _ => false
                  | _ => m_dirty st
                  end in
    (* the environment model: SIGWINCH sets the flag (and invalidates urwid's screen buffer), handling
       the resize clears it; it survives stop() / start() *)
    let pending' := match a with
                    | XWinch _ => true
                    | XResized _ => false
                    | XNewScreen => false
                    | _ => m_pending st
                    end in
    let reached' := match a with
                    | XDraw cv _ _ _ _ _ =>
                      if aborted then (if m_pending st then None else m_reached st) else Some (canvas_id cv)
                    | XClear _ | XStart _ _ | XStop _ | XWinch _ | XNewScreen => None
                    | _ => m_reached st
                    end in
    let m := if Nat.eqb m 0 && negb (Bool.eqb (o_resized o) pending') then 9 else m in
    let v' := mk_verdict (match v_mis v with Some x => Some x | None => if Nat.eqb m 0 then None else Some (i, m) end)
                         (match v_fail v with Some x => Some x | None => if Nat.eqb s 0 then None else Some (i, s) end) in
    judge_steps c (resync st o term' canv queue' dirty' origin' pending' reached') (S i) rest v'
  end.

Definition check (c : tcase) : nat :=
  let st0 := mk_tstate scr_init bterm_init (mk_alloc (tc_next c) []) [] [] false 0%Z false None in
  let v := judge_steps c st0 0 (tc_steps c) (mk_verdict None None) in
  let v := if Bool.eqb (tc_konsole c) (is_konsole (tc_ident c)) then v
           else mk_verdict (match v_mis v with Some x => Some x | None => Some (0, 11) end) (v_fail v) in
  match v_fail v, v_mis v with
  | Some (i, r), None => 2 + 10 * r + 1000 * i
  | Some (i, r), Some _ => 3 + 10 * r + 1000 * i
  | None, Some (i, r) => 1 + 10 * r + 1000 * i
  | None, None => 0
  end.

(** (index, result) of the cases whose result is not 0 *)
Definition bad (cases : list tcase) : list (nat * nat) :=
  filter (fun ic => negb (Nat.eqb (snd ic) 0)) (combine (seq 0 (length cases)) (map check cases)).
