(** C19 — format specifiers: acceptance and interpretation.  Definitions only.

    Implementation side (mirrors src/term_image/image/common.py, kitty.py, iterm2.py;
    the regular expressions themselves are NOT written here, they are translated from
    the source on every run into gen/Regexes.v):
      [impl_main]      = _FORMAT_SPEC.fullmatch /\ ~ _NO_VERTICAL_SPEC.fullmatch
                         (common.py _check_format_spec, "Invalid format specifier")
      [style_lang]     = the search-then-sequential-match procedure of
                         BaseImage._get_style_format_spec + "parent portion must be
                         empty" + "nothing left over", as a regular language
      [impl_accepts]   = _FORMAT_SPEC with its style group restricted to [style_lang],
                         and not _NO_VERTICAL_SPEC
      [interp]         = _check_format_spec / _check_formatting / the style classes'
                         _check_style_format_spec + _check_style_args, on parsed fields.

    Specification side (written from docs/source/guide/formatting.rst, the class
    docstrings of KittyImage / ITerm2Image and the documentation of draw()):
      [doc_grammar], [doc_main], [doc_interp], [draw_params].

    Characters are Unicode code points ([N]). *)
From Coq Require Import List Bool Arith NArith ZArith.
Import ListNotations.
From TI Require Import lib.Re lib.CRe gen.Regexes.
Local Open Scope N_scope.

Inductive style := Block | Kitty | ITerm2.

(** * 1. The documented grammar *)

(** ** character sets of the documentation (every [ranges] definition of this file is
    read by harness/tx/tx_regex.py when it computes the class table) *)
Definition d_halign : ranges := [(60, 60); (62, 62); (124, 124)].  (* <  >  | *)
Definition d_digit : ranges := [(48, 57)].                         (* 0-9 *)
Definition d_dot : ranges := [(46, 46)].                           (* . *)
Definition d_valign : ranges := [(45, 45); (94, 95)].              (* -  ^  _ *)
Definition d_hash : ranges := [(35, 35)].                          (* # *)
Definition d_hex : ranges := [(48, 57); (65, 70); (97, 102)].      (* 0-9 A-F a-f *)
Definition d_plus : ranges := [(43, 43)].                          (* + *)
Definition d_LW : ranges := [(76, 76); (87, 87)].                  (* L W *)
Definition d_LWA : ranges := [(65, 65); (76, 76); (87, 87)].       (* A L W *)
Definition d_z : ranges := [(122, 122)].
Definition d_minus : ranges := [(45, 45)].
Definition d_m : ranges := [(109, 109)].
Definition d_bit : ranges := [(48, 49)].                           (* 0 1 *)
Definition d_c : ranges := [(99, 99)].
Definition d_any : ranges := [(0, 1114111)].
(** a specifier is one line: the <style> placeholder stands for any non-empty text
    without a line feed *)
Definition d_line : ranges := [(0, 9); (11, 1114111)].
(** digits of the z-index "integer": the decimal digits Python's int() accepts
    (judgement: the documentation says "an integer" and does not define its lexical
    form; width/height say "positive integer" and the source restricts those to ASCII
    by re.ASCII, which [d_digit] follows) *)
Definition d_intdigit : ranges := UNICODE_DIGITS.

Definition S_ (rs : ranges) : cre := CSet rs.
Definition copt (r : cre) : cre := CAlt CEps r.
Definition cplus (r : cre) : cre := CCat r (CStar r).
Fixpoint crep (n : nat) (r : cre) : cre :=
  match n with O => CEps | S k => CCat r (crep k r) end.

(** [ . [ <v_align> ] [ <height> ] ]  "if the . is present, then at least one of
    v_align and height must be present" *)
Definition doc_vertical : cre :=
  CCat (S_ d_dot)
       (CAlt (CCat (S_ d_valign) (copt (cplus (S_ d_digit)))) (cplus (S_ d_digit))).
(** threshold: "a float value ... starting with the . (decimal point)" e.g .0 .325043 *)
Definition doc_threshold : cre := CCat (S_ d_dot) (cplus (S_ d_digit)).
(** bgcolor: "#" or "a hex color e.g ffffff, 7faa52" *)
Definition doc_bgcolor : cre := CAlt (S_ d_hash) (crep 6%nat (S_ d_hex)).
Definition doc_alpha : cre := CCat (S_ d_hash) (copt (CAlt doc_threshold doc_bgcolor)).

(** [ <h_align> ] [ <width> ] [ . [ <v_align> ] [ <height> ] ] [ # [ <threshold> | <bgcolor> ] ] [ + <style> ] *)
Definition doc_spec (sty : cre) : cre :=
  CCat (copt (S_ d_halign))
  (CCat (copt (cplus (S_ d_digit)))
  (CCat (copt doc_vertical)
  (CCat (copt doc_alpha)
        (copt (CCat (S_ d_plus) sty))))).

Definition nonempty : cre := cplus (S_ d_any).

(** KittyImage: [ <method> ] [ z <z-index> ] [ m <mix> ] [ c <compress> ]; a field
    placeholder (<style>) is not empty *)
Definition doc_style_kitty : cre :=
  CAnd nonempty
   (CCat (copt (S_ d_LW))
   (CCat (copt (CCat (S_ d_z) (CCat (copt (S_ d_minus)) (cplus (S_ d_intdigit)))))
   (CCat (copt (CCat (S_ d_m) (S_ d_bit)))
         (copt (CCat (S_ d_c) (S_ d_digit)))))).
(** ITerm2Image: [ <method> ] [ m <mix> ] [ c <compress> ] *)
Definition doc_style_iterm2 : cre :=
  CAnd nonempty
   (CCat (copt (S_ d_LWA))
   (CCat (copt (CCat (S_ d_m) (S_ d_bit)))
         (copt (CCat (S_ d_c) (S_ d_digit))))).

Definition doc_style (s : style) : cre :=
  match s with
  | Block => CEmp            (* BlockImage defines no style-specific specifier *)
  | Kitty => doc_style_kitty
  | ITerm2 => doc_style_iterm2
  end.

(** the documented grammar for a render style *)
Definition doc_grammar (s : style) : cre := doc_spec (doc_style s).
(** the grammar with an arbitrary <style>: who fails this gets ValueError ("Invalid
    format specifier"), who passes it but not [doc_grammar] gets StyleError *)
Definition doc_main : cre := doc_spec (cplus (S_ d_line)).

(** * 2. What the implementation accepts *)

(** common.py _check_format_spec:
      match_ = _FORMAT_SPEC.fullmatch(spec)
      if not match_ or _NO_VERTICAL_SPEC.fullmatch(spec): raise ValueError *)
Definition impl_main : cre := CAnd FORMAT_SPEC (CNot NO_VERTICAL_SPEC).

Definition anyc : cre := S_ d_any.
Definition anystar : cre := CStar anyc.
Definition starts_with (p : cre) : cre := CCat p anystar.
Definition occurs (p : cre) : cre := CCat anystar (CCat p anystar).

(** the engine's match of field pattern [f] (the longest one, see tx_regex.field_shape)
    followed by [rest] *)
Definition field_then (f : cre * ranges) (rest : cre) : cre :=
  match snd f with
  | [] => CCat (fst f) rest
  | tl => CCat (fst f) (CAnd rest (CNot (CCat (CSet tl) anystar)))
  end.

(** _get_style_format_spec, second loop: each remaining pattern is matched at the
    current end if it matches there (`pattern.match(spec, pos=end)`), else skipped;
    then `invalid = spec[end:]` must be empty *)
Fixpoint seq_fields (fs : list (cre * ranges)) : cre :=
  match fs with
  | [] => CEps
  | f :: fs' =>
      CAlt (field_then f (seq_fields fs'))
           (CAnd (CNot (starts_with (fst f))) (seq_fields fs'))
  end.

(** first loop: the first pattern that occurs anywhere (`pattern.search(spec)`) fixes
    `start`; `parent = spec[:start]` is handed to BaseImage._check_style_format_spec,
    which rejects a non-empty one — so the leftmost occurrence must be at 0.  No
    pattern occurring at all: parent = the whole (non-empty) text: rejected. *)
Fixpoint search_fields (fs : list (cre * ranges)) : cre :=
  match fs with
  | [] => CEmp
  | f :: fs' =>
      CAlt (field_then f (seq_fields fs'))
           (CAnd (CNot (occurs (fst f))) (search_fields fs'))
  end.

Definition style_lang (o : option (list (cre * ranges))) : cre :=
  match o with
  | None => CEmp     (* BaseImage._check_style_format_spec: `if spec: raise StyleError` *)
  | Some fs => search_fields fs
  end.

Definition style_fields (s : style) : option (list (cre * ranges)) :=
  match s with Block => BLOCK_STYLE | Kitty => KITTY_STYLE | ITerm2 => ITERM2_STYLE end.

Definition impl_accepts (s : style) : cre :=
  CAnd (FORMAT_SPEC_h (style_lang (style_fields s))) (CNot NO_VERTICAL_SPEC).

(** * 3. Fields *)

Definition isin (rs : ranges) (x : N) : bool := in_ranges rs x.
Definition is_nil {A} (l : list A) : bool := match l with [] => true | _ => false end.
Definition is_some {A} (o : option A) : bool := match o with Some _ => true | None => false end.

Fixpoint span (p : N -> bool) (s : list N) : list N * list N :=
  match s with
  | [] => ([], [])
  | x :: r => if p x then let (a, b) := span p r in (x :: a, b) else ([], s)
  end.

Definition opt_char (p : N -> bool) (s : list N) : option N * list N :=
  match s with
  | x :: r => if p x then (Some x, r) else (None, s)
  | [] => (None, [])
  end.

Record fields := {
  f_halign : option N;        (* the character *)
  f_width : list N;           (* digit characters, [] = absent *)
  f_dot : bool;
  f_valign : option N;
  f_height : list N;
  f_hash : bool;              (* the # field is present *)
  f_thr : list N;             (* text after the #: [] | . digits | 6 hex digits | # *)
  f_style : option (list N)   (* text after the + *)
}.

(** the text after a '#': returns (threshold_or_bg, rest) *)
Definition scan_thr (r : list N) : list N * list N :=
  match r with
  | [] => ([], [])
  | y :: r' =>
      if (y =? 46)%N then
        let (ds, r2) := span (isin d_digit) r' in
        if is_nil ds then ([], r) else (y :: ds, r2)
      else if (y =? 35)%N then ([y], r')
      else
        let hx := firstn 6 r in
        if (length hx =? 6)%nat && forallb (isin d_hex) hx then (hx, skipn 6 r) else ([], r)
  end.

(** the fields of a specifier, by a left-to-right scanner (what the groups of
    _FORMAT_SPEC capture: the expression parses unambiguously).  A dot followed by
    neither v_align nor height still yields fields here; such strings are excluded at
    the language level (_NO_VERTICAL_SPEC in the code, "at least one of v_align and
    height" in the documentation). *)
Definition parse (s : list N) : option fields :=
  let (ha, s1) := opt_char (isin d_halign) s in
  let (w, s2) := span (isin d_digit) s1 in
  let '(dot, va, h, s3) :=
    match s2 with
    | x :: r =>
        if (x =? 46)%N then
          let (va, r1) := opt_char (isin d_valign) r in
          let (h, r2) := span (isin d_digit) r1 in (true, va, h, r2)
        else (false, None, [], s2)
    | [] => (false, None, [], [])
    end in
    let '(hash, thr, s4) :=
      match s3 with
      | x :: r => if (x =? 35)%N then let (t, r') := scan_thr r in (true, t, r')
                  else (false, [], s3)
      | [] => (false, [], [])
      end in
    let mk st := Some {| f_halign := ha; f_width := w; f_dot := dot; f_valign := va;
                         f_height := h; f_hash := hash; f_thr := thr; f_style := st |} in
    match s4 with
    | [] => mk None
    | x :: r =>
        if (x =? 43)%N && negb (is_nil r) && forallb (isin d_line) r then mk (Some r)
        else None
    end.

Record sfields := {
  sf_method : option N;
  sf_z : option (bool * list N);    (* negative?, digits *)
  sf_mix : option N;
  sf_comp : option N
}.

Definition method_set (s : style) : ranges :=
  match s with Kitty => d_LW | _ => d_LWA end.

(** the documented style grammars as scanners *)
Definition parse_style (sty : style) (s : list N) : option sfields :=
  match sty with
  | Block => None
  | _ =>
    if is_nil s then None
    else
      let (me, s1) := opt_char (isin (method_set sty)) s in
      let '(z, s2) :=
        match sty, s1 with
        | Kitty, x :: r =>
            if (x =? 122)%N then
              let (neg, r1) := opt_char (fun y => (y =? 45)%N) r in
              let (ds, r2) := span (isin d_intdigit) r1 in
              if is_nil ds then (None, s1) else (Some (is_some neg, ds), r2)
            else (None, s1)
        | _, _ => (None, s1)
        end in
      let '(mx, s3) :=
        match s2 with
        | x :: y :: r => if (x =? 109)%N && isin d_bit y then (Some y, r) else (None, s2)
        | _ => (None, s2)
        end in
      let '(cp, s4) :=
        match s3 with
        | x :: y :: r => if (x =? 99)%N && isin d_digit y then (Some y, r) else (None, s3)
        | _ => (None, s3)
        end in
      if is_nil s4 then Some {| sf_method := me; sf_z := z; sf_mix := mx; sf_comp := cp |}
      else None
  end.

(** ** numbers *)
Fixpoint zero_of (zs : list N) (x : N) : N :=
  match zs with
  | [] => 48%N
  | z :: r => if (z <=? x)%N then z else zero_of r x
  end.
(** Python's int() of one decimal digit (DIGIT_ZEROS is descending) *)
Definition digit_val (x : N) : Z := Z.of_N (x - zero_of DIGIT_ZEROS x).
Definition int_of (ds : list N) : Z := fold_left (fun a d => 10 * a + digit_val d)%Z ds 0%Z.
Definition hex_val (x : N) : Z :=
  Z.of_N (if (x <=? 57)%N then x - 48 else if (x <=? 70)%N then x - 55 else x - 87).
Definition hex_of (hs : list N) : Z := fold_left (fun a d => 16 * a + hex_val d)%Z hs 0%Z.

(** * 4. Interpretation by the implementation *)

Record tsize := { cols : Z; lines : Z }.   (* get_terminal_size() *)

(** alpha as handed to _render_image *)
Inductive alpha_raw :=
| RDefault                      (* _ALPHA_THRESHOLD *)
| RNone                         (* None *)
| RStr (t : list N)             (* "#" or "#rrggbb", as written *)
| RFloat (t : list N).          (* float(t), t = "." digits *)

(** style arguments after _check_style_args (arguments equal to the default removed) *)
Record sargs := {
  a_method : option nat;        (* 1 lines, 2 whole, 3 anim *)
  a_z : option Z;
  a_mix : option bool;
  a_comp : option Z
}.
Definition no_sargs : sargs := {| a_method := None; a_z := None; a_mix := None; a_comp := None |}.

Record rendering := {
  r_halign : option N; r_width : Z; r_valign : option N; r_height : Z;
  r_alpha : alpha_raw; r_sargs : sargs
}.

Inductive outcome :=
| Accepted (r : rendering)
| ValueErr
| StyleErr.

(** _check_formatting (common.py), the part reachable from a specifier (h_align/v_align
    are already one of the characters or None; width/height are ints) *)
Definition check_formatting (ts : tsize) (ha : option N) (w : Z) (va : option N) (h : Z)
  : option N * Z * option N * Z :=
  (ha,
   if (0 <? w)%Z then w else Z.max (cols ts + w)%Z 1%Z,
   va,
   if (0 <? h)%Z then h else Z.max (lines ts + h)%Z 1%Z).

Fixpoint lstrip_hash (t : list N) : list N :=
  match t with
  | x :: r => if (x =? 35)%N then lstrip_hash r else t
  | [] => []
  end.

(** _ALPHA_BG_FORMAT.fullmatch, by hand: # ( 6 hex digits )?   (tied to the translated
    regex by theorem C19_alpha_bg_format and lemma alpha_bg_hand_spec) *)
Definition alpha_bg_hand (u : list N) : bool :=
  match u with
  | x :: r => (x =? 35)%N && (is_nil r || ((length r =? 6)%nat && forallb (isin d_hex) r))
  | [] => false
  end.

(** common.py _check_format_spec:
      threshold_or_bg and ("#" + threshold_or_bg.lstrip("#")
                           if _ALPHA_BG_FORMAT.fullmatch("#" + threshold_or_bg.lstrip("#"))
                           else float(threshold_or_bg))
      if alpha else _ALPHA_THRESHOLD *)
Definition impl_alpha (hash : bool) (t : list N) : alpha_raw :=
  if hash then
    if is_nil t then RNone
    else
      let u := 35%N :: lstrip_hash t in
      if alpha_bg_hand u then RStr u else RFloat t
  else RDefault.

(** kitty.py / iterm2.py _check_style_format_spec, then common.py _check_style_args
    (type checks cannot fail here; value checks: z-index range; defaults removed) *)
Definition drop_default {A} (eqb : A -> A -> bool) (d : A) (o : option A) : option A :=
  match o with Some v => if eqb v d then None else Some v | None => None end.

Definition two31 : Z := 2147483648%Z.

Definition impl_sargs (sty : style) (sf : sfields) : option sargs :=
  let me := match sf_method sf with
            | Some c => Some (match sty with
                              | Kitty => if (c =? 76)%N then 1%nat else 2%nat   (* LINES if method == "L" else WHOLE *)
                              | _ => if (c =? 76)%N then 1%nat else if (c =? 87)%N then 2%nat else 3%nat
                              end)
            | None => None
            end in
  let z := match sf_z sf with
           | Some (neg, ds) => Some (if neg then - int_of ds else int_of ds)%Z    (* int(z_index[1:]) *)
           | None => None
           end in
  let mx := match sf_mix sf with Some c => Some (negb (digit_val c =? 0)%Z) | None => None end in  (* bool(int(mix[-1])) *)
  let cp := match sf_comp sf with Some c => Some (digit_val c) | None => None end in
  (* `if z_index:` etc. — a matched field is a non-empty string, hence true *)
  match z with
  | Some v => if ((- two31 <? v) && (v <? two31))%Z then
                Some {| a_method := me; a_z := drop_default Z.eqb 0%Z z;
                        a_mix := drop_default Bool.eqb false mx; a_comp := drop_default Z.eqb 4%Z cp |}
              else None      (* ValueError: z-index must be within the 32-bit signed integer range *)
  | None => Some {| a_method := me; a_z := None;
                    a_mix := drop_default Bool.eqb false mx; a_comp := drop_default Z.eqb 4%Z cp |}
  end.

(** _check_format_spec on the groups of a successful match (style already parsed) *)
Definition interp (ts : tsize) (sty : style) (f : fields) (sf : option sfields) : outcome :=
  let w := if is_nil (f_width f) then 0%Z else int_of (f_width f) in       (* int(width) if width else 0 *)
  let h := if is_nil (f_height f) then (-2)%Z else int_of (f_height f) in  (* int(height) if height else -2 *)
  let '(ha, w', va, h') := check_formatting ts (f_halign f) w (f_valign f) h in
  let al := impl_alpha (f_hash f) (f_thr f) in
  match sf with
  | None => Accepted {| r_halign := ha; r_width := w'; r_valign := va; r_height := h';
                        r_alpha := al; r_sargs := no_sargs |}
  | Some sf =>
      match impl_sargs sty sf with
      | Some sa => Accepted {| r_halign := ha; r_width := w'; r_valign := va; r_height := h';
                               r_alpha := al; r_sargs := sa |}
      | None => ValueErr
      end
  end.

(** * 5. The documented meaning *)

Inductive halign := HLeft | HCenter | HRight.
Inductive valign := VTop | VMiddle | VBottom.
Inductive transparency :=
| TDefault                     (* enabled, default alpha threshold *)
| TDisabled                    (* alpha channel ignored *)
| TThreshold (ds : list N)     (* threshold 0.d1 d2 ... *)
| TBgTerminal                  (* terminal's default background colour *)
| TBgColor (rgb : Z).          (* 0xRRGGBB *)

Record meaning := {
  m_h : halign; m_pw : Z; m_v : valign; m_ph : Z; m_t : transparency;
  m_method : option nat;       (* None = current effective render method *)
  m_z : Z; m_mix : bool; m_comp : Z
}.

(** draw(): "If pad_width or pad_height is positive, it is absolute and used as-is;
    non-positive, it is relative to the corresponding terminal dimension and equivalent
    to the absolute dimension max(terminal_dimension + dimension, 1)" *)
Definition pad (term v : Z) : Z := if (0 <? v)%Z then v else Z.max (term + v)%Z 1%Z.

Definition doc_h (f : fields) : halign :=
  match f_halign f with
  | Some 60%N => HLeft | Some 62%N => HRight | _ => HCenter   (* < left, | center, > right; default center *)
  end.
Definition doc_pw (ts : tsize) (f : fields) : Z :=
  if is_nil (f_width f) then cols ts     (* default: terminal width *)
  else pad (cols ts) (int_of (f_width f)).
Definition doc_v (f : fields) : valign :=
  match f_valign f with
  | Some 94%N => VTop | Some 95%N => VBottom | _ => VMiddle   (* ^ top, - middle, _ bottom; default middle *)
  end.
Definition doc_ph (ts : tsize) (f : fields) : Z :=
  if is_nil (f_height f) then (lines ts - 2)%Z     (* default: terminal height minus two *)
  else pad (lines ts) (int_of (f_height f)).
Definition doc_t (f : fields) : transparency :=
  if f_hash f then
    match f_thr f with
    | [] => TDisabled                    (* # without threshold or bgcolor *)
    | x :: r => if (x =? 46)%N then TThreshold r
                else if (x =? 35)%N then TBgTerminal
                else TBgColor (hex_of (x :: r))
    end
  else TDefault.

Definition doc_method (sf : sfields) : option nat :=
  match sf_method sf with
  | Some 76%N => Some 1%nat | Some 87%N => Some 2%nat | Some 65%N => Some 3%nat   (* L W A *)
  | _ => None
  end.
Definition doc_z (sf : sfields) : Z :=
  match sf_z sf with
  | Some (true, ds) => (- int_of ds)%Z
  | Some (false, ds) => int_of ds
  | None => 0%Z                          (* default z0 *)
  end.
Definition doc_mix (sf : sfields) : bool :=
  match sf_mix sf with Some 49%N => true | _ => false end.     (* default m0 *)
Definition doc_comp (sf : sfields) : Z :=
  match sf_comp sf with Some c => digit_val c | None => 4%Z end.   (* default c4 *)
(** "An integer in the signed 32-bit range (excluding -(2**31))" *)
Definition z_in_range (z : Z) : bool := ((- two31 <? z) && (z <? two31))%Z.

Definition doc_interp (ts : tsize) (sty : style) (f : fields) (sf : option sfields) : option meaning :=
  let mk me z mx cp := {| m_h := doc_h f; m_pw := doc_pw ts f; m_v := doc_v f; m_ph := doc_ph ts f;
                          m_t := doc_t f; m_method := me; m_z := z; m_mix := mx; m_comp := cp |} in
  match sf with
  | None => Some (mk None 0%Z false 4%Z)          (* defaults: z0, m0, c4 *)
  | Some sf =>
      if z_in_range (doc_z sf) then Some (mk (doc_method sf) (doc_z sf) (doc_mix sf) (doc_comp sf))
      else None
  end.

(** what an implementation result denotes: alignment as _format_render reads it
    ("<" left, ">" right, anything else centre; "^" top, "_" bottom, else middle),
    absent style arguments = their documented defaults *)
Definition denote_alpha (a : alpha_raw) : transparency :=
  match a with
  | RDefault => TDefault
  | RNone => TDisabled
  | RStr [_] => TBgTerminal
  | RStr (_ :: hs) => TBgColor (hex_of hs)
  | RStr [] => TBgTerminal
  | RFloat (_ :: ds) => TThreshold ds
  | RFloat [] => TThreshold []
  end.

Definition denote (r : rendering) : meaning :=
  {| m_h := match r_halign r with Some 60%N => HLeft | Some 62%N => HRight | _ => HCenter end;
     m_pw := r_width r;
     m_v := match r_valign r with Some 94%N => VTop | Some 95%N => VBottom | _ => VMiddle end;
     m_ph := r_height r;
     m_t := denote_alpha (r_alpha r);
     m_method := a_method (r_sargs r);
     m_z := match a_z (r_sargs r) with Some z => z | None => 0%Z end;
     m_mix := match a_mix (r_sargs r) with Some b => b | None => false end;
     m_comp := match a_comp (r_sargs r) with Some c => c | None => 4%Z end |}.

(** ** well-formed fields: what [parse] / [parse_style] can return *)
Definition thr_wf (t : list N) : bool :=
  match t with
  | [] => true
  | x :: r =>
      if (x =? 46)%N then negb (is_nil r) && forallb (isin d_digit) r
      else if (x =? 35)%N then is_nil r
      else (length t =? 6)%nat && forallb (isin d_hex) t
  end.

Definition fields_wf (f : fields) : bool :=
  match f_halign f with Some c => isin d_halign c | None => true end
  && forallb (isin d_digit) (f_width f)
  && match f_valign f with Some c => isin d_valign c | None => true end
  && forallb (isin d_digit) (f_height f)
  && (f_hash f || is_nil (f_thr f))
  && thr_wf (f_thr f).

Definition sfields_wf (sty : style) (sf : sfields) : bool :=
  match sf_method sf with Some c => isin (method_set sty) c | None => true end
  && match sf_z sf with
     | Some (_, ds) => negb (is_nil ds) && forallb (isin d_intdigit) ds
                       && match sty with Kitty => true | _ => false end
     | None => true
     end
  && match sf_mix sf with Some c => isin d_bit c | None => true end
  && match sf_comp sf with Some c => isin d_digit c | None => true end.
