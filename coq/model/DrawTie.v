(** Executable comparison for the C06 correspondence: the model's stream against the
    observed one, and the final-state predicate (the executable form of
    [DrawProofs.DrawFinal]) together with the documented size rule, both evaluated on
    what the implementation itself wrote. *)
From Coq Require Import List ZArith Bool Lia.
Import ListNotations.
From TI Require Import lib.Term lib.TermFacts lib.RectCheck lib.TermScroll lib.TermPlace lib.Lines
     model.Padding model.Draw.
Open Scope Z_scope.

Inductive dkind :=
| DAligned (W H : Z) (ha va : nat)     (* AlignedPadding(W, H, ha, va), possibly relative *)
| DExact (l t r b : Z)
| DOld (W H : Z) (ha va : nat).        (* old API: pad_width, pad_height, alignments *)

Record dcase := {
  d_kind : dkind;
  d_tw : Z; d_th : Z;                  (* terminal size = the screen *)
  d_cs : bool;                         (* check_size *)
  d_scroll : bool;                     (* allow_scroll / scroll *)
  d_anim : bool;                       (* animated and animate *)
  d_hide : bool;                       (* new: hide_cursor and isatty; old: isatty *)
  d_dyn : bool;                        (* old: the image's size is not set *)
  d_fill : option glyph;               (* new: the padding's fill *)
  d_w : Z; d_h : Z;                    (* render size *)
  d_clear : list tok;                  (* new: what [_clear_frame_] writes *)
  d_oldk : bool;                       (* old: kitty <= 0.25.0 *)
  d_wez : bool;                        (* old: iterm2 style on wezterm without mix *)
  d_kitty : bool;                      (* old: kitty style *)
  d_frames : list (list tok);          (* the frames' render outputs, as observed *)
  d_obs : list tok;                    (* what draw() wrote *)
  d_raised : bool;                     (* the documented size error was raised *)
  d_rows : list Z                      (* start rows for the final-state predicate *)
}.

Definition is_old (c : dcase) : bool := match d_kind c with DOld _ _ _ _ => true | _ => false end.

Definition new_dims (c : dcase) : Z * Z * Z * Z :=
  match d_kind c with
  | DAligned W H ha va =>
    let '(W', H') := resolve (d_tw c) (d_th c) W H in aligned_dims W' H' ha va (d_w c) (d_h c)
  | DExact l t r b => (l, t, r, b)
  | DOld _ _ _ _ => (0, 0, 0, 0)
  end.

Definition model_stream (c : dcase) : option (list tok) :=
  match d_kind c with
  | DOld rawW rawH ha va =>
    let '(W', H') := old_resolve (d_tw c) (d_th c) rawW rawH in
    old_draw_stream (d_cs c) (d_scroll c) (d_anim c) (d_dyn c) (d_hide c) (d_tw c) (d_th c)
                    rawW rawH ha va (d_w c) (d_h c)
                    (if d_wez c then wez_pre W' H' ha va (d_w c) (d_h c) else [])
                    (kitty_clear (d_oldk c)) (d_frames c)
  | _ =>
    draw_stream (d_cs c) (d_scroll c) (d_anim c) (d_hide c) (d_tw c) (d_th c)
                (d_fill c) (new_dims c) (d_w c) (d_h c) (d_clear c) (d_frames c)
  end.

(** the documented rules, written as decisions (independent of [size_ok] / [old_size_ok]) *)
Definition docb (cs allow anim : bool) (pw ph tw th : Z) : bool :=
  if cs || anim then (pw <=? tw) && (if negb allow || anim then ph <=? th else true) else true.

Definition old_docb (cs scroll anim dyn : bool) (w h rawW rawH tw th : Z) : bool :=
  (rawW <=? tw)
  && (if anim then rawH <=? th else true)
  && (if dyn then true
      else if cs || anim then (w <=? tw) && (if negb scroll || anim then h <=? th else true)
           else true).

(** padded size and the padded last frame *)
Definition box_of (c : dcase) : Z * Z :=
  match d_kind c with
  | DOld rawW rawH _ _ =>
    let '(W', H') := old_resolve (d_tw c) (d_th c) rawW rawH in (Z.max W' (d_w c), Z.max H' (d_h c))
  | _ => padded_size (new_dims c) (d_w c) (d_h c)
  end.

Definition last_frame (c : dcase) : list tok :=
  if d_anim c then last (d_frames c) [] else hd [] (d_frames c).

Definition ref_of (c : dcase) : list tok :=
  match d_kind c with
  | DOld rawW rawH ha va =>
    let '(W', H') := old_resolve (d_tw c) (d_th c) rawW rawH in
    format_render W' H' ha va (d_w c) (d_h c) (last_frame c)
  | _ => padded (d_fill c) (new_dims c) (d_w c) (d_h c) (last_frame c)
  end.

Definition ev_dec (a b : ev) : {a = b} + {a <> b}.
Proof.
  decide equality; try apply Z.eq_dec; try apply glyph_dec; try apply kdel_dec;
    destruct a0 as [f1 b1], a1 as [f2 b2];
    destruct (orgb_dec f1 f2); destruct (orgb_dec b1 b2); subst;
    try (left; reflexivity); right; congruence.
Defined.
Definition oev_eqb (a b : option ev) : bool :=
  match a, b with
  | None, None => true
  | Some x, Some y => if ev_dec x y then true else false
  | _, _ => false
  end.
Definition oz_eqb (a : option Z) (b : Z) : bool :=
  match a with Some x => x =? b | None => false end.

(** the executable form of [DrawFinal] on a [W x H] screen, left margin 0, from row [r0]
    of a screen whose top line is virtual row 0: one boolean per clause *)
Definition pl_eqb (a b : placement) : bool :=
  (p_r a =? p_r b) && (p_c a =? p_c b) && (p_h a =? p_h b) && (p_w a =? p_w b) && (p_z a =? p_z b).
Fixpoint pls_eqb (a b : list placement) : bool :=
  match a, b with
  | [], [] => true
  | x :: a', y :: b' => pl_eqb x y && pls_eqb a' b'
  | _, _ => false
  end.

(** [kitty]: also demand that the image placements left on the screen ([TermPlace.live]:
    placed and not removed by a matching delete) are exactly those of [Ref] drawn alone *)
Definition final_clauses (kitty : bool) (W H pw ph : Z) (Ref St : list tok) (r0 : Z) : list bool :=
  let t0 := start r0 0 in
  let t' := exec 0 t0 St in
  let evs := exec_evs 0 t0 St in
  let revs := exec_evs 0 t0 Ref in
  [ row t' =? r0 + ph;
    col t' =? 0;
    attrs_eqb (sgr t') adefault;
    visible t';
    is_ground (parser t') && is_none (pending t');
    oz_eqb (srun W H 0 0 t0 St) (Z.max 0 (r0 + ph + 1 - H));
    forallb (ev_box_or_below r0 0 ph pw) evs;
    forallb (fun i => forallb (fun j =>
        oev_eqb (lastcov evs (r0 + i) j) (lastcov revs (r0 + i) j)) (zrange 0 pw)) (zrange 0 ph);
    if kitty then pls_eqb (live evs) (live revs) else true ].

Definition final_ok (kitty : bool) (W H pw ph : Z) (Ref St : list tok) (r0 : Z) : bool :=
  forallb (fun b => b) (final_clauses kitty W H pw ph Ref St r0).

Definition is_nil {A} (l : list A) : bool := match l with [] => true | _ => false end.

Definition model_agrees (c : dcase) : bool :=
  match model_stream c with
  | None => d_raised c && is_nil (d_obs c)
  | Some st => negb (d_raised c) && toks_eqb st (d_obs c)
  end
  (* [KittyImage._display_animated]: the frames are rendered on the animation z-index *)
  && (if d_kitty c && d_anim c then forallb kitty_anim_frame_ok (d_frames c) else true).

Definition fits_rule (c : dcase) : bool :=
  let '(pw, ph) := box_of c in
  match d_kind c with
  | DOld rawW rawH _ _ =>
    old_docb (d_cs c) (d_scroll c) (d_anim c) (d_dyn c) (d_w c) (d_h c) rawW rawH (d_tw c) (d_th c)
  | _ => docb (d_cs c) (d_scroll c) (d_anim c) pw ph (d_tw c) (d_th c)
  end.

(** the specification side, on the implementation's own output: the error is raised
    exactly when the documented rule is violated and then nothing is written; otherwise,
    when the padded box fits the screen, the final-state predicate from every start row *)
Definition spec_holds (c : dcase) : bool :=
  let '(pw, ph) := box_of c in
  Bool.eqb (d_raised c) (negb (fits_rule c))
  && (if d_raised c then is_nil (d_obs c)
      else if (pw <=? d_tw c) && (ph <=? d_th c) && negb (is_nil (d_frames c))
           then forallb (final_ok (d_kitty c) (d_tw c) (d_th c) pw ph (ref_of c) (d_obs c)) (d_rows c)
           else true).

(** 0 = agrees; +1 differs from the model; +2 the observed behaviour contradicts the
    specification *)
Definition check (c : dcase) : nat :=
  (if model_agrees c then 0 else 1) + (if spec_holds c then 0 else 2).

Fixpoint index_from {A} (n : nat) (l : list A) : list (nat * A) :=
  match l with [] => [] | x :: r => (n, x) :: index_from (S n) r end.
Definition bad (cases : list dcase) : list (nat * nat) :=
  filter (fun p => negb (Nat.eqb (snd p) 0)) (index_from 0 (map check cases)).

Definition explain (c : dcase) :=
  (box_of c, d_raised c, fits_rule c,
   match model_stream c with
   | Some st => (Some (first_diff st (d_obs c) 0), length st, length (d_obs c))
   | None => (None, 0%nat, length (d_obs c))
   end,
   map (fun r0 => let '(pw, ph) := box_of c in
                  (r0, final_clauses (d_kitty c) (d_tw c) (d_th c) pw ph (ref_of c) (d_obs c) r0)) (d_rows c)).
