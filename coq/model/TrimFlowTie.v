(** Executable comparison used by the C17 correspondence for FLOW renders, from the image's
    PIXEL size and the terminal's cell size / cell ratio ([model/TrimFlow.v]; the sizing model
    [model/Sizing.v] run on Coq's primitive binary64 floats, [lib/FPrim.v], as in C04's tie).

    Model side: [image._valid_size(maxcol)] / [image._valid_size(Size.ORIGINAL)] as observed are
    [fit_of] / [ori_of]; [rows()] (asked before and, uncached, after the render) is
    [announced_rows fits_rows]; the canvas is [rendered_canvas fits_render]; the image placed in
    it is [image_size_by fits_render].
    Specification side (the observations alone): the rows announced before and after rendering =
    the rows of the canvas = the rows its [content()] yields; the canvas is [maxcol] wide. *)
From Coq Require Import List ZArith Bool PrimFloat.
Import ListNotations.
From TI Require Import lib.FArith lib.FPrim model.Sizing model.Trim model.TrimFlow.
Open Scope Z_scope.

Record fcase := {
  f_text : bool;               (* text-based style (else graphics-based) *)
  f_px : Z * Z;                (* the image's size in pixels *)
  f_cell : Z * Z;              (* get_cell_size() at that render *)
  f_ratio : float;             (* get_cell_ratio() at that render *)
  f_up : bool;                 (* the widget upscales *)
  f_maxcol : Z;
  f_fit : Z * Z;               (* observed image._valid_size(maxcol) *)
  f_ori : Z * Z;               (* observed image._valid_size(Size.ORIGINAL) *)
  f_rows_before : Z;           (* widget.rows((maxcol,)) before the render *)
  f_rows_after : Z;            (* ... after it (canvas cache cleared) *)
  f_canvas : Z * Z;            (* (cols(), rows()) of the canvas render((maxcol,)) returned *)
  f_image : Z * Z;             (* the canvas's image size *)
  f_ncontent : Z               (* rows its content() yields *)
}.

Definition f_env (c : fcase) : env PrimFA :=
  @Build_env PrimFA 80 30 (Some (f_cell c)) (Some (f_ratio c)) None.
Definition f_fam (c : fcase) : family := if f_text c then Text else Graphics.

Definition zz_eqb (a b : Z * Z) : bool := (fst a =? fst b) && (snd a =? snd b).

Definition fmodel_ok (c : fcase) : bool :=
  let fam := f_fam c in let e := f_env c in
  let '(pw, ph) := f_px c in
  let fit := fit_of (FA := PrimFA) fam e pw ph (f_maxcol c) in
  let ori := ori_of (FA := PrimFA) fam e pw ph in
  zz_eqb fit (f_fit c) && zz_eqb ori (f_ori c)
  && (announced_rows (FA := PrimFA) fits_rows fam e pw ph (f_up c) (f_maxcol c) =? f_rows_before c)
  && (announced_rows (FA := PrimFA) fits_rows fam e pw ph (f_up c) (f_maxcol c) =? f_rows_after c)
  && zz_eqb (rendered_canvas (FA := PrimFA) fits_render fam e pw ph (f_up c) (f_maxcol c)) (f_canvas c)
  && zz_eqb (image_size_by fits_render (f_maxcol c) (f_up c) fit ori) (f_image c).

Definition fspec_ok (c : fcase) : bool :=
  (f_rows_before c =? snd (f_canvas c)) && (f_rows_after c =? snd (f_canvas c))
  && (f_ncontent c =? snd (f_canvas c)) && (fst (f_canvas c) =? f_maxcol c).

(** 0 agrees; +1 differs from the model; +2 contradicts the specification *)
Definition fcheck (c : fcase) : nat :=
  ((if fmodel_ok c then 0 else 1) + (if fspec_ok c then 0 else 2))%nat.

Fixpoint findex_from {A} (n : nat) (l : list A) : list (nat * A) :=
  match l with [] => [] | x :: r => (n, x) :: findex_from (S n) r end.

Definition fbad (cases : list fcase) : list (nat * nat) :=
  filter (fun p => negb (Nat.eqb (snd p) 0)) (findex_from 0 (map fcheck cases)).
