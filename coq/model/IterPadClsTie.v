(** Executable comparison used by the C08 correspondence for histories whose paddings are OBJECTS
    WITH A CLASS ([model/IterPadCls.v]): the code side installs them through the code's class test
    ([install_pad]: [isinstance(padding, AlignedPadding) and padding.relative]), the specification
    side through the documented rule ([doc_install_pad]: [relative] only); both are then judged by
    [IterTie.check8] (code model: trace + render-call log; specification: [IterSpec] trace,
    [tell()] untouched).  An object whose fields are not those of its class is a generator error
    (code 1). *)
From Coq Require Import List ZArith Bool Arith.
Import ListNotations.
From TI Require Import model.Iter model.IterSpec model.IterTie model.IterEnv model.IterPadCls.
Open Scope Z_scope.

Record pcase := {
  pc_t : tcase;                   (* [t_ops] and [c_pad (t_cfg _)] are placeholders *)
  pc_ctor : offeredp;             (* the constructor's [padding] *)
  pc_ops : list pop
}.

Definition retargetP (f : offeredp -> padding) (c : pcase) : tcase :=
  let t := pc_t c in
  {| t_n := t_n t; t_total := t_total t; t_faults := t_faults t; t_ffaults := t_ffaults t;
     t_stamp := t_stamp t; t_cfg := with_pad_by f (t_cfg t) (pc_ctor c);
     t_ops := map (lower_by f) (pc_ops c);
     t_ctor := t_ctor t; t_obs := t_obs t; t_tells := t_tells t; t_log := t_log t;
     t_fin := t_fin t; t_finalized_end := t_finalized_end t |}.

Definition pcase_wf (c : pcase) : bool := wf_offered (pc_ctor c) && forallb pop_wf (pc_ops c).

(** 0 agrees; +1 differs from the code model; +2 contradicts the specification *)
Definition checkP (c : pcase) : nat :=
  if pcase_wf c then
    (Nat.modulo (check8 (retargetP (install_pad term8030) c)) 2
     + 2 * Nat.div (check8 (retargetP (doc_install_pad term8030) c)) 2)%nat
  else 1%nat.

Definition badP (cases : list pcase) : list (nat * nat) :=
  filter (fun p => negb (Nat.eqb (snd p) 0)) (index_from 0 (map checkP cases)).
