(** * Locks — model of the terminal lock and its hand-over to child processes (C14)

    Mirrors, at the grain "one read of the global / one lock operation per step",

    - [lock_tty_wrapper]'s [with _tty_lock, _tty_lock:] ([utils.py:224-234], same
      pattern in [get_fg_bg_colors] / [get_terminal_name_version], [utils.py:505,539]):
      read the global; acquire; read the global again; acquire; body; release; release;
    - [_process_start_wrapper] ([utils.py:750-791]): read the global; acquire;
      [isinstance(_tty_lock, _rlock_type)]: if it still is the thread lock, replace the
      global by a new [multiprocessing.RLock]; hand the (new) global to the child;
      release; start the child;
    - [_process_run_wrapper] ([utils.py:795-804]): the child process begins with the lock
      it was handed as its global.

    Lock references are [LT] (the thread [RLock] the module starts with, [utils.py:812])
    and [LM] (the shared [multiprocessing.RLock]); both are re-entrant (owner, count)
    objects of [lib/Sched.v], owned by a thread (of whatever process).  Every process [p]
    has its own global [cur p]; threads are numbered globally, [proc t] is the process of
    thread [t] (0 = the root process); the threads of a child process can move once it
    has been started.  One designated identifier ([term_tid]) is not a thread but the
    terminal: a FIFO that turns queued requests into queued replies when scheduled.

    A thread runs a program of [CCall d io] (a call of a [lock_tty]-decorated function
    that re-enters [d] times; the innermost body optionally queries the terminal) and
    [CStart c] ([Process.start()] of child process [c]) — a start is a command of its
    own, never issued from inside a body (the documented exclusion).

    [single cf = true] is the hypothetical variant with ONE [with] item, used only for
    the refutation [second_acquire_needed_refuted].

    One micro-step of a thread = a thread-local transition [next] (which depends on the
    thread's own state, the value of ITS process's global and, for a read of the reply
    queue, the oldest reply) that names the ONE global effect of the step ([action]),
    and [apply], which performs that effect on the shared state (and blocks: a lock held
    by somebody else, no reply yet).

    Definitions only; proofs are in [proofs/LocksProofs.v]. *)
From Coq Require Import List Arith Bool Lia.
Import ListNotations.
From TI Require Import lib.Sched.

Inductive lref := LT | LM.

Definition lref_eqb (a b : lref) : bool :=
  match a, b with LT, LT | LM, LM => true | _, _ => false end.

Inductive cmd :=
| CCall (depth : nat) (io : bool)
| CStart (c : nat).

Inductive pc :=
| PIdle                        (* between commands *)
| PRead1                       (* about to evaluate the 1st [with] item *)
| PAcq1 (l1 : lref)            (* about to [l1.__enter__()] *)
| PRead2 (l1 : lref)           (* about to evaluate the 2nd [with] item *)
| PAcq2 (l1 l2 : lref)         (* about to [l2.__enter__()] *)
| PBody                        (* inside [func], top frame *)
| PWait (n : nat)              (* request [n] written, waiting for the reply *)
| PAfter                       (* [func] about to return *)
| PRel2 (l1 l2 : lref)         (* about to [l2.__exit__()] *)
| PRel1 (l1 : lref)            (* about to [l1.__exit__()] *)
| SRead (c : nat)              (* [_process_start_wrapper]: about to evaluate [with _tty_lock] *)
| SAcq (c : nat) (l : lref)
| SCheck (c : nat) (l : lref)  (* about to evaluate [isinstance(_tty_lock, _rlock_type)] *)
| SSwap (c : nat) (l : lref)   (* about to [_tty_lock = mp_RLock()] *)
| SRel (c : nat) (l h : lref)  (* about to leave the [with]; [h] = lock handed to the child *)
| SStart (c : nat) (h : lref). (* about to call the original [Process.start] *)

Record thread := {
  t_pc : pc;
  t_stack : list (lref * lref);   (* frames whose body is executing: (1st, 2nd) lock *)
  t_togo : nat;                   (* re-entrant calls still to make *)
  t_io : bool;
  t_todo : list cmd;
  t_nreq : nat                    (* requests written so far *)
}.

Inductive event :=
| EAcq (l : lref) | ERel (l : lref)
| EEnter | EExit
| EWrite (n : nat) | EReply (u n : nat)
| ESwap | EStart (c : nat) (h : lref).   (* [h]: the lock handed to the child *)

Record cfg := { proc : nat -> nat; single : bool; term_tid : nat }.

Record state := {
  cur : nat -> lref;              (* per process: the module global [_tty_lock] *)
  started : nat -> bool;          (* per process *)
  lkT : lock;
  lkM : lock;
  reqs : list (nat * nat);        (* terminal input: (thread, request number) *)
  reps : list (nat * nat);        (* terminal output *)
  th : nat -> thread;
  log : list (nat * event)        (* newest first *)
}.

Definition lk (s : state) (l : lref) : lock := match l with LT => lkT s | LM => lkM s end.

Definition set_lk (s : state) (l : lref) (v : lock) : state :=
  {| cur := cur s; started := started s;
     lkT := match l with LT => v | LM => lkT s end;
     lkM := match l with LM => v | LT => lkM s end;
     reqs := reqs s; reps := reps s; th := th s; log := log s |}.

Definition set_th (s : state) (t : nat) (x : thread) (ev : list event) : state :=
  {| cur := cur s; started := started s; lkT := lkT s; lkM := lkM s;
     reqs := reqs s; reps := reps s; th := upd (th s) t x;
     log := rev (map (pair t) ev) ++ log s |}.

Definition set_cur (s : state) (p : nat) (l : lref) : state :=
  {| cur := upd (cur s) p l; started := started s; lkT := lkT s; lkM := lkM s;
     reqs := reqs s; reps := reps s; th := th s; log := log s |}.

Definition set_started (s : state) (p : nat) : state :=
  {| cur := cur s; started := upd (started s) p true; lkT := lkT s; lkM := lkM s;
     reqs := reqs s; reps := reps s; th := th s; log := log s |}.

Definition set_io (s : state) (rq rp : list (nat * nat)) : state :=
  {| cur := cur s; started := started s; lkT := lkT s; lkM := lkM s;
     reqs := rq; reps := rp; th := th s; log := log s |}.

Definition with_pc (x : thread) (p : pc) : thread :=
  {| t_pc := p; t_stack := t_stack x; t_togo := t_togo x; t_io := t_io x;
     t_todo := t_todo x; t_nreq := t_nreq x |}.

Definition with_stack (x : thread) (p : pc) (st : list (lref * lref)) : thread :=
  {| t_pc := p; t_stack := st; t_togo := t_togo x; t_io := t_io x;
     t_todo := t_todo x; t_nreq := t_nreq x |}.

(** the one effect a micro-step has on the shared state *)
Inductive action :=
| ANone                          (* thread-local (incl. a read of the global) *)
| AAcq (l : lref)                (* [l.acquire()]: blocks while owned by another thread *)
| ARel (l : lref)                (* [l.release()] *)
| ASwap                          (* [_tty_lock = mp_RLock()] in the caller's process *)
| AStart (c : nat) (h : lref)    (* the original [Process.start]: child [c] begins with [h] *)
| AWrite (n : nat)               (* write request [n] to the terminal *)
| ARead.                         (* consume the oldest reply; blocks while there is none *)

(** thread-local transition: [sg] = single-[with] variant, [c] = the value of the
    module global [_tty_lock] in the thread's process, [r] = the oldest unread reply *)
Definition next (sg : bool) (c : lref) (r : option (nat * nat)) (x : thread)
  : option (action * thread * list event) :=
  match t_pc x with
  | PIdle =>
    match t_todo x with
    | [] => None
    | CCall d io :: rest =>
      Some (ANone, {| t_pc := PRead1; t_stack := t_stack x; t_togo := d; t_io := io;
                      t_todo := rest; t_nreq := t_nreq x |}, [])
    | CStart ch :: rest =>
      Some (ANone, {| t_pc := SRead ch; t_stack := t_stack x; t_togo := t_togo x;
                      t_io := t_io x; t_todo := rest; t_nreq := t_nreq x |}, [])
    end
  (* [with _tty_lock, _tty_lock:]  utils.py:232 *)
  | PRead1 => Some (ANone, with_pc x (PAcq1 c), [])
  | PAcq1 l1 =>
    if sg then Some (AAcq l1, with_stack x PBody ((l1, l1) :: t_stack x), [EAcq l1; EEnter])
    else Some (AAcq l1, with_pc x (PRead2 l1), [EAcq l1])
  | PRead2 l1 => Some (ANone, with_pc x (PAcq2 l1 c), [])
  | PAcq2 l1 l2 =>
    Some (AAcq l2, with_stack x PBody ((l1, l2) :: t_stack x), [EAcq l2; EEnter])
  (* [return func(...)]  utils.py:234 *)
  | PBody =>
    match t_togo x with
    | S d => Some (ANone, {| t_pc := PRead1; t_stack := t_stack x; t_togo := d;
                             t_io := t_io x; t_todo := t_todo x; t_nreq := t_nreq x |}, [])
    | 0 =>
      if t_io x then
        Some (AWrite (t_nreq x),
              {| t_pc := PWait (t_nreq x); t_stack := t_stack x; t_togo := 0;
                 t_io := t_io x; t_todo := t_todo x; t_nreq := S (t_nreq x) |},
              [EWrite (t_nreq x)])
      else Some (ANone, with_pc x PAfter, [])
    end
  | PWait n =>
    match r with
    | None => None
    | Some rp => Some (ARead, with_pc x PAfter, [EReply (fst rp) (snd rp)])
    end
  | PAfter =>
    match t_stack x with
    | [] => None
    | (l1, l2) :: rest =>
      Some (ANone, with_stack x (if sg then PRel1 l1 else PRel2 l1 l2) rest, [EExit])
    end
  (* the two [__exit__]s, innermost first *)
  | PRel2 l1 l2 => Some (ARel l2, with_pc x (PRel1 l1), [ERel l2])
  | PRel1 l1 =>
    Some (ARel l1, with_pc x (match t_stack x with [] => PIdle | _ => PAfter end), [ERel l1])
  (* [_process_start_wrapper]  utils.py:759-779, 791 *)
  | SRead ch => Some (ANone, with_pc x (SAcq ch c), [])
  | SAcq ch l => Some (AAcq l, with_pc x (SCheck ch l), [EAcq l])
  | SCheck ch l =>
    Some (ANone, with_pc x (match c with
                            | LT => SSwap ch l
                            | LM => SRel ch l LM   (* [self._tty_lock = _tty_lock] *)
                            end), [])
  | SSwap ch l => Some (ASwap, with_pc x (SRel ch l LM), [ESwap])
  | SRel ch l h => Some (ARel l, with_pc x (SStart ch h), [ERel l])
  | SStart ch h => Some (AStart ch h, with_pc x PIdle, [EStart ch h])
  end.

(** the effect on the shared state; [None] = the thread has to wait *)
Definition apply (cf : cfg) (s : state) (t : nat) (a : action) : option state :=
  match a with
  | ANone => Some s
  | AAcq l => if can_acquire (lk s l) t then Some (set_lk s l (acquire (lk s l) t)) else None
  | ARel l => Some (set_lk s l (release (lk s l)))
  | ASwap => Some (set_cur s (proc cf t) LM)
  | AStart c h =>
    (* the child begins with the handed lock as its global ([_process_run_wrapper]);
       [Process.start] refuses to start a process twice (and there is no process object
       for a running process to call it on) *)
    if started s c then Some s else Some (set_started (set_cur s c h) c)
  | AWrite n => Some (set_io s (reqs s ++ [(t, n)]) (reps s))
  | ARead => match reps s with [] => None | _ :: rest => Some (set_io s (reqs s) rest) end
  end.

Definition step (cf : cfg) (s : state) (t : nat) : option state :=
  if Nat.eqb t (term_tid cf) then
    (* the terminal answers the oldest request *)
    match reqs s with
    | [] => None
    | r :: rest => Some (set_io s rest (reps s ++ [r]))
    end
  else if negb (started s (proc cf t)) then None
  else
    match next (single cf) (cur s (proc cf t)) (hd_error (reps s)) (th s t) with
    | None => None
    | Some (a, x', ev) =>
      match apply cf s t a with
      | None => None
      | Some s1 => Some (set_th s1 t x' ev)
      end
    end.

(** only the root process runs; its global is the thread lock; a child process's global
    is whatever it is handed at start (until then it does not matter: [LM]) *)
Definition init (prog : nat -> list cmd) : state :=
  {| cur := fun p => if Nat.eqb p 0 then LT else LM;
     started := fun p => Nat.eqb p 0;
     lkT := free_lock; lkM := free_lock; reqs := []; reps := [];
     th := fun t => {| t_pc := PIdle; t_stack := []; t_togo := 0; t_io := false;
                       t_todo := prog t; t_nreq := 0 |};
     log := [] |}.

(** a thread is executing a synchronized function *)
Definition in_body (s : state) (t : nat) : Prop := t_stack (th s t) <> [].
Definition in_bodyb (s : state) (t : nat) : bool :=
  match t_stack (th s t) with [] => false | _ => true end.

(** ** Coarser grain used by the correspondence.

    The deterministic scheduler of the harness can park a real thread only at calls it
    can intercept (lock [acquire] / [release], body entry and exit, the
    [multiprocessing.RLock] factory, the original [Process.start]); the reads of the
    global cannot be intercepted and happen at the end of the preceding granted step.
    [macro] = one micro-step, then the following read steps. *)
Definition is_read (p : pc) : bool :=
  match p with PRead1 | PRead2 _ | SRead _ | SCheck _ _ => true | _ => false end.

Definition macro (cf : cfg) (s : state) (t : nat) : option state :=
  match step cf s t with
  | None => None
  | Some s1 =>
    if Nat.eqb t (term_tid cf) then Some s1
    else
      let s2 := if is_read (t_pc (th s1 t)) then match step cf s1 t with Some y => y | None => s1 end else s1 in
      let s3 := if is_read (t_pc (th s2 t)) then match step cf s2 t with Some y => y | None => s2 end else s2 in
      Some s3
  end.
