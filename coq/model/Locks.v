(** * Locks — model of the terminal lock and its hand-over to child processes (C14)

    Mirrors, at the grain "one read of the global / one lock operation per step",

    - [lock_tty_wrapper]'s [with _tty_lock, _tty_lock:] ([utils.py:224-234], same
      pattern in [get_fg_bg_colors] / [get_terminal_name_version]):
      read the global; acquire; read the global again; acquire; body; release; release;
    - [_process_start_wrapper] ([utils.py:750-791]): read the global; acquire;
      [isinstance(_tty_lock, _rlock_type)]: if it still is the thread lock, replace the
      global by a new [multiprocessing.RLock]; hand the (new) global to the child;
      release; start the child;
    - [_process_run_wrapper] ([utils.py:795-804]): the child process begins with the lock
      it was handed as its global.

    Lock references are [LT] (the thread [RLock] the module starts with, [utils.py:812])
    and [LM] (the shared [multiprocessing.RLock]); both are re-entrant (owner, count)
    objects of [lib/Sched.v], owned by a thread (of whatever process).  Every process [p]
    has its own global [cur p]; threads are numbered globally, [proc t] is the process of
    thread [t] (0 = the root process); the threads of a child process can move once it
    has been started.  One designated identifier ([term_tid]) is not a thread but the
    terminal: a FIFO that turns queued requests into queued replies when scheduled.

    A thread runs a program of [CCall d io] (a call of a [lock_tty]-decorated function
    that re-enters [d] times; the innermost body optionally queries the terminal) and
    [CStart c] ([Process.start()] of child process [c]) — a start is a command of its
    own, never issued from inside a body (the documented exclusion).

    [single cf = true] is the hypothetical variant with ONE [with] item, used only for
    the refutation [second_acquire_needed].

    Definitions only; proofs are in [proofs/LocksProofs.v]. *)
From Coq Require Import List Arith Bool Lia.
Import ListNotations.
From TI Require Import lib.Sched.

Inductive lref := LT | LM.

Definition lref_eqb (a b : lref) : bool :=
  match a, b with LT, LT | LM, LM => true | _, _ => false end.

Inductive cmd :=
| CCall (depth : nat) (io : bool)
| CStart (c : nat).

Inductive pc :=
| PIdle                        (* between commands *)
| PRead1                       (* about to evaluate the 1st [with] item *)
| PAcq1 (l1 : lref)            (* about to [l1.__enter__()] *)
| PRead2 (l1 : lref)           (* about to evaluate the 2nd [with] item *)
| PAcq2 (l1 l2 : lref)         (* about to [l2.__enter__()] *)
| PBody                        (* inside [func], top frame *)
| PWait (n : nat)              (* request [n] written, waiting for the reply *)
| PAfter                       (* [func] about to return *)
| PRel2 (l1 l2 : lref)         (* about to [l2.__exit__()] *)
| PRel1 (l1 : lref)            (* about to [l1.__exit__()] *)
| SRead (c : nat)              (* [_process_start_wrapper]: about to evaluate [with _tty_lock] *)
| SAcq (c : nat) (l : lref)
| SCheck (c : nat) (l : lref)  (* about to evaluate [isinstance(_tty_lock, _rlock_type)] *)
| SSwap (c : nat) (l : lref)   (* about to [_tty_lock = mp_RLock()] *)
| SRel (c : nat) (l h : lref)  (* about to leave the [with]; [h] = lock handed to the child *)
| SStart (c : nat) (h : lref). (* about to call the original [Process.start] *)

Record thread := {
  t_pc : pc;
  t_stack : list (lref * lref);   (* frames whose body is executing: (1st, 2nd) lock *)
  t_togo : nat;                   (* re-entrant calls still to make *)
  t_io : bool;
  t_todo : list cmd;
  t_nreq : nat                    (* requests written so far *)
}.

Inductive event :=
| EAcq (l : lref) | ERel (l : lref)
| EEnter | EExit
| EWrite (n : nat) | EReply (u n : nat)
| ESwap | EStart (c : nat).

Record cfg := { proc : nat -> nat; single : bool; term_tid : nat }.

Record state := {
  cur : nat -> lref;              (* per process: the module global [_tty_lock] *)
  started : nat -> bool;          (* per process *)
  lkT : lock;
  lkM : lock;
  reqs : list (nat * nat);        (* terminal input: (thread, request number) *)
  reps : list (nat * nat);        (* terminal output *)
  th : nat -> thread;
  log : list (nat * event)        (* newest first *)
}.

Definition lk (s : state) (l : lref) : lock := match l with LT => lkT s | LM => lkM s end.

Definition set_lk (s : state) (l : lref) (v : lock) : state :=
  {| cur := cur s; started := started s;
     lkT := match l with LT => v | LM => lkT s end;
     lkM := match l with LM => v | LT => lkM s end;
     reqs := reqs s; reps := reps s; th := th s; log := log s |}.

Definition set_th (s : state) (t : nat) (x : thread) (ev : list event) : state :=
  {| cur := cur s; started := started s; lkT := lkT s; lkM := lkM s;
     reqs := reqs s; reps := reps s; th := upd (th s) t x;
     log := rev (map (pair t) ev) ++ log s |}.

Definition with_pc (x : thread) (p : pc) : thread :=
  {| t_pc := p; t_stack := t_stack x; t_togo := t_togo x; t_io := t_io x;
     t_todo := t_todo x; t_nreq := t_nreq x |}.

Definition step (cf : cfg) (s : state) (t : nat) : option state :=
  if Nat.eqb t (term_tid cf) then
    (* the terminal answers the oldest request *)
    match reqs s with
    | [] => None
    | r :: rest =>
      Some {| cur := cur s; started := started s; lkT := lkT s; lkM := lkM s;
              reqs := rest; reps := reps s ++ [r]; th := th s; log := log s |}
    end
  else if negb (started s (proc cf t)) then None
  else
    let x := th s t in
    let p := proc cf t in
    match t_pc x with
    | PIdle =>
      match t_todo x with
      | [] => None
      | CCall d io :: rest =>
        Some (set_th s t {| t_pc := PRead1; t_stack := t_stack x; t_togo := d; t_io := io;
                            t_todo := rest; t_nreq := t_nreq x |} [])
      | CStart c :: rest =>
        Some (set_th s t {| t_pc := SRead c; t_stack := t_stack x; t_togo := t_togo x;
                            t_io := t_io x; t_todo := rest; t_nreq := t_nreq x |} [])
      end
    | PRead1 => Some (set_th s t (with_pc x (PAcq1 (cur s p))) [])
    | PAcq1 l1 =>
      if can_acquire (lk s l1) t then
        if single cf then
          Some (set_th (set_lk s l1 (acquire (lk s l1) t)) t
                       {| t_pc := PBody; t_stack := (l1, l1) :: t_stack x; t_togo := t_togo x;
                          t_io := t_io x; t_todo := t_todo x; t_nreq := t_nreq x |}
                       [EAcq l1; EEnter])
        else Some (set_th (set_lk s l1 (acquire (lk s l1) t)) t (with_pc x (PRead2 l1)) [EAcq l1])
      else None
    | PRead2 l1 => Some (set_th s t (with_pc x (PAcq2 l1 (cur s p))) [])
    | PAcq2 l1 l2 =>
      if can_acquire (lk s l2) t then
        Some (set_th (set_lk s l2 (acquire (lk s l2) t)) t
                     {| t_pc := PBody; t_stack := (l1, l2) :: t_stack x; t_togo := t_togo x;
                        t_io := t_io x; t_todo := t_todo x; t_nreq := t_nreq x |}
                     [EAcq l2; EEnter])
      else None
    | PBody =>
      match t_togo x with
      | S d => Some (set_th s t {| t_pc := PRead1; t_stack := t_stack x; t_togo := d;
                                   t_io := t_io x; t_todo := t_todo x; t_nreq := t_nreq x |} [])
      | 0 =>
        if t_io x then
          Some (set_th {| cur := cur s; started := started s; lkT := lkT s; lkM := lkM s;
                          reqs := reqs s ++ [(t, t_nreq x)]; reps := reps s; th := th s;
                          log := log s |} t
                       {| t_pc := PWait (t_nreq x); t_stack := t_stack x; t_togo := 0;
                          t_io := t_io x; t_todo := t_todo x; t_nreq := S (t_nreq x) |}
                       [EWrite (t_nreq x)])
        else Some (set_th s t (with_pc x PAfter) [])
      end
    | PWait n =>
      match reps s with
      | [] => None
      | r :: rest =>
        Some (set_th {| cur := cur s; started := started s; lkT := lkT s; lkM := lkM s;
                        reqs := reqs s; reps := rest; th := th s; log := log s |} t
                     (with_pc x PAfter) [EReply (fst r) (snd r)])
      end
    | PAfter =>
      match t_stack x with
      | [] => None
      | (l1, l2) :: rest =>
        Some (set_th s t {| t_pc := if single cf then PRel1 l1 else PRel2 l1 l2; t_stack := rest;
                            t_togo := t_togo x; t_io := t_io x; t_todo := t_todo x;
                            t_nreq := t_nreq x |} [EExit])
      end
    | PRel2 l1 l2 =>
      Some (set_th (set_lk s l2 (release (lk s l2))) t (with_pc x (PRel1 l1)) [ERel l2])
    | PRel1 l1 =>
      Some (set_th (set_lk s l1 (release (lk s l1))) t
                   (with_pc x (match t_stack x with [] => PIdle | _ => PAfter end)) [ERel l1])
    | SRead c => Some (set_th s t (with_pc x (SAcq c (cur s p))) [])
    | SAcq c l =>
      if can_acquire (lk s l) t then
        Some (set_th (set_lk s l (acquire (lk s l) t)) t (with_pc x (SCheck c l)) [EAcq l])
      else None
    | SCheck c l =>
      Some (set_th s t (with_pc x (match cur s p with
                                   | LT => SSwap c l
                                   | LM => SRel c l LM   (* [self._tty_lock = _tty_lock] *)
                                   end)) [])
    | SSwap c l =>
      Some (set_th {| cur := upd (cur s) p LM; started := started s; lkT := lkT s; lkM := lkM s;
                      reqs := reqs s; reps := reps s; th := th s; log := log s |} t
                   (with_pc x (SRel c l LM)) [ESwap])
    | SRel c l h =>
      Some (set_th (set_lk s l (release (lk s l))) t (with_pc x (SStart c h)) [ERel l])
    | SStart c h =>
      (* the child begins with the handed lock as its global ([_process_run_wrapper]) *)
      Some (set_th {| cur := upd (cur s) c h; started := upd (started s) c true;
                      lkT := lkT s; lkM := lkM s; reqs := reqs s; reps := reps s;
                      th := th s; log := log s |} t (with_pc x PIdle) [EStart c])
    end.

(** only the root process runs; its global is the thread lock; a child process's global
    is whatever it is handed at start (until then it does not matter: [LM]) *)
Definition init (prog : nat -> list cmd) : state :=
  {| cur := fun p => if Nat.eqb p 0 then LT else LM;
     started := fun p => Nat.eqb p 0;
     lkT := free_lock; lkM := free_lock; reqs := []; reps := [];
     th := fun t => {| t_pc := PIdle; t_stack := []; t_togo := 0; t_io := false;
                       t_todo := prog t; t_nreq := 0 |};
     log := [] |}.

(** a thread is executing a synchronized function *)
Definition in_body (s : state) (t : nat) : Prop := t_stack (th s t) <> [].
Definition in_bodyb (s : state) (t : nat) : bool :=
  match t_stack (th s t) with [] => false | _ => true end.

(** ** Coarser grain used by the correspondence.

    The deterministic scheduler of the harness can park a real thread only at calls it
    can intercept (lock [acquire] / [release], body entry and exit, the
    [multiprocessing.RLock] factory, the original [Process.start]); the reads of the
    global cannot be intercepted and happen at the end of the preceding granted step.
    [macro] = one micro-step, then the following read steps. *)
Definition is_read (p : pc) : bool :=
  match p with PRead1 | PRead2 _ | SRead _ | SCheck _ _ => true | _ => false end.

Definition macro (cf : cfg) (s : state) (t : nat) : option state :=
  match step cf s t with
  | None => None
  | Some s1 =>
    if Nat.eqb t (term_tid cf) then Some s1
    else
      let s2 := if is_read (t_pc (th s1 t)) then match step cf s1 t with Some y => y | None => s1 end else s1 in
      let s3 := if is_read (t_pc (th s2 t)) then match step cf s2 t with Some y => y | None => s2 end else s2 in
      Some s3
  end.
