(** C03 — executable model of the graphics-protocol framing of term-image.

    Mirrors, branch for branch:
      src/term_image/image/kitty.py
        Transmission.get_chunks            535-549   [chunks]
        Transmission.__post_init__/compress 510-521  [maybe_compress], the [o] key
        Transmission.get_control_data      551-556   [ctrl_items]
        ControlData                        603-623   [ctrl]
        KittyImage._render_image           434-489   [kitty_ctrl], [strips], [kitty_layout]
      src/term_image/image/iterm2.py
        ITerm2Image._render_image          590-783   [iterm2_branch], [read_from_file_gate],
                                                     [iterm2_format], [iterm2_header]
      src/term_image/image/common.py
        GraphicsImage._get_minimal_render_size 1883-1901, _get_render_size 1903-1904
        BaseImage._get_render_data (mode decision only) 1495-1509   [out_rgba]

    Definitions only.  The chunk size, the control-key set with its defaults and the
    iterm2 header templates are NOT written here: they are translated from the source
    into gen/Consts.v on every run.  base64 / zlib / PNG are not modelled: they are
    [Section] variables of proofs/KittyChunksProofs.v. *)
From Coq Require Import String.
From Coq Require Import List ZArith Bool Arith.
Import ListNotations.
From TI Require Import gen.Consts.

Set Implicit Arguments.
Local Open Scope string_scope.
Local Open Scope nat_scope.

(* ------------------------------------------------------------------ chunking *)

Section Chunks.
  Variable C : Type.                       (* base64 characters *)

  (** [io.StringIO.read(size)]: the next [size] characters (fewer at the end, none after
      it) and the advanced stream *)
  Definition read (size : nat) (s : list C) : list C * list C := (firstn size s, skipn size s).

  Definition nonempty (l : list C) : bool := match l with [] => false | _ => true end.

  (** a chunk as written: does it carry the control keys? / the m flag / the data *)
  Definition chunk : Type := (bool * bool * list C)%type.

  (** kitty.py:543-549 — the state is (chunk, next_chunk, rest of the stream);
        while next_chunk: yield m=1 chunk; chunk, next_chunk = next_chunk, read(size)
        if chunk: yield m=0 chunk
      [fuel] bounds the number of iterations (the length of the payload is enough
      when size > 0, see [chunks_fuel_irrelevant]); out of fuel yields nothing. *)
  Fixpoint chunk_loop (fuel size : nat) (chunk_ next_chunk rest : list C) : list chunk :=
    if nonempty next_chunk then
      match fuel with
      | 0 => []
      | S fuel' =>
          (false, true, chunk_)
            :: (let (nn, rest') := read size rest in chunk_loop fuel' size next_chunk nn rest')
      end
    else if nonempty chunk_ then [(false, false, chunk_)] else [].

  (** kitty.py:535-549 *)
  Definition chunks (size : nat) (payload : list C) : list chunk :=
    let (chunk_, r1) := read size payload in          (* 537 *)
    let (next_chunk, r2) := read size r1 in
    (true, nonempty next_chunk, chunk_)               (* 538-541: keys + m=bool(next_chunk) *)
      :: (let (nn, r3) := read size r2 in             (* 543 *)
          chunk_loop (length payload) size next_chunk nn r3).

  Definition chunk_data (c : chunk) : list C := snd c.
  Definition chunk_m (c : chunk) : bool := snd (fst c).
  Definition chunk_first (c : chunk) : bool := fst (fst c).
  (** what the terminal reassembles *)
  Definition reassemble (cs : list chunk) : list C := concat (map chunk_data cs).
End Chunks.

(* ------------------------------------------------------------- LINES strips *)

Section Strips.
  Variable B : Type.                       (* raw image bytes *)

  (** kitty.py:462-476 — [raw_image.read(bytes_per_line)] once, then once more per
      remaining line ([for _ in range(r_height - 1)]) *)
  Fixpoint strips_from (n bpl : nat) (s : list B) : list (list B) :=
    match n with
    | 0 => []
    | S k => firstn bpl s :: strips_from k bpl (skipn bpl s)
    end.
  Definition strips (raw : list B) (bpl r_height : nat) : list (list B) :=
    firstn bpl raw :: strips_from (r_height - 1) bpl (skipn bpl raw).
End Strips.

(* --------------------------------------------------------------- geometry *)

Inductive method := Lines | Whole | Anim.
Definition method_eqb (a b : method) : bool :=
  match a, b with Lines, Lines | Whole, Whole | Anim, Anim => true | _, _ => false end.

(** common.py:1903-1904 — rendered size (cells) x cell size (pixels) *)
Definition render_size (rw rh cw ch : nat) : nat * nat := (rw * cw, rh * ch).

(** common.py:1883-1890 ([adjust] is False at both call sites) *)
Definition minimal_render_size (rs os : nat * nat) : nat * nat :=
  if fst rs * snd rs <? fst os * snd os then rs else os.

(** kitty.py:436-440, iterm2.py:660-664 *)
Definition pixel_size (m : method) (rw rh cw ch : nat) (os : nat * nat) : nat * nat :=
  match m with
  | Whole => minimal_render_size (render_size rw rh cw ch) os
  | _ => render_size rw rh cw ch
  end.

(** kitty.py:458-459, iterm2.py:722-723 *)
Definition cell_height (height r_height : nat) : nat := height / r_height.
Definition bytes_per_line (width height r_height bpp : nat) : nat :=
  width * cell_height height r_height * bpp.

(** common.py:1495-1509 with pixel_data=False, round_alpha=False: is the image handed
    to the encoder RGBA (else RGB)?  [alpha]: 0 = None, 1 = float, 2 = colour string;
    [opaque_mode]: the source mode is one of 1, L, RGB, HSV, CMYK *)
Definition out_rgba (alpha : nat) (opaque_mode : bool) : bool :=
  if (alpha =? 0) || opaque_mode then false
  else if alpha =? 2 then false else true.

(* ---------------------------------------------------------------- kitty keys *)

(** kitty.py:603-623 — one field per key of the dataclass *)
Record ctrl := {
  k_a : option kval; k_f : option kval; k_t : option kval; k_s : option kval;
  k_v : option kval; k_z : option kval; k_o : option kval; k_C : option kval;
  k_c : option kval; k_r : option kval
}.

Definition default_of (k : string) : option kval :=
  match find (fun p => String.eqb (fst p) k) kitty_key_defaults with
  | Some (_, v) => v
  | None => None
  end.

(** ControlData() — the defaults are the translated ones *)
Definition ctrl_default : ctrl :=
  {| k_a := default_of "a"; k_f := default_of "f"; k_t := default_of "t";
     k_s := default_of "s"; k_v := default_of "v"; k_z := default_of "z";
     k_o := default_of "o"; k_C := default_of "C"; k_c := default_of "c";
     k_r := default_of "r" |}.

Definition ctrl_get (c : ctrl) (k : string) : option kval :=
  if String.eqb k "a" then k_a c else if String.eqb k "f" then k_f c
  else if String.eqb k "t" then k_t c else if String.eqb k "s" then k_s c
  else if String.eqb k "v" then k_v c else if String.eqb k "z" then k_z c
  else if String.eqb k "o" then k_o c else if String.eqb k "C" then k_C c
  else if String.eqb k "c" then k_c c else if String.eqb k "r" then k_r c
  else None.

(** kitty.py:551-556 — [asdict] order = field order = the translated key list; None
    values are skipped *)
Definition ctrl_items (c : ctrl) : list (string * kval) :=
  flat_map (fun k => match ctrl_get c k with Some v => [(k, v)] | None => [] end) kitty_keys.

Definition kint (n : nat) : option kval := Some (KInt (Z.of_nat n)).

(** kitty.py:453 ControlData(f=format, s=width, c=r_width, z=z_index), 621-623
    __post_init__ (f = PNG drops s and v), 460 / 481 the update of v and r, and
    510-521 the [o] key set by Transmission (level 0: None, otherwise ZLIB) *)
Definition kitty_ctrl (m : method) (fmt : Z) (width height rw rh : nat) (z : Z) (level : nat) : ctrl :=
  let d := ctrl_default in
  let s0 := if Z.eqb fmt kitty_f_png then None else kint width in
  let v1 := match m with Lines => kint (cell_height height rh) | _ => kint height end in
  let r1 := match m with Lines => kint 1 | _ => kint rh end in
  {| k_a := k_a d; k_f := Some (KInt fmt); k_t := k_t d; k_s := s0; k_v := v1;
     k_z := Some (KInt z);
     k_o := if level =? 0 then None else Some (KChr kitty_o_zlib);
     k_C := k_C d; k_c := kint rw; k_r := r1 |}.

(** bytes per pixel of a raw format: kitty.py:459 [format // 8] *)
Definition bpp_of_fmt (fmt : Z) : nat := Z.to_nat (fmt / 8).

(* ------------------------------------------------------------- kitty layout *)

Section KittyLayout.
  Variable C : Type.
  (** what is written, in order; text around the graphics commands is kept only as
      markers (its geometry is C01's business) *)
  Inductive item :=
  | IDelCursor                                   (* KITTY_DELETE_CURSOR *)
  | IChunk (keys : list (string * kval)) (m : bool) (data : list C)
  | IFillNl                                      (* fill + "\n" *)
  | IFill.

  (** one Transmission written chunk by chunk; the first chunk carries the keys *)
  Definition emit_transmission (size : nat) (c : ctrl) (payload : list C) : list item :=
    map (fun ch : chunk C =>
           IChunk (if chunk_first ch then ctrl_items c else []) (chunk_m ch) (chunk_data ch))
        (chunks size payload).

  (** kitty.py:457-489; [tx i] = the chunks of the i-th transmission *)
  Definition kitty_layout (m : method) (rh : nat) (blend : bool) (tx : nat -> list item) : list item :=
    let del := if blend then [] else [IDelCursor] in
    match m with
    | Lines =>
        del ++ tx 0
          ++ flat_map (fun i => IFillNl :: del ++ tx i) (seq 1 (rh - 1))
          ++ [IFill]
    | _ => del ++ tx 0 ++ repeat IFillNl (rh - 1) ++ [IFill]
    end.
End KittyLayout.

Arguments IDelCursor {C}.
Arguments IFillNl {C}.
Arguments IFill {C}.

(* ------------------------------------------------------------------- iterm2 *)

(** iterm2.py:607 / 660-716 / 718 / 756 — which of the three output branches is taken:
    native animation, per-line, or one whole image.  ANIM on a non-animated image or on
    an iterator frame is NOT native: it falls to the last branch (with the full render
    size, not the minimal one, since [render_method == WHOLE] is false). *)
Inductive ibranch := BNative | BLines | BWhole.
Definition iterm2_branch (m : method) (animated frame : bool) : ibranch :=
  if method_eqb m Anim && animated && negb frame then BNative
  else if method_eqb m Lines then BLines else BWhole.

(** The render method in force after the native-animation branch.  The documentation
    says that ANIM on a non-animated image or on an iterator frame "uses the WHOLE render
    method instead"; the code does so exactly when the statement
    [if render_method == ANIM: render_method = WHOLE] follows the native branch, which is
    what the translated constant [iterm2_anim_falls_back] records.  Everything below
    (minimal render size, read-from-file) tests this effective method. *)
Definition iterm2_effective_method (m : method) (animated frame : bool) : method :=
  match iterm2_branch m animated frame, m with
  | BWhole, Anim => if iterm2_anim_falls_back then Whole else Anim
  | _, _ => m
  end.

(** iterm2.py:666-680.  [mode_class]: 0 = one of 1 L RGB HSV CMYK, 1 = P or PA,
    2 = anything else; [alpha] as in [out_rgba]. *)
Definition read_from_file_gate (rff animated readable : bool) (m : method)
           (orig_area render_area : nat) (mode_class alpha : nat) : bool :=
  rff && negb animated && readable && method_eqb m Whole
  && (orig_area <=? render_area)
  && ((mode_class =? 0) || ((alpha =? 1) && negb (mode_class =? 1))).

(** iterm2.py:695-700: JPEG (true) or PNG *)
Definition iterm2_jpeg (jpeg_quality : Z) (rgba : bool) : bool :=
  (0 <=? jpeg_quality)%Z && negb rgba.

(** header values: literal text or a number *)
Inductive hval := VLit (s : string) | VNum (n : nat).
Definition eval_hpart (size cols rows : nat) (konsole : bool) (p : hpart) : list hval :=
  match p with
  | HLit s => [VLit s]
  | HSize => [VNum size]
  | HCols => [VNum cols]
  | HRows => [VNum rows]
  | HIfKonsole s => if konsole then [VLit s] else []
  end.
Definition iterm2_header (b : ibranch) (size cols rows : nat) (konsole : bool) : list hval :=
  flat_map (eval_hpart size cols rows konsole)
           (match b with
            | BNative => iterm2_anim_header
            | BLines => iterm2_lines_header
            | BWhole => iterm2_whole_header
            end).

(* ------------------------------------------- sender / receiver (codecs abstract) *)

Section Codec.
  Variables B C : Type.                    (* raw bytes / base64 characters *)
  Variable b64 : list B -> list C.         (* base64.standard_b64encode *)
  Variable unb64 : list C -> list B.
  Variable zl : nat -> list B -> list B.   (* zlib.compress(data, level) *)
  Variable unzl : list B -> list B.

  (** kitty.py:510-521 *)
  Definition maybe_compress (level : nat) (data : list B) : list B :=
    if level =? 0 then data else zl level data.

  (** a Transmission of [data] written with control data [c] (whose [o] key is the one
      [kitty_ctrl] computes for the same [level]) *)
  Definition transmit (size : nat) (c : ctrl) (level : nat) (data : list B) : list (item C) :=
    emit_transmission size c (b64 (maybe_compress level data)).

  Definition item_data (i : item C) : list C :=
    match i with IChunk _ _ d => d | _ => [] end.
  Definition first_keys (l : list (item C)) : list (string * kval) :=
    match l with IChunk k _ _ :: _ => k | _ => [] end.
  Definition has_key (k : string) (keys : list (string * kval)) : bool :=
    existsb (fun p => String.eqb (fst p) k) keys.

  (** the terminal's side (specification): concatenate the chunk payloads, decode,
      decompress iff the first chunk said o=z *)
  Definition receive (l : list (item C)) : list B :=
    let p := unb64 (concat (map item_data l)) in
    if has_key "o" (first_keys l) then unzl p else p.

  (** iterm2: header + payload for encoded image bytes [data] *)
  Definition iterm2_emit (b : ibranch) (cols rows : nat) (konsole : bool) (data : list B)
    : list hval * list C :=
    (iterm2_header b (length data) cols rows konsole, b64 data).
End Codec.
