(** * Block — model of [BlockImage._render_image] ([block.py:54-176])

    From the pixel data that [_get_render_data] returned ([rgb], [a] at render
    resolution: two pixel rows per line) to the token stream written into the buffer.
    Mirrors the run-length loop: cluster state [(cluster1, cluster2, a_cluster1,
    a_cluster2, n)], [update_buffer()], [SGR0 + LF] between lines, final [SGR0],
    NUL cell separators for [split_cells] (the last one of each line overwritten). *)
From Coq Require Import List ZArith Bool Lia.
Import ListNotations.
From TI Require Import lib.Term lib.TermFacts.
Open Scope Z_scope.

Definition rgb_eqb (x y : rgb) : bool :=
  let '(r1, g1, b1) := x in let '(r2, g2, b2) := y in
  (r1 =? r2) && (g1 =? g2) && (b1 =? b2).

(** one cell's worth of pixel data: upper pixel, lower pixel, their alpha values *)
Record px := { p1 : rgb; p2 : rgb; a1 : Z; a2 : Z }.

Section Block.
Variable alpha : bool.            (* [img.mode == "RGBA"] after [_get_render_data] *)
Variable kitty : bool.            (* [self._is_on_kitty()] *)
Variable bgcol : option rgb.      (* [get_fg_bg_colors()[1]] *)
Variable split : bool.            (* [split_cells] *)

(** [r += r < 255 or -1] *)
Definition nudge (c : rgb) : rgb :=
  let '(r, g, b) := c in ((if r <? 255 then r + 1 else r - 1), g, b).

Definition is_bg (c : rgb) : bool :=
  match bgcol with Some b => rgb_eqb c b | None => false end.

(** [update_buffer()], [block.py:66-93] *)
Definition update_buffer (c1 c2 : rgb) (ac1 ac2 : Z) (n : nat) : list tok :=
  if alpha && (ac1 =? 0) && (ac2 =? 0) then
    TSgr0 :: glyphs split GSpace n
  else if alpha && (ac1 =? 0) then
    TSgr0 :: TFg c2 :: glyphs split GLower n
  else if alpha && (ac2 =? 0) then
    TSgr0 :: TFg c1 :: glyphs split GUpper n
  else
    TBg (if kitty && is_bg c2 then nudge c2 else c2)
    :: (if rgb_eqb c1 c2 then glyphs split GSpace n
        else TFg c1 :: glyphs split GUpper n).

(** the condition of [block.py:144-156] *)
Definition flush_cond (c1 c2 : rgb) (ac1 ac2 : Z) (p : px) : bool :=
  negb (alpha && (a1 p =? ac1) && (ac1 =? 0) && (0 =? ac2) && (ac2 =? a2 p))
  && (negb (rgb_eqb (p1 p) c1)
      || negb (rgb_eqb (p2 p) c2)
      || alpha && (negb (ac1 =? a1 p) && (a1 p =? 0)
                   || negb (ac2 =? a2 p) && (a2 p =? 0)
                   || (0 =? ac1) && negb (ac1 =? a1 p)
                   || (0 =? ac2) && negb (ac2 =? a2 p))).

(** the inner [for] over one line's pixel pairs, then the trailing [update_buffer()] *)
Fixpoint line_loop (c1 c2 : rgb) (ac1 ac2 : Z) (n : nat) (pxs : list px) : list tok :=
  match pxs with
  | [] => update_buffer c1 c2 ac1 ac2 n
  | p :: rest =>
    if flush_cond c1 c2 ac1 ac2 p then
      update_buffer c1 c2 ac1 ac2 n
      ++ line_loop (p1 p) (p2 p) (if alpha then a1 p else ac1) (if alpha then a2 p else ac2)
                   1 rest
    else line_loop c1 c2 ac1 ac2 (S n) rest
  end.

(** one line: the cluster starts as the line's first pixel pair *)
Definition line (pxs : list px) : list tok :=
  match pxs with
  | [] => []
  | p :: _ =>
    let l := line_loop (p1 p) (p2 p) (a1 p) (a2 p) 0 pxs in
    if split then removelast l else l          (* the last NUL is overwritten *)
  end.

(** the whole render: lines separated by [SGR0 LF], closed by [SGR0] *)
Fixpoint render_lines (rows : list (list px)) : list tok :=
  match rows with
  | [] => []
  | [r] => line r
  | r :: rest => line r ++ [TSgr0; TLF] ++ render_lines rest
  end.

Definition render (rows : list (list px)) : list tok := render_lines rows ++ [TSgr0].

(** ** Specification side: what each cell must show *)

Definition transparent (a : Z) : bool := alpha && (a =? 0).

(** Expected (upper, lower) colours of the cell showing pixel pair [p]: a transparent
    pixel shows the terminal's own background, an opaque one its RGB value — except
    for the documented kitty work-around: a cell painted through the background-colour
    path whose lower colour equals the terminal background has that colour's red
    component moved by one. *)
Definition expect (p : px) : colour * colour :=
  if transparent (a1 p) && transparent (a2 p) then (CBg0, CBg0)
  else if transparent (a1 p) then (CBg0, CRgb (p2 p))
  else if transparent (a2 p) then (CRgb (p1 p), CBg0)
  else
    let low := if kitty && is_bg (p2 p) then nudge (p2 p) else p2 p in
    (CRgb (if rgb_eqb (p1 p) (p2 p) then low else p1 p), CRgb low).

End Block.
