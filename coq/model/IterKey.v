(** * IterKey — the components of a frame-cache entry's validity test (C09, source tie)

    [Iter.key_eqb] (the model of [frame_details != (size, duration, render_args)],
    render/_iterator.py) written as a conjunction over a LIST of components, so that the list
    can be compared with what [harness/tx/tx_cachekey.py] reads in the source
    ([gen/CacheKeySrc.v]).  Definitions only. *)
From Coq Require Import List ZArith Bool.
Import ListNotations.
From TI Require Import model.Iter.

Inductive kfield :=
| KSize    (* [renderable_data.size] *)
| KDur     (* [renderable_data.duration] *)
| KArgs.   (* [self._render_args] *)

(** one component of entry [e] against the current settings ([r]: the renderable data,
    [a]: the render arguments) *)
Definition field_eqb (f : kfield) (e : centry) (r : rdata) (a : Z) : bool :=
  match f with
  | KSize => size_eqb (ce_size e) (d_size r)
  | KDur => dur_eqb (ce_dur e) (d_dur r)
  | KArgs => (ce_args e =? a)%Z
  end.

Definition key_eqb_by (fs : list kfield) (e : centry) (r : rdata) (a : Z) : bool :=
  forallb (fun f => field_eqb f e r a) fs.

(** the entry the code stores next to frame [fr] under the settings [r], [a], one component
    per element of [fs] (components not listed keep those of [e0]) *)
Definition store_by (fs : list kfield) (e0 : centry) (fr : rframe) (r : rdata) (a : Z) : centry :=
  {| ce_frame := fr;
     ce_size := if existsb (fun f => match f with KSize => true | _ => false end) fs then d_size r else ce_size e0;
     ce_dur := if existsb (fun f => match f with KDur => true | _ => false end) fs then d_dur r else ce_dur e0;
     ce_args := if existsb (fun f => match f with KArgs => true | _ => false end) fs then a else ce_args e0 |}.
