(** Executable comparison for the "drawio" family of the C10 correspondence
    (harness/props/c10.py, harness/impl/impl_c10.py: draw() / render() / str() of the
    instrumented renderable on an output stream whose k-th write()/flush() raises, with an
    interrupted sleep, a failing render, or a KeyboardInterrupt delivered asynchronously at
    a line of draw() / _animate_):
      bit 1: the observed entries into renderable-defined code (which, and the
             [RenderData.finalized] each saw), the way the call ended and the number of
             stream / sleep calls differ from model/DrawUse.v;
      bit 2: the observations alone contradict the property: some entry saw finalized data,
             or the finalizer was not entered exactly once per render data object.
    Definitions only. *)
From Coq Require Import List Bool Arith.
Import ListNotations.
From TI Require Import model.DrawUse.

Record dcase := {
  d_op : nat;                      (* 0: draw(); 1: render(); 2: str() *)
  d_n : option nat;                (* frame count; None = INDEFINITE *)
  d_total : nat;                   (* INDEFINITE: frames in the stream *)
  d_loops : nat; d_cache : bool; d_animate : bool;
  d_rfault : option nat;           (* the q-th _render_ call raises *)
  d_io : option (nat * xk);        (* the k-th stream call raises KeyboardInterrupt / OSError *)
  d_sleep : option nat;            (* the j-th sleep call raises KeyboardInterrupt *)
  d_async : bool;                  (* a KeyboardInterrupt was delivered at some line of draw / _animate_: no model *)
  (* observed *)
  d_outcome : nat;                 (* 0 returned, 1 KeyboardInterrupt, 2 OSError of the stream, 3 / 4 the render's exception *)
  d_events : list (nat * bool);    (* entries in order: 0 _render_, 1 _handle_interrupted_draw_, 2 _clear_frame_,
                                      3 _finalize_render_data_; RenderData.finalized at the entry *)
  d_nret : nat;                    (* entries made when the call ended *)
  d_ioc : nat; d_slc : nat;        (* stream calls, sleep calls *)
  d_fins : list nat                (* per render data object created: finalizer calls in the end (after gc) *)
}.

(** * The frame source of the instrumented renderable *)

(** the q-th pull that enters [_render_] fails; nothing is pulled afterwards *)
Fixpoint cut_fault (q : nat) (l : list pull) : list pull :=
  match l with
  | [] => []
  | p :: t =>
    let e := match p with PFrame e | PStop e => e | PErr => true end in
    if e then match q with O => [PErr] | S q' => p :: cut_fault q' t end
    else p :: cut_fault q t
  end.

(** definite: [n * loops] frames, those of the later passes from the cache when caching is on
    ([_animate_] :739 switches it off for a single pass), then the iterator stops by count;
    INDEFINITE: [total] frames, then the renderable's [_render_] raises StopIteration *)
Definition pulls_of (t : dcase) : list pull :=
  let base :=
    match d_n t with
    | Some n =>
      let cached := d_cache t && negb (Nat.eqb (d_loops t) 1) in
      map (fun j => PFrame (negb (cached && Nat.leb n j))) (seq 0 (n * d_loops t)) ++ [PStop false]
    | None => repeat (PFrame true) (d_total t) ++ [PStop true]
    end in
  match d_rfault t with Some q => cut_fault q base | None => base end.

(** a one-off render ([draw] of a still frame, [render], [__str__]: render data made with
    [iteration=False]) renders the current frame whatever the stream position *)
Definition oneoff_pulls (t : dcase) : list pull :=
  match d_rfault t with Some 0 => [PErr] | _ => [PFrame true] end.

Definition danimated (t : dcase) : bool := match d_n t with Some n => Nat.leb 2 n | None => true end.

(** * Model side *)

Definition hook_code (h : hook) : nat :=
  match h with HRender => 0 | HInterrupt => 1 | HClear => 2 | HFinalize => 3 end.
Definition enc_entry (e : hook * bool) : nat * bool := (hook_code (fst e), snd e).
Definition out_class (r : res) : nat := match r with RNorm _ | RRet _ => 0 | RExc XKI _ => 1 | RExc XExc _ => 2 end.
Definition obs_class (o : nat) : nat := match o with 0 => 0 | 1 => 1 | 2 | 3 | 4 => 2 | _ => 9 end.

Definition model_run (nested : bool) (t : dcase) : res * dst :=
  let F := {| f_io := d_io t; f_sleep := d_sleep t |} in
  match d_op t with
  | 0 => let anim := danimated t && d_animate t in
         run_draw F false nested anim (if anim then pulls_of t else oneoff_pulls t)
  | _ => run_render F (oneoff_pulls t)
  end.

Definition entry_eqb (a b : nat * bool) : bool := Nat.eqb (fst a) (fst b) && Bool.eqb (snd a) (snd b).
Fixpoint dlist_eqb {A} (eqb : A -> A -> bool) (a b : list A) : bool :=
  match a, b with
  | [], [] => true
  | x :: a', y :: b' => eqb x y && dlist_eqb eqb a' b'
  | _, _ => false
  end.

Definition agrees (nested : bool) (t : dcase) : bool :=
  let '(r, s_end) := model_run nested t in
  Nat.eqb (out_class r) (obs_class (d_outcome t))
  && dlist_eqb entry_eqb (map enc_entry (rev (evs s_end))) (d_events t)
  && Nat.eqb (length (evs (state_of r))) (d_nret t)
  && Nat.eqb (ioc s_end) (d_ioc t) && Nat.eqb (slc s_end) (d_slc t)
  && dlist_eqb Nat.eqb (d_fins t) [1].

(** the observations are those of the model with [draw]'s clean-up block built either way
    (DrawUse.draw_call: the two differ only in WHEN the data is finalized after a stream call
    of the clean-up itself raised: at garbage collection / before [draw] ends) *)
Definition dmodel_ok (t : dcase) : bool := d_async t || agrees false t || agrees true t.

(** * Specification side: the observations alone *)

Definition hook_of (k : nat) : option hook :=
  match k with 0 => Some HRender | 1 => Some HInterrupt | 2 => Some HClear | 3 => Some HFinalize | _ => None end.
Fixpoint decode (l : list (nat * bool)) : option (list (hook * bool)) :=
  match l with
  | [] => Some []
  | (k, b) :: t => match hook_of k, decode t with Some h, Some r => Some ((h, b) :: r) | _, _ => None end
  end.

(** every render data object that came into being was finalized by exactly one finalizer
    call, and no entry into the renderable's code saw finalized data.  Only an asynchronous
    interrupt can end the operation before any render data exists. *)
Definition dspec_ok (t : dcase) : bool :=
  match decode (d_events t) with
  | None => false
  | Some l =>
    match d_fins t with
    | [] => d_async t && match l with [] => true | _ => false end
    | _ => entries_ok l && dlist_eqb Nat.eqb (d_fins t) [1]
    end
  end.

Definition dcheck10 (t : dcase) : nat :=
  ((if dmodel_ok t then 0 else 1) + (if dspec_ok t then 0 else 2))%nat.

Fixpoint dindex_from {A} (i : nat) (l : list A) : list (nat * A) :=
  match l with [] => [] | x :: r => (i, x) :: dindex_from (S i) r end.
Definition dbad10 (cases : list dcase) : list (nat * nat) :=
  filter (fun p => negb (Nat.eqb (snd p) 0)) (dindex_from 0 (map dcheck10 cases)).
