(** * IterReent — a [close()] that arrives WHILE a frame is being rendered (C10)

    The renderable's [_render_] may call back into the iterator that is driving it:
    [render2] returns, besides what [Iter]'s [render] returns, whether it called
    [iterator.close()] during this invocation ([true]).  At that moment the generator of
    [_iterate] is executing (it is inside [renderable._render_(...)], _iterator.py:596),
    so in [close()] (_iterator.py:191-200)

        if not self._closed:
            self._iterator.close()      <- ValueError("generator already executing")
            ...

    the first statement raises before anything has changed: the nested [close()] is a clean
    refusal ([nested_close]: state unchanged, ValueError to the renderable).  What the
    renderable does with that ValueError is its business and is part of [render2]'s result:
    let it propagate (the render fails: [RErr], and [__next__]'s [except Exception] arm
    closes the iterator, this time successfully since the generator has finished), or
    swallow it and return a frame.

    [rnext hook] is [Iter.next] with [hook] applied to the iterator state at the point of
    the nested call; the machine of the code is [rnext nested_close].  The seeded variant
    "mark closed first" is [nested_close_flag_first] (refuted in the proofs file).
    [Iter] itself is shared and untouched: the four functions below repeat
    [render_frame] / [body] / [pass_end] / [next] of model/Iter.v verbatim except for the
    hook.  Definitions only. *)
From Coq Require Import List ZArith Bool.
Import ListNotations.
From TI Require Import model.Iter.
Open Scope Z_scope.

Section Reent.
  Variable RS : Type.
  Variable render2 : RS -> Z -> whence -> size -> dur -> Z -> (rres * RS) * bool.
  Variable n : option Z.
  Variable term : size.

  Notation state := (state RS).

  (** what [Iter] sees of the renderable *)
  Definition render1 (r : RS) (o : Z) (w : whence) (sz : size) (d : dur) (a : Z) : rres * RS :=
    fst (render2 r o w sz d a).

  (** [close()] while the generator is executing: refused, nothing changes *)
  Definition nested_close (s : state) : state := s.

  (** the seeded variant: [self._closed = True] first, then the ValueError *)
  Definition nested_close_flag_first (s : state) : state := set_closed RS s true.

  Variable hook : state -> state.

  Definition rrender_frame (s : state) (fno : Z) : state * out :=
    let r := rd s in
    let '((res, rs'), reclose) := render2 (rs s) (fo r) (wh r) (d_size r) (d_dur r) (args s) in
    let s0 := set_rs RS (log_render RS s) rs' in
    let s1 := if reclose then hook s0 else s0 in
    match res with
    | ROk f =>
      let s2 := if cached s
                then set_cache RS s1 (upd (cache s1) fno
                       (Some {| ce_frame := f; ce_size := d_size r; ce_dur := d_dur r;
                                ce_args := args s |}))
                else s1 in
      deliver RS n s2 f
    | RStop =>
      if definite n then (close RS s1, OErr EStopDefinite)
      else (close RS (set_pub_loop RS s1 0), OStop)
    | RErr e => (close RS s1, OErr (ERender e))
    end.

  Definition rbody (s : state) (fno : Z) : state * out :=
    let r := rd s in
    let hit := if cached s then
                 match cache s fno with
                 | Some e => if key_eqb e r (args s) then Some (ce_frame e) else None
                 | None => None
                 end
               else None in
    match hit with
    | Some f => deliver RS n s f
    | None => rrender_frame s fno
    end.

  Definition rpass_end (s : state) : state * out :=
    let r := rd s in
    let s1 := set_rd RS s {| fo := 0; wh := wh r; d_size := d_size r; d_dur := d_dur r |} in
    let s2 := if 0 <? g_loop s1
              then set_pub_loop RS (set_g_loop RS s1 (g_loop s1 - 1)) (g_loop s1 - 1) else s1 in
    if g_loop s2 =? 0 then (close RS s2, OStop)
    else rbody s2 0.

  Definition rnext (s : state) : state * out :=
    if closed s then (s, OStop)
    else
      match phase s with
      | AtDummy =>
        let fno := fo (rd s) * (if definite n then 1 else 0) in
        if g_loop s =? 0 then (close RS s, OStop)
        else if fno <? fc n then rbody s fno else rpass_end s
      | AtFrame =>
        let fno := if definite n then fo (rd s) else 0 in
        if fno <? fc n then rbody s fno else rpass_end s
      end.

  Definition rstep (s : state) (o : op) : state * out :=
    match o with
    | Next => rnext s
    | _ => step RS render1 n term s o
    end.

  Definition rrun (s : state) (ops : list op) : state :=
    fold_left (fun s o => fst (rstep s o)) ops s.

  Fixpoint rtrace (s : state) (ops : list op) : list (out * Z) :=
    match ops with
    | [] => []
    | o :: r => let '(s', x) := rstep s o in (x, pub_loop s') :: rtrace s' r
    end.
End Reent.
