(** Executable comparison used by the C08 correspondence for histories whose render arguments
    are offered BY CLASS RELATION ([model/IterArgs.v]): the code side lowers them through the
    code's class test ([install]), the specification side through the documented
    compatibility rule ([doc_install]); both are then judged by [IterTie.check8] (code model:
    trace + render-call log; specification: [IterSpec] trace, [tell()] untouched). *)
From Coq Require Import List ZArith Bool Arith.
Import ListNotations.
From TI Require Import model.Iter model.IterSpec model.IterTie model.IterEnv model.IterArgs.
Open Scope Z_scope.

Record acase := {
  ac_t : tcase;                   (* [t_ops] and [c_args (t_cfg _)] are placeholders *)
  ac_ctor : option offered;       (* the constructor's [render_args] ([None]: not given) *)
  ac_ops : list aop
}.

Definition retarget (f : offered -> option Z) (c : acase) : tcase :=
  let t := ac_t c in
  {| t_n := t_n t; t_total := t_total t; t_faults := t_faults t; t_ffaults := t_ffaults t;
     t_stamp := t_stamp t; t_cfg := with_args f (t_cfg t) (ac_ctor c);
     t_ops := map (lower f) (ac_ops c);
     t_ctor := t_ctor t; t_obs := t_obs t; t_tells := t_tells t; t_log := t_log t;
     t_fin := t_fin t; t_finalized_end := t_finalized_end t |}.

(** 0 agrees; +1 differs from the code model; +2 contradicts the specification *)
Definition checkA (c : acase) : nat :=
  (Nat.modulo (check8 (retarget install c)) 2
   + 2 * Nat.div (check8 (retarget doc_install c)) 2)%nat.

Definition badA (cases : list acase) : list (nat * nat) :=
  filter (fun p => negb (Nat.eqb (snd p) 0)) (index_from 0 (map checkA cases)).
