(** * Settings — model of the inheritable render-style settings (C20)

    Mirrors, in the order the code performs them, the reads and writes of

    - [BaseImage.set_render_method] (class and instance forms), [common.py:946-1009];
    - [ImageMeta.forced_support] / [BaseImage.forced_support], [common.py:162-181,321-351];
    - [ITerm2ImageMeta.jpeg_quality], [.read_from_file], [.native_anim_max_bytes] and
      their instance counterparts, [iterm2.py:37-107,306-455];
    - the effective method at render time, [(method or self._render_method).lower()],
      [kitty.py:434], [iterm2.py:591].

    Python objects become dictionaries: a class dictionary ([cd c = Some v] iff the
    attribute is in [vars(c)]), an instance dictionary ([idt i]).  Attribute lookup on
    a class walks the parents; on an instance, the instance dictionary first.

    Classes are numbered in creation order: class 0 is the style's base class
    ([KittyImage] / [ITerm2Image]), [par c < c] is the parent of class [c > 0].

    Definitions only; proofs are in [proofs/SettingsProofs.v]. *)

From Coq Require Import List ZArith Bool Arith Lia.
Import ListNotations.

Definition upd {A} (f : nat -> A) (i : nat) (x : A) : nat -> A :=
  fun j => if Nat.eqb j i then x else f j.

(** What distinguishes the four inheritable settings. *)
Record kind := {
  k_default : Z;           (* the documented default *)
  k_valid : Z -> bool;     (* values the setter accepts *)
  k_pinned : bool;         (* the base class's dictionary always holds an entry
                              (render method: [_render_method = LINES] in the class body) *)
  k_inst_set : bool;       (* instances may set / unset their own value *)
  k_cls_unset : bool       (* classes have an unset operation *)
}.

Record state := { cd : nat -> option Z; idt : nat -> option Z }.

Inductive op :=
| ClsSet (c : nat) (v : Z)
| ClsUnset (c : nat)
| InstSet (i : nat) (v : Z)
| InstUnset (i : nat).

Inductive out := Ok | Rejected.

(** Python attribute lookup through the class chain ([fuel = c] suffices since
    [par c < c]). *)
Fixpoint cls_lookup (par : nat -> nat) (d : nat -> option Z) (fuel c : nat) : option Z :=
  match d c with
  | Some v => Some v
  | None =>
    match fuel with
    | 0 => None
    | S f => if Nat.eqb c 0 then None else cls_lookup par d f (par c)
    end
  end.

Definition cls_eff (k : kind) (par : nat -> nat) (s : state) (c : nat) : Z :=
  match cls_lookup par (cd s) c c with Some v => v | None => k_default k end.

Definition inst_eff (k : kind) (par icls : nat -> nat) (s : state) (i : nat) : Z :=
  match idt s i with Some v => v | None => cls_eff k par s (icls i) end.

Definition init (k : kind) : state :=
  {| cd := fun c => if k_pinned k && Nat.eqb c 0 then Some (k_default k) else None;
     idt := fun _ => None |}.

(** One operation, as the code performs it. *)
Definition step (k : kind) (par : nat -> nat) (s : state) (o : op) : state * out :=
  match o with
  | ClsSet c v =>
    if k_valid k v then ({| cd := upd (cd s) c (Some v); idt := idt s |}, Ok)
    else (s, Rejected)
  | ClsUnset c =>
    if k_cls_unset k then
      (* [del cls._attr] ([AttributeError] swallowed) ... *)
      let d := upd (cd s) c None in
      (* ... and, for the render method, the style's base class gets the default back
         ([if cls._render_method is None: cls._render_method = default]) *)
      let d' := if k_pinned k then
                  match cls_lookup par d c c with
                  | Some _ => d
                  | None => upd d c (Some (k_default k))
                  end
                else d in
      ({| cd := d'; idt := idt s |}, Ok)
    else (s, Rejected)
  | InstSet i v =>
    if k_inst_set k then
      if k_valid k v then ({| cd := cd s; idt := upd (idt s) i (Some v) |}, Ok)
      else (s, Rejected)
    else (s, Rejected)
  | InstUnset i =>
    if k_inst_set k then ({| cd := cd s; idt := upd (idt s) i None |}, Ok)
    else (s, Rejected)
  end.

Definition run (k : kind) (par : nat -> nat) (ops : list op) : state :=
  fold_left (fun s o => fst (step k par s o)) ops (init k).

(** The method a render uses: [(method or self._render_method).lower()]. *)
Definition render_method (k : kind) (par icls : nat -> nat) (s : state)
           (i : nat) (override : option Z) : Z :=
  match override with Some m => m | None => inst_eff k par icls s i end.

(** ** The documented rule, stated on the history alone (no dictionaries).

    [own_cls ops c] is the last word the history has on class [c]: [Some v] when the
    latest accepted class-level set/unset on [c] is [set v]. *)

Definition own_cls_step (k : kind) (c : nat) (acc : option Z) (o : op) : option Z :=
  match o with
  | ClsSet c' v => if Nat.eqb c' c && k_valid k v then Some v else acc
  | ClsUnset c' => if Nat.eqb c' c && k_cls_unset k then None else acc
  | _ => acc
  end.
Definition own_cls (k : kind) (ops : list op) (c : nat) : option Z :=
  fold_left (own_cls_step k c) ops None.

Definition own_inst_step (k : kind) (i : nat) (acc : option Z) (o : op) : option Z :=
  match o with
  | InstSet i' v => if Nat.eqb i' i && k_inst_set k && k_valid k v then Some v else acc
  | InstUnset i' => if Nat.eqb i' i && k_inst_set k then None else acc
  | _ => acc
  end.
Definition own_inst (k : kind) (ops : list op) (i : nat) : option Z :=
  fold_left (own_inst_step k i) ops None.

(** nearest class in the ancestry (self first) that has a value, else the default *)
Fixpoint nearest (par : nat -> nat) (own : nat -> option Z) (fuel c : nat) : option Z :=
  match own c with
  | Some v => Some v
  | None =>
    match fuel with
    | 0 => None
    | S f => if Nat.eqb c 0 then None else nearest par own f (par c)
    end
  end.

Definition spec_cls (k : kind) (par : nat -> nat) (ops : list op) (c : nat) : Z :=
  match nearest par (own_cls k ops) c c with Some v => v | None => k_default k end.

Definition spec_inst (k : kind) (par icls : nat -> nat) (ops : list op) (i : nat) : Z :=
  match own_inst k ops i with Some v => v | None => spec_cls k par ops (icls i) end.

(** [anc par fuel a c]: [a] is [c] or an ancestor of [c]. *)
Fixpoint anc (par : nat -> nat) (fuel a c : nat) : bool :=
  Nat.eqb a c ||
  match fuel with
  | 0 => false
  | S f => if Nat.eqb c 0 then false else anc par f a (par c)
  end.

Definition wf_par (par : nat -> nat) : Prop := forall c, 0 < c -> par c < c.

(** ** The four settings *)

(** render methods: 0 = lines, 1 = whole, 2 = anim; [n] = number the style implements *)
Definition k_render_method (n : Z) : kind :=
  {| k_default := 0; k_valid := fun v => (0 <=? v)%Z && (v <? n)%Z;
     k_pinned := true; k_inst_set := true; k_cls_unset := true |}.
(** forced support: 0 / 1; anything else stands for a non-bool *)
Definition k_forced_support : kind :=
  {| k_default := 0; k_valid := fun v => (v =? 0)%Z || (v =? 1)%Z;
     k_pinned := false; k_inst_set := false; k_cls_unset := false |}.
(** JPEG quality: any int <= 95; default -1 (disabled).  Non-ints are encoded as 1000. *)
Definition k_jpeg_quality : kind :=
  {| k_default := (-1); k_valid := fun v => (v <=? 95)%Z;
     k_pinned := false; k_inst_set := true; k_cls_unset := true |}.
(** read-from-file: 0 / 1; default 1 *)
Definition k_read_from_file : kind :=
  {| k_default := 1; k_valid := fun v => (v =? 0)%Z || (v =? 1)%Z;
     k_pinned := false; k_inst_set := true; k_cls_unset := true |}.

(** ** The global native-animation limit: one cell on the metaclass *)

Definition nam_default : Z := 2097152.
Inductive gop := GSet (c : nat) (v : Z) | GUnset (c : nat) | GInstSet (i : nat) (v : Z)
               | GInstUnset (i : nat).
Definition gstep (g : Z) (o : gop) : Z * out :=
  match o with
  | GSet _ v => if (0 <? v)%Z then (v, Ok) else (g, Rejected)
  | GUnset _ => (nam_default, Ok)
  | GInstSet _ _ => (g, Rejected)
  | GInstUnset _ => (g, Rejected)
  end.
Definition grun (ops : list gop) : Z := fold_left (fun g o => fst (gstep g o)) ops nam_default.
(** what any class or instance reads *)
Definition gread (g : Z) (_ : nat) : Z := g.

(** spec: the last accepted class-level word, wherever it was said *)
Definition gspec_step (acc : Z) (o : gop) : Z :=
  match o with
  | GSet _ v => if (0 <? v)%Z then v else acc
  | GUnset _ => nam_default
  | _ => acc
  end.
Definition gspec (ops : list gop) : Z := fold_left gspec_step ops nam_default.

(** ** Executable helpers for the correspondence check *)

Definition parf (l : list nat) : nat -> nat := fun c => nth c l 0.

(** outputs of a history: per op its outcome, then the effective value of every class
    [0..nc-1] and every instance [0..ni-1] *)
Definition observe (k : kind) (par icls : nat -> nat) (nc ni : nat) (s : state) : list Z :=
  map (cls_eff k par s) (seq 0 nc) ++ map (inst_eff k par icls s) (seq 0 ni).

Definition out_code (o : out) : Z := match o with Ok => 0%Z | Rejected => 1%Z end.

Fixpoint trace (k : kind) (par icls : nat -> nat) (nc ni : nat) (s : state) (ops : list op)
  : list (list Z) :=
  match ops with
  | [] => []
  | o :: r => let '(s', x) := step k par s o in
              (out_code x :: observe k par icls nc ni s') :: trace k par icls nc ni s' r
  end.

Definition spec_observe (k : kind) (par icls : nat -> nat) (nc ni : nat) (ops : list op)
  : list Z :=
  map (spec_cls k par ops) (seq 0 nc) ++ map (spec_inst k par icls ops) (seq 0 ni).

(** the spec's view after every prefix of the history *)
Fixpoint spec_trace_aux (k : kind) (par icls : nat -> nat) (nc ni : nat)
         (done todo : list op) : list (list Z) :=
  match todo with
  | [] => []
  | o :: r => let d := done ++ [o] in
              spec_observe k par icls nc ni d :: spec_trace_aux k par icls nc ni d r
  end.
Definition spec_trace k par icls nc ni ops := spec_trace_aux k par icls nc ni [] ops.

Fixpoint gtrace (g : Z) (ops : list gop) : list (list Z) :=
  match ops with
  | [] => []
  | o :: r => let '(g', x) := gstep g o in [out_code x; g'] :: gtrace g' r
  end.
