(** C19, round 7 — judge of the denotation cases (executable; used by harness/props/c19.py).

    [acheck]: one specifier formatted on a terminal whose background colour is known /
    undetermined: the pixels DISPLAYED by the output (block style) and the equality of the
    output with that of a specifier the documentation declares equivalent in that
    environment (all styles).
    [fcheck]: one specifier formatted on an animated source at a seek position: how many
    frames every transmitted picture carries and which frame it shows.
    Codes: 0 agrees; +1 differs from the implementation model; +2 contradicts the
    documentation; 4 = the case itself is ill-formed (generator error). *)
From Coq Require Import List NArith ZArith Bool.
Import ListNotations.
From TI Require Import lib.Re model.FmtSpec model.FmtSpecTie model.FmtDen.
Local Open Scope Z_scope.

Definition ts80 : tsize := {| cols := 80; lines := 30 |}.

Record acase := {
  a_sty : style;
  a_spec : list N;
  a_eqs : list (list N);              (* specifiers the plugin claims to be equivalent here *)
  a_bg : option Z;                    (* the terminal's background colour, if determined *)
  a_kind : nat;                       (* 0 = a string was returned *)
  a_px : list (px * shown);           (* block: source pixel, what the output displays there *)
  a_same : list Z                     (* per member of a_eqs: 1 = the very same output *)
}.

Definition meaning_of (sty : style) (s : list N) : option meaning :=
  match doc_outcome ts80 sty s with Some (0%nat, Some m) => Some m | _ => None end.

Definition rest_eqb (sty : style) (m m' : meaning) : bool :=
  zl_eqb (fst (draw_params sty m)) (fst (draw_params sty m'))
  && zl_eqb (snd (draw_params sty m)) (snd (draw_params sty m')).

(** the documentation makes s' equivalent to s on a terminal with background [bg] *)
Definition doc_equiv (sty : style) (bg : termbg) (m : meaning) (s' : list N) : bool :=
  match meaning_of sty s' with
  | Some m' => eff_eqb (doc_eff (m_t m) bg) (doc_eff (m_t m') bg) && rest_eqb sty m m'
  | None => false
  end.

Definition acheck (c : acase) : nat :=
  match meaning_of (a_sty c) (a_spec c) with
  | None => 4%nat
  | Some m =>
      if negb (forallb (doc_equiv (a_sty c) (a_bg c) m) (a_eqs c))
         || negb (Nat.eqb (length (a_eqs c)) (length (a_same c))) then 4%nat
      else
        let shape := Nat.eqb (a_kind c) 0 && forallb (fun v => v =? 1) (a_same c) in
        let pix e := forallb (fun po => pixel_ok e (fst po) (snd po)) (a_px c) in
        let ok_spec := shape && pix (doc_eff (m_t m) (a_bg c)) in
        let ok_model :=
          match impl_outcome ts80 (a_sty c) (a_spec c) with
          | Some (Accepted r) =>
              match impl_eff code_fallback (a_bg c) (r_alpha r) with
              | Some e => shape && pix e
              | None => false
              end
          | _ => false
          end in
        ((if ok_model then 0 else 1) + (if ok_spec then 0 else 2))%nat
  end.

Record fcase := {
  f_sty : style;
  f_spec : list N;
  f_cur : nat;                        (* the instance's render method: 1 lines, 2 whole, 3 anim *)
  f_src : isrc;
  f_nframes : Z; f_pos : Z;           (* frames of the source, seek position at the call *)
  f_lines : Z;                        (* rendered height *)
  f_route : nat;                      (* 0 format(image, spec); 1 the frame of ImageIterator at f_pos *)
  f_kind : nat;
  f_trans : list (Z * Z);             (* per transmitted picture: frames it holds, which frame it shows first *)
  f_iter_same : Z                     (* route 0: 1 = equal to the iterator's frame f_pos; -1 not compared *)
}.

Definition trans_ok (c : fcase) (k : carried) (method : nat) : bool :=
  match k with
  | Current =>
      forallb (fun t => (fst t =? 1) && (snd t =? f_pos c)) (f_trans c)
      && (Z.of_nat (length (f_trans c)) =? (if Nat.eqb method 1 then f_lines c else 1))
      && ((f_iter_same c =? 1) || (f_iter_same c =? -1))
  | AllNative =>
      match f_trans c with
      | [t] => (fst t =? f_nframes c) && (snd t =? 0)
      | _ => false
      end
  end.

Definition fcheck (c : fcase) : nat :=
  match meaning_of (f_sty c) (f_spec c) with
  | None => 4%nat
  | Some m =>
      let method := eff_method m (f_cur c) in
      let frame := Nat.eqb (f_route c) 1 in
      let doc := match f_sty c with
                 | ITerm2 => doc_carried (s_animated (f_src c)) frame method
                 | _ => Current            (* kitty: L / W, always the current frame *)
                 end in
      let model := match f_sty c with
                   | ITerm2 => impl_carried code_guard (f_src c) frame method
                   | _ => Current
                   end in
      let ok k := Nat.eqb (f_kind c) 0 && trans_ok c k method in
      ((if ok model then 0 else 1) + (if ok doc then 0 else 2))%nat
  end.

Definition abad (cases : list acase) : list (nat * nat) :=
  filter (fun p => negb (Nat.eqb (snd p) 0)) (index_from 0 (map acheck cases)).
Definition fbad (cases : list fcase) : list (nat * nat) :=
  filter (fun p => negb (Nat.eqb (snd p) 0)) (index_from 0 (map fcheck cases)).
