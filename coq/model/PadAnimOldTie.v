(** Executable comparison for the C05 correspondence on ANIMATED draws of the image classes
    ([BaseImage.draw(animate=True)] of a multi-frame image on a pty, per style and terminal
    identity): the whole output stream against [Draw.old_draw_stream] with the pre-animation
    step of the style ([PadAnimOld.pre_of]), and the C05 padding oracle applied to the
    EXECUTION of the stream on the terminal model: no event of the whole run (any frame, the
    placeholder, any cursor movement) falls outside the padded box max(render, minimum)
    columns by lines whose top-left is where the first frame was drawn; at the end every cell
    of the render's rectangle, placed at the offset (top, left) dictated by the alignment,
    shows what the LAST frame drawn alone there shows, every other cell of the box a blank
    with default attributes, and the cursor is at the left margin on the line below the box.

    Cursor movements with parameter 0 are executed by [lib/Term.v] as movements by ONE
    ([pos1]), as terminals do; the lexer hands [CSI 0 A] over as [TCuu 0]. *)
From Coq Require Import List ZArith Bool Lia.
Import ListNotations.
From TI Require Import lib.Term lib.TermFacts lib.Rect lib.RectCheck lib.Lines lib.TermScroll
     model.Padding model.PadTie model.Draw model.DrawTie model.PadAnimOld.
Open Scope Z_scope.

Record ocase := {
  o_tw : Z; o_th : Z;                  (* terminal size *)
  o_rawW : Z; o_rawH : Z;              (* pad_width, pad_height as given *)
  o_ha : nat; o_va : nat;
  o_w : Z; o_h : Z;                    (* rendered size *)
  o_tty : bool;
  o_pre : pre_step;                    (* the style's pre-animation step on this terminal identity *)
  o_oldk : bool;                       (* kitty <= 0.25.0: frames are cleared by z-index *)
  o_frames : list (list tok);          (* the unformatted renders in the order they are drawn *)
  o_obs : list tok;                    (* what draw() wrote *)
  o_rows : list Z                      (* start rows *)
}.

Definition odims_of (c : ocase) : Z * Z * Z * Z :=
  dims_of {| p_kind := POld (o_rawW c) (o_rawH c) (o_ha c) (o_va c); p_fill := None; p_tw := o_tw c;
             p_th := o_th c; p_w := o_w c; p_h := o_h c; p_inner := []; p_obs := []; p_obs_dims := [] |}.

Definition omodel (c : ocase) : option (list tok) :=
  let '(W, H) := old_resolve (o_tw c) (o_th c) (o_rawW c) (o_rawH c) in
  old_draw_stream true false true false (o_tty c) (o_tw c) (o_th c) (o_rawW c) (o_rawH c)
                  (o_ha c) (o_va c) (o_w c) (o_h c)
                  (pre_of (o_pre c) W H (o_ha c) (o_va c) (o_w c) (o_h c)) (kitty_clear (o_oldk c))
                  (o_frames c).

Definition is_blank_default (e : option ev) : bool :=
  match e with Some (EText _ _ GSpace a) => attrs_eqb a adefault | _ => false end.

Definition oclauses (c : ocase) (r0 : Z) : list bool :=
  let '(l, t, r, b) := odims_of c in
  let '(W, H) := old_resolve (o_tw c) (o_th c) (o_rawW c) (o_rawH c) in
  let w := o_w c in let h := o_h c in
  let W' := l + w + r in let H' := t + h + b in
  let inner i j := (t <=? i) && (i <? t + h) && (l <=? j) && (j <? l + w) in
  let final := exec 0 (start r0 0) (o_obs c) in
  let evs := log final in
  let ievs := log (exec l (start (r0 + t) l) (last (o_frames c) [])) in
  [ (0 <=? l) && (0 <=? t) && (0 <=? r) && (0 <=? b);
    (* the box is max(render, minimum) columns by lines *)
    (W' =? Z.max W w) && (H' =? Z.max H h);
    (* nothing outside the box (and the cursor's resting place below it) is touched, by any frame *)
    forallb (ev_box_or_below r0 0 H' W') evs;
    negb (existsb (fun j => covered evs (r0 + H') j) (zrange 0 (W' + 1)));
    (row final =? r0 + H') && (col final =? 0);
    attrs_eqb (sgr final) adefault && is_ground (parser final) && is_none (pending final);
    (* the box: the LAST frame at (t, l), blanks everywhere else *)
    forallb (fun i => forallb (fun j =>
        if inner i j then oev_eqb (lastcov evs (r0 + i) j) (lastcov ievs (r0 + i) j)
        else is_blank_default (lastcov evs (r0 + i) j)) (zrange 0 W')) (zrange 0 H') ].

Definition ooracle (c : ocase) (r0 : Z) : bool := forallb (fun x => x) (oclauses c r0).

(** 0 = agrees; +1 the stream differs from the model; +2 the execution leaves the padded box
    or its final content is not the last frame at the alignment offset *)
Definition ocheck (c : ocase) : nat :=
  (match omodel c with Some st => if toks_eqb st (o_obs c) then 0 else 1 | None => 1 end)
  + (if forallb (ooracle c) (o_rows c) && negb (match o_frames c with [] => true | _ => false end)
     then 0 else 2).

Definition obad (cases : list ocase) : list (nat * nat) :=
  filter (fun p => negb (Nat.eqb (snd p) 0)) (index_from 0 (map ocheck cases)).

(** (margins, first token difference from the model, the clauses of the oracle per start row) *)
Definition oexplain (c : ocase) :=
  (odims_of c,
   match omodel c with Some st => Some (first_diff st (o_obs c) 0) | None => None end,
   map (fun r0 => (r0, oclauses c r0)) (o_rows c)).
