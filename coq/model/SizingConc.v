(** C04 — OVERLAPPING renders of one image (several threads inside [_renderer] at once).

    [Sizing.step (ORender _)] describes one render as an atomic step.  The code is not
    atomic: common.py [BaseImage._renderer]

      1685   _size = self._size                       (save)
      1687   if isinstance(_size, Size):
      1688       self.set_size(_size)                 (fix: a dynamic size is made fixed for this render)
      1715   return renderer(img, ...)                (run: the renderer reads the size)
      1722   finally:
      1723       if isinstance(_size, Size):          (restore: ONLY a saved dynamic value
      1724           self.size = _size                 is written back)

    and nothing stops two threads from rendering the same image at the same time (a UI
    thread drawing it while a worker formats it).  Here a render is the four small steps
    above, any number of renders of one image are in progress, and a SCHEDULE (a list of
    grants: "thread i makes its next step", "the terminal is resized") interleaves them in
    any way.  The rule applied by the [finally] clause is a parameter ([restore_rule]):
    [code_restore] is the code's, [uncond_restore] ("write back whatever was saved") is
    the variant the theorems exclude.

    Definitions only (proofs: proofs/SizingConcProofs.v). *)
From Coq Require Import ZArith List Bool.
Import ListNotations.
From TI Require Import lib.FArith model.Sizing.
Open Scope Z_scope.

Section WithFloat.
Context {FA : FloatArith}.
Local Notation env := (env FA).

(** where a render is: [sv] is its local variable [_size] *)
Inductive pc :=
| PStart                       (* has not read [self._size] yet *)
| PSaved (sv : sizeval)        (* 1685 done, the saved value is dynamic: [set_size] (1688) is next *)
| PFixed (sv : sizeval)        (* the size is fixed for this render: the renderer is next *)
| PRan (sv : sizeval)          (* the renderer returned or raised: the [finally] is next *)
| PDone.

(** the [finally] clause: saved value -> current value of [self._size] -> new value *)
Definition restore_rule := sizeval -> sizeval -> sizeval.
(** common.py:1723-1724 (the [size] setter with a [Size] member stores it, 534-536) *)
Definition code_restore : restore_rule :=
  fun sv cur => match sv with Dyn m => Dyn m | Fixed _ _ => cur end.
(** "leave the size exactly as it was found": NOT the code *)
Definition uncond_restore : restore_rule := fun sv _ => sv.

(** one step of one render: [(new pc, new self._size, the size the renderer saw)] *)
Definition tstep (R : restore_rule) (fam : family) (ow oh : Z) (e : env) (size : sizeval)
           (p : pc) : pc * sizeval * option sizeval :=
  match p with
  | PStart =>                                                         (* 1685, 1687 *)
      (match size with Dyn _ => PSaved size | Fixed _ _ => PFixed size end, size, None)
  | PSaved sv =>                                                      (* 1688 *)
      match sv with
      | Dyn m => (PFixed sv, fst (set_size fam ow oh e size (DSize m) DNone default_frame), None)
      | Fixed _ _ => (PFixed sv, size, None)
      end
  | PFixed sv => (PRan sv, size, Some size)                           (* 1713-1715 *)
  | PRan sv => (PDone, R sv size, None)                               (* 1722-1724 *)
  | PDone => (PDone, size, None)
  end.

Inductive grant :=
| GThread (i : nat)                                      (* render i makes its next step *)
| GResize (cols lines : Z) (cell : option (Z * Z)).      (* the terminal is resized *)

Record cstate := {
  c_env : env;
  c_size : sizeval;                  (* the image's [_size] *)
  c_pcs : list pc;                   (* one entry per render in progress *)
  c_seen : list (nat * sizeval)      (* (render, size its renderer saw), most recent first *)
}.

Fixpoint upd {A} (i : nat) (x : A) (l : list A) : list A :=
  match l, i with
  | [], _ => []
  | _ :: r, O => x :: r
  | y :: r, S k => y :: upd k x r
  end.

Definition gstep (R : restore_rule) (fam : family) (ow oh : Z) (st : cstate) (g : grant) : cstate :=
  match g with
  | GThread i =>
      match nth_error (c_pcs st) i with
      | None => st
      | Some p =>
          let '(p', sz, seen) := tstep R fam ow oh (c_env st) (c_size st) p in
          {| c_env := c_env st; c_size := sz; c_pcs := upd i p' (c_pcs st);
             c_seen := match seen with Some d => (i, d) :: c_seen st | None => c_seen st end |}
      end
  | GResize cols lines cell =>
      {| c_env := resize (c_env st) cols lines cell; c_size := c_size st; c_pcs := c_pcs st;
         c_seen := c_seen st |}
  end.

Definition grun (R : restore_rule) (fam : family) (ow oh : Z) (st : cstate) (gs : list grant) : cstate :=
  fold_left (gstep R fam ow oh) gs st.

(** [n] renders are started on the image in state [s] *)
Definition cinit (s : state FA) (n : nat) : cstate :=
  {| c_env := st_env s; c_size := st_size s; c_pcs := repeat PStart n; c_seen := [] |}.

(** every render that has not ended runs to its end, one render after the other (a render
    has at most four steps) *)
Definition completion (n : nat) : list grant :=
  flat_map (fun i => repeat (GThread i) 4) (seq 0 n).

(** the whole concurrent section: the schedule, then the completion *)
Definition conc_run (R : restore_rule) (fam : family) (ow oh : Z) (s : state FA) (n : nat)
           (sched : list grant) : cstate :=
  grun R fam ow oh (cinit s n) (sched ++ completion n).

Definition all_done (st : cstate) : bool :=
  forallb (fun p => match p with PDone => true | _ => false end) (c_pcs st).

(** what render [i]'s renderer saw *)
Fixpoint seen_of (i : nat) (l : list (nat * sizeval)) : option sizeval :=
  match l with
  | [] => None
  | (j, d) :: r => if Nat.eqb i j then Some d else seen_of i r
  end.

(** the environments in force at some moment of a schedule started under [e] *)
Fixpoint envs_of (e : env) (gs : list grant) : list env :=
  match gs with
  | [] => [e]
  | GThread _ :: r => envs_of e r
  | GResize c l cell :: r => e :: envs_of (resize e c l cell) r
  end.
Definition env_after (e : env) (gs : list grant) : env := last (envs_of e gs) e.

Definition no_env_change (gs : list grant) : bool :=
  forallb (fun g => match g with GThread _ => true | _ => false end) gs.

End WithFloat.

Arguments cstate : clear implicits.
