(** * CachesInval — a memoised CALL against a concurrent INVALIDATION (C15)

    Part 3 of [model/Caches.v] is the [cached] decorator under concurrent CALLS (the body
    is one atomic step there) and part 4 the win-size-swap toggles against concurrent
    [get_cell_size] calls.  This file is the remaining dimension: a thread that is INSIDE
    the body of a memoised call while another thread INVALIDATES the memo, directly
    ([f._invalidate_cache()]) or through [term_image.enable_queries()].

    The code, [utils.py:177-192] and [__init__.py:85-126]:

        def cached_wrapper(args, kwargs):
            with lock:                                    (acquire)
                try: return cache[arguments]              (lookup)
                except KeyError:
                    return cache.setdefault(arguments,    (store)
                                            func(...))    (body: start ... end)
                                                          (release; return)
        def invalidate():
            with lock:                                    (acquire)
                cache.clear()                             (clear)
                                                          (release; return)

        def enable_queries():
            if not utils._queries_enabled:                (test)
                utils._queries_enabled = True             (flag write — FIRST)
                utils.get_fg_bg_colors._invalidate_cache()        (acquire, clear, release)
                utils.get_terminal_name_version._invalidate_cache()
                with utils._cell_size_lock: utils._cell_size_cache[:] = (0,) * 4
        def disable_queries():
            utils._queries_enabled = False                (flag write; nothing is cleared)

    The body of a query-based getter reads the condition it computes under —
    [_queries_enabled], at the entry of [query_terminal], [utils.py:617] — at its START
    and then WAITS for the terminal's reply: the body is two micro-steps here ([QBody]:
    the condition is read; [QRun]: the reply arrives and the body returns), so that
    other threads can be scheduled while a thread is inside the body.  [get_cell_size]
    with [_cell_size_lock] / [_cell_size_cache] has the same shape (one key).

    One memo (one lock, one table) is modelled; [enable_queries] invalidates each of its
    memos in turn in this way.  Every cache entry carries its PROVENANCE as ghost data:
    the condition the body read ([e_cond]), how many [cache.clear()]s had been executed
    when its body started ([e_born]) and the serial number of the body run ([e_run]:
    1, 2, ... in the order the bodies started; 0 = made before the threads started).
    A finished call records [(floor, key, entry)] where [floor] is the number of
    [cache.clear()]s executed when the call acquired the lock.

    [qstep_gen false] is the VARIANT whose [invalidate] does NOT take the lock
    ([cache.clear()] alone, "dict.clear() is atomic"); it exists only to state that it
    admits a schedule in which an invalidation overtakes a computation in flight.
    [qstep] is [qstep_gen true], the real code.

    Definitions only; proofs are in [proofs/InvalProofs.v]. *)
From Coq Require Import List Bool Arith.
Import ListNotations.
From TI Require Import lib.Sched.

Inductive qcmd :=
| QCall (k : nat)   (* the memoised function called with argument tuple [k] *)
| QInval            (* [f._invalidate_cache()] *)
| QEnable           (* [term_image.enable_queries()] *)
| QDisable.         (* [term_image.disable_queries()] *)

Record qentry := { e_cond : bool; e_born : nat; e_run : nat }.

Inductive qpc :=
| QIdle                                  (* between commands *)
| QSet                                   (* [enable_queries]: the test passed; about to write the flag *)
| QAcq                                   (* [enable_queries]: flag written; about to enter [invalidate]'s [with lock] *)
| QClear (e : bool)                      (* [invalidate]: about to [cache.clear()]; [e]: on behalf of [enable_queries] *)
| QRelI                                  (* [invalidate]: about to leave the [with lock] block *)
| QOutI                                  (* [invalidate]: lock released; the rest of the caller ([enable_queries]) / the return ahead *)
| QLook (k fl : nat)                     (* call: lock held; about to evaluate [cache[arguments]] *)
| QBody (k fl : nat)                     (* KeyError: about to start the body (which reads the condition) *)
| QRun (k fl : nat) (en : qentry)        (* inside the body: the condition is read, the terminal's reply awaited *)
| QStore (k fl : nat) (en : qentry)      (* the body returned; about to [cache.setdefault] *)
| QRelC (k fl : nat) (en : qentry)       (* about to leave the [with lock] block *)
| QOutC (k fl : nat) (en : qentry).      (* lock released; about to return the entry to the caller *)

Record qthread := { q_pc : qpc; q_todo : list qcmd; q_rets : list (nat * nat * qentry) }.

Record qstate := {
  q_lock : lock;                     (* the decorator's RLock *)
  q_flag : bool;                     (* [utils._queries_enabled] *)
  q_cache : nat -> option qentry;
  q_invals : nat;                    (* [cache.clear()]s executed *)
  q_runs : nat;                      (* body executions started *)
  q_th : nat -> qthread
}.

Definition qset (s : qstate) (t : nat) (pc : qpc) : qstate :=
  {| q_lock := q_lock s; q_flag := q_flag s; q_cache := q_cache s; q_invals := q_invals s;
     q_runs := q_runs s;
     q_th := upd (q_th s) t {| q_pc := pc; q_todo := q_todo (q_th s t); q_rets := q_rets (q_th s t) |} |}.

Definition qstep_gen (locked : bool) (s : qstate) (t : nat) : option qstate :=
  let th := q_th s t in
  match q_pc th with
  | QIdle =>
    match q_todo th with
    | [] => None                                          (* finished *)
    | QCall k :: rest =>                                  (* [with lock:] *)
      if can_acquire (q_lock s) t then
        Some {| q_lock := acquire (q_lock s) t; q_flag := q_flag s; q_cache := q_cache s;
                q_invals := q_invals s; q_runs := q_runs s;
                q_th := upd (q_th s) t {| q_pc := QLook k (q_invals s); q_todo := rest; q_rets := q_rets th |} |}
      else None                                           (* blocked *)
    | QInval :: rest =>
      if locked then
        if can_acquire (q_lock s) t then                  (* [with lock:] *)
          Some {| q_lock := acquire (q_lock s) t; q_flag := q_flag s; q_cache := q_cache s;
                  q_invals := q_invals s; q_runs := q_runs s;
                  q_th := upd (q_th s) t {| q_pc := QClear false; q_todo := rest; q_rets := q_rets th |} |}
        else None
      else                                                (* variant: no lock *)
        Some {| q_lock := q_lock s; q_flag := q_flag s; q_cache := q_cache s;
                q_invals := q_invals s; q_runs := q_runs s;
                q_th := upd (q_th s) t {| q_pc := QClear false; q_todo := rest; q_rets := q_rets th |} |}
    | QEnable :: rest =>                                  (* [if not utils._queries_enabled:] *)
      Some {| q_lock := q_lock s; q_flag := q_flag s; q_cache := q_cache s;
              q_invals := q_invals s; q_runs := q_runs s;
              q_th := upd (q_th s) t {| q_pc := if q_flag s then QIdle else QSet;
                                        q_todo := rest; q_rets := q_rets th |} |}
    | QDisable :: rest =>                                 (* [utils._queries_enabled = False] *)
      Some {| q_lock := q_lock s; q_flag := false; q_cache := q_cache s;
              q_invals := q_invals s; q_runs := q_runs s;
              q_th := upd (q_th s) t {| q_pc := QIdle; q_todo := rest; q_rets := q_rets th |} |}
    end
  | QSet =>                                               (* [utils._queries_enabled = True] *)
    Some {| q_lock := q_lock s; q_flag := true; q_cache := q_cache s; q_invals := q_invals s;
            q_runs := q_runs s;
            q_th := upd (q_th s) t {| q_pc := QAcq; q_todo := q_todo th; q_rets := q_rets th |} |}
  | QAcq =>
    if locked then
      if can_acquire (q_lock s) t then
        Some {| q_lock := acquire (q_lock s) t; q_flag := q_flag s; q_cache := q_cache s;
                q_invals := q_invals s; q_runs := q_runs s;
                q_th := upd (q_th s) t {| q_pc := QClear true; q_todo := q_todo th; q_rets := q_rets th |} |}
      else None
    else Some (qset s t (QClear true))
  | QClear e =>                                           (* [cache.clear()] *)
    Some {| q_lock := q_lock s; q_flag := q_flag s; q_cache := fun _ => None;
            q_invals := S (q_invals s); q_runs := q_runs s;
            q_th := upd (q_th s) t {| q_pc := if locked then QRelI else QOutI;
                                      q_todo := q_todo th; q_rets := q_rets th |} |}
  | QRelI =>
    Some {| q_lock := release (q_lock s); q_flag := q_flag s; q_cache := q_cache s;
            q_invals := q_invals s; q_runs := q_runs s;
            q_th := upd (q_th s) t {| q_pc := QOutI; q_todo := q_todo th; q_rets := q_rets th |} |}
  | QOutI => Some (qset s t QIdle)                        (* the rest of [enable_queries]; the return *)
  | QLook k fl =>
    Some (qset s t (match q_cache s k with
                    | Some en => QRelC k fl en            (* [return cache[arguments]] *)
                    | None => QBody k fl                  (* [except KeyError] *)
                    end))
  | QBody k fl =>                                         (* the body starts: it reads the condition *)
    Some {| q_lock := q_lock s; q_flag := q_flag s; q_cache := q_cache s; q_invals := q_invals s;
            q_runs := S (q_runs s);
            q_th := upd (q_th s) t
                        {| q_pc := QRun k fl {| e_cond := q_flag s; e_born := q_invals s; e_run := S (q_runs s) |};
                           q_todo := q_todo th; q_rets := q_rets th |} |}
  | QRun k fl en => Some (qset s t (QStore k fl en))      (* the reply arrives, the body returns *)
  | QStore k fl en =>                                     (* [cache.setdefault(arguments, <result>)] *)
    let c' := match q_cache s k with Some _ => q_cache s | None => upd (q_cache s) k (Some en) end in
    Some {| q_lock := q_lock s; q_flag := q_flag s; q_cache := c'; q_invals := q_invals s;
            q_runs := q_runs s;
            q_th := upd (q_th s) t
                        {| q_pc := QRelC k fl (match q_cache s k with Some en0 => en0 | None => en end);
                           q_todo := q_todo th; q_rets := q_rets th |} |}
  | QRelC k fl en =>
    Some {| q_lock := release (q_lock s); q_flag := q_flag s; q_cache := q_cache s;
            q_invals := q_invals s; q_runs := q_runs s;
            q_th := upd (q_th s) t {| q_pc := QOutC k fl en; q_todo := q_todo th; q_rets := q_rets th |} |}
  | QOutC k fl en =>                                      (* the caller gets the value *)
    Some {| q_lock := q_lock s; q_flag := q_flag s; q_cache := q_cache s;
            q_invals := q_invals s; q_runs := q_runs s;
            q_th := upd (q_th s) t {| q_pc := QIdle; q_todo := q_todo th;
                                      q_rets := q_rets th ++ [(fl, k, en)] |} |}
  end.

(** the real code *)
Definition qstep := Eval cbv beta iota zeta delta [qstep_gen qset] in qstep_gen true.

(** all threads idle with their programs; flag [f0]; [warm k = Some c]: an entry for [k]
    is there already, made by a body that read the condition [c] — with the flag on,
    pre-existing entries were made under "enabled" ([c || f0]): entries made while queries
    were disabled do not exist in a state in which queries are enabled and no
    [enable_queries] is in flight (that is the property). *)
Definition qinit (f0 : bool) (warm : nat -> option bool) (prog : nat -> list qcmd) : qstate :=
  {| q_lock := free_lock; q_flag := f0;
     q_cache := fun k => match warm k with
                         | Some c => Some {| e_cond := c || f0; e_born := 0; e_run := 0 |}
                         | None => None
                         end;
     q_invals := 0; q_runs := 0;
     q_th := fun t => {| q_pc := QIdle; q_todo := prog t; q_rets := [] |} |}.

(** an [enable_queries] whose flag write has happened but whose clear has not *)
Definition q_pending (s : qstate) (t : nat) : Prop :=
  q_pc (q_th s t) = QAcq \/ q_pc (q_th s t) = QClear true.

(** a thread INSIDE the lock region holding a computed / looked-up entry (about to store it /
    to leave the lock region with it) *)
Definition q_holds (s : qstate) (t : nat) (en : qentry) : Prop :=
  exists k fl, q_pc (q_th s t) = QRun k fl en \/ q_pc (q_th s t) = QStore k fl en
               \/ q_pc (q_th s t) = QRelC k fl en.

(** the condition under which the value was computed that a call with key [k] running
    alone from [s] returns: the entry's, else the current flag *)
Definition q_answer (s : qstate) (k : nat) : bool :=
  match q_cache s k with Some en => e_cond en | None => q_flag s end.

(** all threads below [n] have finished *)
Definition q_done (s : qstate) (n : nat) : Prop :=
  forall t, t < n -> q_pc (q_th s t) = QIdle /\ q_todo (q_th s t) = [].
