(** * SettingsRender — which render method a render actually uses (C20)

    "The render method actually used for a render is the effective one unless overridden
    for that call, and the native-animation size limit is one global value shared by all
    classes" — over histories that INTERLEAVE set / unset operations on the render method
    (any class, any instance), operations on the global native-animation limit and
    renders of sources of every kind (animated or not, rendered whole or as one frame of
    an iterator / animation, of every data size).

    Mirrors, in the order the code performs it,

    - [render_method = (method or self._render_method).lower()]
      ([kitty.py:434], [iterm2.py:591]);
    - the native-animation branch of [ITerm2Image._render_image], [iterm2.py:607-660]:
      [if render_method == ANIM and self._is_animated and not frame:] ... the data size is
      compared with [self.native_anim_max_bytes] ONLY to decide whether a
      [TermImageUserWarning] is issued ([iterm2.py:630-635]); the whole animated data is
      transmitted either way;
    - the documented fall-back [if render_method == ANIM: render_method = WHOLE]
      ([iterm2.py:662-665]; "non-animated image", "frame of an ImageIterator/animation");
    - LINES / WHOLE framing otherwise ([iterm2.py:667 ff.], [kitty.py:436 ff.]).

    Definitions only; proofs are in [proofs/SettingsRenderProofs.v]. *)

From Coq Require Import List ZArith Bool Arith.
Import ListNotations.
From TI Require Import model.Settings.

(** render methods as in [Settings.k_render_method]: 0 = lines, 1 = whole, 2 = anim *)
Definition LINES : Z := 0.
Definition WHOLE : Z := 1.
Definition ANIM : Z := 2.

(** what the render reports: the method whose output format was produced, and whether
    the "data size above the maximum for native animation" warning was issued *)
Record rout := { used : Z; warned : bool }.

(** The decision, as the code takes it.  [eff]: the instance's effective render method;
    [override]: the per-call method; [animated]: the source is animated; [frame]: the
    render is one frame of an [ImageIterator] / animation; [size]: size in bytes of the
    animated data; [limit]: the value of [native_anim_max_bytes] the render reads. *)
Definition render_used (eff : Z) (override : option Z) (animated frame : bool)
           (size limit : Z) : rout :=
  let m := match override with Some m => m | None => eff end in
  if (m =? ANIM)%Z && animated && negb frame then
    (* native animation: warn when too big, transmit anyway *)
    {| used := ANIM; warned := (limit <? size)%Z |}
  else
    let m' := if (m =? ANIM)%Z then WHOLE else m in
    {| used := m'; warned := false |}.

(** ** Histories with renders *)

Inductive rop :=
| RMeth (o : op)       (* set / unset of the render method on a class or an instance *)
| RLim (g : gop)       (* an operation on the global native-animation limit *)
| RRender (i : nat) (override : option Z) (frame : bool).

(** the sources of the instances *)
Record sources := { s_animated : nat -> bool; s_size : nat -> Z }.

Record rstate := { rs_set : state; rs_lim : Z }.

Definition rinit (k : kind) : rstate := {| rs_set := init k; rs_lim := nam_default |}.

Definition rstep (k : kind) (par icls : nat -> nat) (src : sources) (st : rstate) (o : rop)
  : rstate * option rout :=
  match o with
  | RMeth o' => ({| rs_set := fst (step k par (rs_set st) o'); rs_lim := rs_lim st |}, None)
  | RLim g => ({| rs_set := rs_set st; rs_lim := fst (gstep (rs_lim st) g) |}, None)
  | RRender i ov fr =>
    (st, Some (render_used (render_method k par icls (rs_set st) i None) ov
                           (s_animated src i) fr (s_size src i)
                           (gread (rs_lim st) (icls i))))
  end.

(** what the renders of a history report, in order *)
Fixpoint rtrace (k : kind) (par icls : nat -> nat) (src : sources) (st : rstate)
         (ops : list rop) : list rout :=
  match ops with
  | [] => []
  | o :: r => let '(st', x) := rstep k par icls src st o in
              match x with
              | Some y => y :: rtrace k par icls src st' r
              | None => rtrace k par icls src st' r
              end
  end.

(** ** The documented rule, on the history alone

    No dictionaries, and NO data size or limit in the method: the requested method is
    the per-call one if given, else what the history says the instance's effective
    method is ([Settings.spec_inst]); the only documented substitutions are
    ANIM -> WHOLE for a non-animated source and for a frame of an iterator / animation.
    The limit (the last accepted class-level word on it, [Settings.gspec]) only decides
    the warning. *)

Definition meth_ops (h : list rop) : list op :=
  flat_map (fun o => match o with RMeth o' => [o'] | _ => [] end) h.
Definition lim_ops (h : list rop) : list gop :=
  flat_map (fun o => match o with RLim g => [g] | _ => [] end) h.

Definition doc_used (requested : Z) (animated frame : bool) : Z :=
  if (requested =? ANIM)%Z then (if animated then (if frame then WHOLE else ANIM) else WHOLE)
  else requested.

Definition spec_render (k : kind) (par icls : nat -> nat) (src : sources) (h : list rop)
           (i : nat) (override : option Z) (frame : bool) : rout :=
  let requested := match override with
                   | Some m => m
                   | None => spec_inst k par icls (meth_ops h) i
                   end in
  let u := doc_used requested (s_animated src i) frame in
  {| used := u; warned := (u =? ANIM)%Z && (gspec (lim_ops h) <? s_size src i)%Z |}.

Fixpoint spec_rtrace (k : kind) (par icls : nat -> nat) (src : sources)
         (done todo : list rop) : list rout :=
  match todo with
  | [] => []
  | RRender i ov fr :: r =>
    spec_render k par icls src done i ov fr
      :: spec_rtrace k par icls src (done ++ [RRender i ov fr]) r
  | o :: r => spec_rtrace k par icls src (done ++ [o]) r
  end.
