(** Executable comparison used by the C15 correspondence.

    A case carries a scripted terminal, a history, and what the implementation showed:
    per operation the caller-visible value and the four body counters, plus, for every
    getter, the value a twin copy of the package computed from empty caches for the
    same terminal (under the current query status [t_fc] and with queries enabled
    [t_fe]).

    Armed calls ([GetCellSizeAbort] ...: a fault is armed inside [query_terminal]) are
    observed as [raised] when the exception reached the caller, else as the plain value;
    the twin's fresh values are those of the plain getter.

    [GetTscResize t] is the [terminal_size_cached] probe called with a resize to [t]
    armed inside its body (the body reads the terminal, then resizes it, then returns);
    the twin's fresh value is the one for the terminal the call was made at.  What such
    a call must NOT do — leave its value behind under the NEW size — is judged at the
    probe calls that follow it, against the twin's fresh value for the new terminal.

    [check] returns 0 = agrees with model and specification; 1 = differs from the model
    (or the model's [fresh_*] differ from the twin's values); 2 = the observed behaviour
    contradicts the specification (only judged when the history satisfies the
    property's side condition [px_okb]); 3 = both. *)
From Coq Require Import List ZArith Bool Arith.
Import ListNotations.
From TI Require Import lib.Sched model.Caches.
Open Scope Z_scope.

Fixpoint zl_eqb (a b : list Z) : bool :=
  match a, b with
  | [], [] => true
  | x :: a', y :: b' => Z.eqb x y && zl_eqb a' b'
  | _, _ => false
  end.

(** a ratio is observed as the exact value [n / d] of the Python float; the model has the
    integer pair [(w, h)] it was divided from (or the exact user-given fraction):
    [n / d] must be [w / h] up to one rounding *)
Definition ratio_close (obs mdl : list Z) : bool :=
  match obs, mdl with
  | [n; d], [w; h] =>
    (0 <? d) && (0 <? h) && (Z.abs (n * h - w * d) * 2 ^ 52 <=? Z.abs (w * d))
  | _, _ => false
  end.

Definition is_ratio_op (o : op) : bool :=
  match o with GetCellRatio | GetCellRatioAbort => true | _ => false end.

(** [strict]: counters must be equal (model); otherwise they must not exceed the
    reference (specification: a body runs AT MOST once per entry the history allows) *)
Fixpoint zl_leb (a b : list Z) : bool :=
  match a, b with
  | [], [] => true
  | x :: a', y :: b' => Z.leb x y && zl_leb a' b'
  | _, _ => false
  end.

Definition row_eqb (strict : bool) (o : op) (obs mdl : list Z * list Z) : bool :=
  (if is_ratio_op o && negb (zl_eqb (fst obs) raised) && negb (zl_eqb (fst mdl) raised)
   then ratio_close (fst obs) (fst mdl) else zl_eqb (fst obs) (fst mdl))
  && (if strict then zl_eqb (snd obs) (snd mdl) else zl_leb (snd obs) (snd mdl)).

Fixpoint rows_eqb (strict : bool) (ops : list op) (obs mdl : list (list Z * list Z)) : bool :=
  match ops, obs, mdl with
  | [], [], [] => true
  | o :: r, x :: xs, y :: ys => row_eqb strict o x y && rows_eqb strict r xs ys
  | _, _, _ => false
  end.

Record tcase := {
  t_env : tenv;
  t_t0 : tsize;
  t_ops : list op;
  t_obs : list (list Z * list Z);
  t_fc : list (list Z);
  t_fe : list (list Z)
}.

(** the model's fresh value for the getter [o] in the history state [h] under status [q] *)
Definition fresh_view (e : tenv) (h : hstate) (o : op) (q : bool) : list Z :=
  let t := h_tm h in
  let sw := h_swap h in
  match plain o with
  | GetCellSize => view_cs (fresh_cs e t sw q)
  | GetCellRatio => view_ratio (fresh_dyn_ratio e t sw q)
  | GetColors k => view_col (fresh_col e t sw q k)
  | GetNameVersion | IsOnKitty => view_nv (fresh_nv e t sw q)
  | GetTsc | GetTscResize _ => view_ratio (fresh_tsc t)
  | _ => []
  end.

Definition fresh_row_ok (o : op) (twin mdl : list Z) : bool :=
  if is_ratio_op o then ratio_close twin mdl else zl_eqb twin mdl.

(** the twin's fresh values agree with the model's [fresh_*] *)
Fixpoint fresh_ok (e : tenv) (h : hstate) (ops : list op) (fc fe : list (list Z)) : bool :=
  match ops, fc, fe with
  | [], [], [] => true
  | o :: r, c :: fc', en :: fe' =>
    fresh_row_ok o c (fresh_view e h o (h_qen h))
    && fresh_row_ok o en (fresh_view e h o true)
    && fresh_ok e (fst (hstep e h o)) r fc' fe'
  | _, _, _ => false
  end.

(** the property judged on observations alone (no model value involved): a getter's
    answer is the twin's fresh answer under the current status or under "enabled", and
    under "enabled" whenever queries are enabled now; the derived flag is derived from
    such an answer.  An armed call that returns normally is judged like the plain call;
    what an aborted computation must NOT do — leave something behind — is judged at the
    calls that follow it. *)
Definition derive (o : op) (v : list Z) : list Z :=
  match o with
  | IsOnKitty => [if Z.eqb (hd 0 v) KITTY then 1 else 0]
  | _ => v
  end.

Definition same_val (o : op) (obs fr : list Z) : bool := zl_eqb obs (derive o fr).

Definition judged (h : hstate) (o : op) : bool :=
  match plain o with
  | GetCellSize | GetColors _ | GetNameVersion | IsOnKitty | GetTsc | GetTscResize _ => true
  | GetCellRatio => match h_ratio h with Dynamic => true | Fixed _ => false end
  | _ => false
  end.

Fixpoint obs_ok (e : tenv) (h : hstate) (ops : list op)
         (obs : list (list Z * list Z)) (fc fe : list (list Z)) : bool :=
  match ops, obs, fc, fe with
  | [], [], [], [] => true
  | o :: r, x :: xs, c :: fc', en :: fe' =>
    (negb (judged h o)
     || (is_abort o && zl_eqb (fst x) raised)   (* the caller got the exception: no value to judge *)
     || (if h_qen h then same_val o (fst x) en
         else same_val o (fst x) c || same_val o (fst x) en))
    && obs_ok e (fst (hstep e h o)) r xs fc' fe'
  | _, _, _, _ => false
  end.

Definition check (t : tcase) : nat :=
  let e := t_env t in
  let ok_model :=
      rows_eqb true (t_ops t) (t_obs t) (trace e (init (t_t0 t)) (t_ops t))
      && fresh_ok e (hinit (t_t0 t)) (t_ops t) (t_fc t) (t_fe t) in
  let ok_spec :=
      negb (wf_sizes (t_t0 t) (t_ops t) && px_okb e (hinit (t_t0 t)) (t_ops t))
      || (rows_eqb false (t_ops t) (t_obs t) (spec_trace e (hinit (t_t0 t)) (t_ops t))
          && obs_ok e (hinit (t_t0 t)) (t_ops t) (t_obs t) (t_fc t) (t_fe t)) in
  ((if ok_model then 0 else 1) + (if ok_spec then 0 else 2))%nat.

Fixpoint index_from {A} (n : nat) (l : list A) : list (nat * A) :=
  match l with [] => [] | x :: r => (n, x) :: index_from (S n) r end.

Definition bad (cases : list tcase) : list (nat * nat) :=
  filter (fun p => negb (Nat.eqb (snd p) 0)) (index_from 0 (map check cases)).

(** ** thread race on a memoised function

    [r_n] threads are released together on a first call with one argument tuple; the
    caches are invalidated; [r_n] more threads call.  Observed: cumulative body-call
    counts after each round and whether all callers of a round got one value. *)
Record rcase := { r_n : nat; r_counts : list nat; r_same : list bool }.

Open Scope nat_scope.

Definition race_prog (n : nat) (t : nat) : list mcmd :=
  if Nat.eqb t 0 then [MInval] else if Nat.leb t (2 * n) then [MCall 0] else [].

(** a complete schedule: round one (threads 1..n interleaved step by step), the
    invalidation (thread 0), round two (threads n+1..2n) *)
Definition round_robin (lo n k : nat) : list nat :=
  concat (repeat (map (fun i => lo + i) (seq 0 n)) k).

Definition race_totals (n : nat) : list nat :=
  let bv := fun i _ => Some (Some (Z.of_nat i)) in
  let s1 := run_sched (mstep bv) (minit (race_prog n)) (round_robin 1 n (6 * n)) in
  let s2 := run_sched (mstep bv) s1 ([0; 0; 0] ++ round_robin (n + 1) n (6 * n)) in
  [m_total s1; m_total s2].

Fixpoint nl_eqb (a b : list nat) : bool :=
  match a, b with
  | [], [] => true
  | x :: a', y :: b' => Nat.eqb x y && nl_eqb a' b'
  | _, _ => false
  end.

(** specification: per round (= per epoch) the body ran at most once more, and all
    callers agree *)
Fixpoint counts_ok (prev : nat) (l : list nat) : bool :=
  match l with [] => true | c :: r => Nat.leb c (S prev) && Nat.leb prev c && counts_ok c r end.

Definition rcheck (c : rcase) : nat :=
  (if nl_eqb (r_counts c) (race_totals (r_n c)) then 0 else 1)
  + (if counts_ok 0 (r_counts c) && forallb (fun b => b) (r_same c) then 0 else 2).

Definition rbad (cases : list rcase) : list (nat * nat) :=
  filter (fun p => negb (Nat.eqb (snd p) 0)) (index_from 0 (map rcheck cases)).

(** all cases: (index, check code + 10 if the history satisfies the side condition) *)
Definition report (cases : list tcase) : list (nat * nat) :=
  index_from 0 (map (fun t => check t
                              + (if wf_sizes (t_t0 t) (t_ops t) && px_okb (t_env t) (hinit (t_t0 t)) (t_ops t) then 10 else 0))
                    cases).

(** ** fresh computation in a new interpreter: the model's [fresh_*] must give the same *)
Record fcase := {
  f_env : tenv; f_t : tsize; f_sw : bool; f_q : bool;
  f_cs : list Z; f_cr : list Z; f_nv : list Z; f_k : list Z; f_co : list (list Z)
}.

Definition fcheck (c : fcase) : nat :=
  let e := f_env c in
  let nv := fresh_nv e (f_t c) (f_sw c) (f_q c) in
  if zl_eqb (f_cs c) (view_cs (fresh_cs e (f_t c) (f_sw c) (f_q c)))
     && ratio_close (f_cr c) (view_ratio (fresh_dyn_ratio e (f_t c) (f_sw c) (f_q c)))
     && zl_eqb (f_nv c) (view_nv nv)
     && zl_eqb (f_k c) (view_b (is_kitty nv))
     && match f_co c with
        | [a; b; d] => zl_eqb a (view_col (fresh_col e (f_t c) (f_sw c) (f_q c) 0))
                       && zl_eqb b (view_col (fresh_col e (f_t c) (f_sw c) (f_q c) 1))
                       && zl_eqb d (view_col (fresh_col e (f_t c) (f_sw c) (f_q c) 2))
        | _ => false
        end
  then 0 else 1.

Definition fbad (cases : list fcase) : list (nat * nat) :=
  filter (fun p => negb (Nat.eqb (snd p) 0)) (index_from 0 (map fcheck cases)).

(** ** sequential histories of a probe decorated with the real [utils.cached]

    The probe's body returns, per scripted argument tuple [k], the result [nth k p_body]
    ([None] = Python's [None]; [Some c] = another object, by code: 0, "", (None, None),
    a tuple, False ...).  Observed per command: how often the body ran during it and the
    value returned ([None] for an invalidation).

    [pcheck]: 1 = differs from the model (the micro-step model of [cached_wrapper] run by
    one thread to completion); 2 = the observations contradict the specification, judged
    on the observations alone: within one invalidation epoch the body runs at most once
    per argument tuple — never again once it has run —, an invalidation runs nothing, and
    every call returns the body's result for its argument. *)
Open Scope Z_scope.

Record pcase := {
  p_body : list mres;
  p_cmds : list mcmd;
  p_runs : list nat;
  p_vals : list (option mres)
}.

Definition mres_eqb (a b : mres) : bool :=
  match a, b with
  | None, None => true
  | Some x, Some y => Z.eqb x y
  | _, _ => false
  end.

Fixpoint cumul (acc : nat) (l : list nat) : list nat :=
  match l with [] => [] | n :: r => (acc + n)%nat :: cumul (acc + n)%nat r end.

Fixpoint mresl_eqb (a b : list mres) : bool :=
  match a, b with
  | [], [] => true
  | x :: a', y :: b' => mres_eqb x y && mresl_eqb a' b'
  | _, _ => false
  end.

Fixpoint somes {A} (l : list (option A)) : list A :=
  match l with [] => [] | Some x :: r => x :: somes r | None :: r => somes r end.

Fixpoint runs_ok (body : list mres) (seen : list nat) (cmds : list mcmd)
         (runs : list nat) (vals : list (option mres)) : bool :=
  match cmds, runs, vals with
  | [], [], [] => true
  | MInval :: r, n :: ns, v :: vs =>
    Nat.eqb n 0 && match v with None => true | Some _ => false end && runs_ok body [] r ns vs
  | MCall k :: r, n :: ns, v :: vs =>
    (if existsb (Nat.eqb k) seen then Nat.eqb n 0 else Nat.leb n 1)
    && match v with Some x => mres_eqb x (nth k body None) | None => false end
    && runs_ok body (if Nat.eqb n 0 then seen else k :: seen) r ns vs
  | _, _, _ => false
  end.

Definition pcheck (c : pcase) : nat :=
  let bv := fun (_ k : nat) => Some (nth k (p_body c) None) in
  let ok_model :=
      nl_eqb (cumul 0 (p_runs c)) (map fst (mseq_trace bv (p_cmds c)))
      && mresl_eqb (somes (p_vals c))
                   (map snd (m_rets (m_th (mseq bv (p_cmds c)) 0))) in
  ((if ok_model then 0 else 1)
   + (if runs_ok (p_body c) [] (p_cmds c) (p_runs c) (p_vals c) then 0 else 2))%nat.

Definition preport (cases : list pcase) : list (nat * nat) := index_from 0 (map pcheck cases).

(** ** a win-size-swap toggle scheduled against a [get_cell_size] in a second thread

    Thread 0 runs [s_prog] (toggles), thread 1 one [get_cell_size()], on a terminal where
    swapped and unswapped cell sizes differ; the real threads are scheduled
    deterministically (thread 1 runs at a chosen lock event of thread 0) and [s_sched] is
    that schedule in the model's micro-steps.  Observed afterwards: the flag, the cache
    and thread 1's return value (coded 0 = empty / None, 1 = the value for flag [false],
    2 = the value for flag [true], 3 = anything else), and — raw — a [get_cell_size()]
    made after both threads finished, with the twin's fresh value for the final flag.

    [scheck]: 1 = differs from the model; 2 = the call made after the toggle returned
    does not answer with the fresh value (specification, on observations alone). *)
Record scase := {
  s_f0 : bool; s_warm : bool; s_prog : list wcmd; s_sched : list nat;
  s_flag : bool; s_cache : Z; s_bret : Z; s_ncomp : nat;
  s_after : list Z; s_fresh : list Z
}.

Definition code_of (o : option bool) : Z :=
  match o with None => 0 | Some false => 1 | Some true => 2 end.

Definition scheck (c : scase) : nat :=
  let prog := fun t : nat => match t with 0%nat => s_prog c | 1%nat => [WGet] | _ => [] end in
  let s := run_sched wstep (winit (s_f0 c) (if s_warm c then Some (s_f0 c) else None) prog) (s_sched c) in
  let done := fun t => match w_pc (w_th s t), w_todo (w_th s t) with WIdle, [] => true | _, _ => false end in
  let ok_model :=
      done 0%nat && done 1%nat
      && Bool.eqb (w_flag s) (s_flag c) && Z.eqb (code_of (w_cache s)) (s_cache c)
      && match w_rets (w_th s 1%nat) with [f] => Z.eqb (code_of (Some f)) (s_bret c) | _ => false end
      && Nat.eqb (w_ncomp s) (s_ncomp c) in
  ((if ok_model then 0 else 1) + (if zl_eqb (s_after c) (s_fresh c) then 0 else 2))%nat.

Definition sreport (cases : list scase) : list (nat * nat) := index_from 0 (map scheck cases).
