(** * Trim — model of the urwid image canvas ([widget/_urwid.py])

    [calc_trim]        = [UrwidImageCanvas._ti_calc_trim]            (_urwid.py:432-491)
    [ti_lines]         = [UrwidImageCanvas.__init__]                  (_urwid.py:256)
    [content_text]     = [UrwidImageCanvas.content], text-based image (_urwid.py:261-267, 279-396)
    [content_gfx]      = the same, graphics-based image               (_urwid.py:261-267, 397-412)
    [rows], [flow_image_size], [flow_canvas_size]
                       = [UrwidImage.rows] / the flow branch of [UrwidImage.render]
                                                                     (_urwid.py:165-177, 131-142)

    Bytes are modelled by tokens ([lib/Term.v]): one token per glyph, NUL, SGR sequence.
    Slices that the code takes at *byte* offsets ([line[pad_left:-pad_right]]) are taken at
    token offsets here; the two coincide exactly when the sliced-off parts consist of
    one-byte tokens (spaces and NULs), which is the shape [_format_render] produces and
    the shape the theorems assume ([proofs/TrimProofs.v: canvas_lines]).

    Definitions only; Python's slice / [or] / truthiness conventions are written out. *)
From Coq Require Import List ZArith Bool Lia.
Import ListNotations.
From TI Require Import lib.Term lib.TermFacts.
Open Scope Z_scope.

(** ** Python conventions *)

(** [x or d] for an optional integer: [None] and [0] are falsy *)
Definition py_or (x : option Z) (d : Z) : Z :=
  match x with None => d | Some v => if v =? 0 then d else v end.

(** normalisation of a slice bound against a length (step 1) *)
Definition norm_idx (len i : Z) : Z := if i <? 0 then Z.max (len + i) 0 else Z.min i len.

(** [l[a:b]] with [b = None] for "to the end" *)
Definition py_slice {A} (l : list A) (a : Z) (b : option Z) : list A :=
  let len := Z.of_nat (length l) in
  let s := norm_idx len a in
  let e := match b with None => len | Some b => norm_idx len b end in
  firstn (Z.to_nat (e - s)) (skipn (Z.to_nat s) l).

(** [-b or None] *)
Definition neg_or_none (b : Z) : option Z := if b =? 0 then None else Some (- b).

(** [l[i::-1]]: from index [i] (normalised) down to the first element *)
Definition py_rev_from {A} (l : list A) (i : Z) : list A :=
  let len := Z.of_nat (length l) in
  let s := if i <? 0 then len + i else Z.min i (len - 1) in
  if s <? 0 then [] else rev (firstn (Z.to_nat (s + 1)) l).

(** [b" " * n] (empty for [n <= 0]) *)
Definition spaces (n : Z) : list tok := repeat (TChar GSpace) (Z.to_nat n).

Definition is_nul (x : tok) : bool := match x with TNul => true | _ => false end.

(** [bytes.replace(b"\0", b"")] *)
Definition strip_nul (l : list tok) : list tok := filter (fun x => negb (is_nul x)) l.

(** [bytes.split(b"\0")] *)
Fixpoint split_nul (l : list tok) : list (list tok) :=
  match l with
  | [] => [[]]
  | x :: r =>
    if is_nul x then [] :: split_nul r
    else match split_nul r with
         | c :: cs => (x :: c) :: cs
         | [] => [[x]]
         end
  end.

(** [bytes.split(b"\n")] on the token level *)
Fixpoint split_lf (l : list tok) : list (list tok) :=
  match l with
  | [] => [[]]
  | x :: r =>
    if is_lf x then [] :: split_lf r
    else match split_lf r with
         | c :: cs => (x :: c) :: cs
         | [] => [[x]]
         end
  end.

(** [cell.startswith(ESC_b)]: the first token is an escape sequence *)
Definition starts_esc (c : list tok) : bool :=
  match c with x :: _ => is_esc_seq x | [] => false end.

(** tokens whose byte form contains the byte [m]: the SGR sequences and the glyph [m]
    (code 109).  (Other sequences do not occur in a text image's line.) *)
Definition has_m (x : tok) : bool :=
  match x with
  | TSgr0 | TFg _ | TBg _ => true
  | TChar (GOther 109) => true
  | _ => false
  end.

(** [cell[: cell.rindex(b"m") + 1]] (Python raises ValueError when there is no [m];
    the model returns the empty list) *)
Fixpoint upto_last_m (c : list tok) : list tok :=
  match c with
  | [] => []
  | x :: r =>
    match upto_last_m r with
    | [] => if has_m x then [x] else []
    | l => x :: l
    end
  end.

(** ** [_ti_calc_trim], _urwid.py:465-491 *)
Definition calc_trim (size image_size trim1 pad1 trim2 pad2 : Z) : Z * Z * Z * Z :=
  let image_end := size - pad2 in
  let '(np1, ti1, np2) :=
      if trim1 >=? image_end then (0, image_size, size - trim1)      (* within side2 padding *)
      else if trim1 >=? pad1 then (0, trim1 - pad1, pad2)            (* within the image *)
      else (pad1 - trim1, 0, pad2) in                                (* within side1 padding *)
  let image_end := size - pad1 in
  let '(np1', np2', ti2) :=
      if trim2 >=? image_end then (np1 - (trim2 - image_end), 0, image_size)   (* side1 padding *)
      else if trim2 >=? pad2 then (np1, 0, trim2 - pad2)                       (* the image *)
      else (np1, np2 - trim2, 0) in                                            (* side2 padding *)
  (np1', ti1, ti2, np2').

(** alignment to (side1, side2) padding, _urwid.py:285-294 and 311-320;
    [al]: 0 = '<' / '^', 2 = '>' / '_', anything else = centre / middle *)
Definition align_pads (al : nat) (pad : Z) : Z * Z :=
  match al with
  | O => (0, pad)
  | S (S O) => (pad, 0)
  | _ => (pad / 2, pad - pad / 2)
  end.

(** ** the canvas's lines, _urwid.py:256:
    [[line + b"\0\0" for line in render.encode().split(b"\n")]] *)
Definition ti_lines (render : list tok) : list (list tok) :=
  map (fun l => l ++ [TNul; TNul]) (split_lf render).

(** ** first-colour recovery, _urwid.py:373-379: scan the given cells (already in
    right-to-left order) for the nearest one that starts with an escape sequence *)
Fixpoint find_first_color (cs : list (list tok)) : list tok :=
  match cs with
  | [] => []
  | c :: r => if starts_esc c then upto_last_m c else find_first_color r
  end.

(** one image line, _urwid.py:363-392 *)
Definition text_image_row (w pad_left pad_right2 npl til tir npr : Z) (line : list tok)
  : list tok :=
  let image_line_is_full := (til =? 0) && (0 =? tir) in                     (* :330 *)
  let image_line_is_partial := negb (til =? w) && negb (w =? tir) in        (* :331-333 *)
  let left_padding := if npl =? 0 then [] else spaces npl in                (* :336-338 *)
  let right_padding := if npr =? 0 then [] else spaces npr in               (* :339-341 *)
  let color_reset := if (tir <? w) && (0 <? tir) then [TSgr0] else [] in    (* :342-346 *)
  let inner := py_slice line pad_left (Some (- pad_right2)) in              (* line[pad_left:-pad_right] *)
  let image :=
      if image_line_is_full then strip_nul inner                            (* :365-366 *)
      else if image_line_is_partial then                                    (* :367-379 *)
        let cells := split_nul inner in
        let image_line := concat (py_slice cells til (neg_or_none tir)) in
        let first_color :=
            if starts_esc (nth (Z.to_nat til) cells []) then []
            else find_first_color (py_rev_from cells (til - 1)) in
        first_color ++ image_line
      else [] in                                                            (* :380-384 *)
  left_padding ++ image ++ color_reset ++ right_padding ++ [TNul; TNul].    (* :386-392 *)

(** ** [content] for a text-based image (canvas [W x H], image [w x h], alignments
    [ha], [va], the canvas's [_ti_lines]) *)
Definition content_text (ha va : nat) (W H w h : Z) (lines : list (list tok))
           (trim_left trim_top : Z) (cols rows : option Z) : list (list tok) :=
  let visible_rows := py_or rows H in                                       (* :264 *)
  let trim_bottom := H - trim_top - visible_rows in                         (* :265 *)
  let visible_cols := py_or cols W in                                       (* :266 *)
  let trim_right := W - trim_left - visible_cols in                         (* :267 *)
  if (trim_left =? 0) && (0 =? trim_right) then                             (* :280-283 *)
    map (fun line => strip_nul line ++ [TNul; TNul])
        (py_slice lines trim_top (neg_or_none trim_bottom))
  else
    let '(pad_top, pad_bottom) := align_pads va (H - h) in                  (* :285-294 *)
    let '(npt, tit, tib, npb) :=
        calc_trim H h trim_top pad_top trim_bottom pad_bottom in            (* :296-303 *)
    let image_is_empty := (h =? tit) || (h =? tib) in                       (* :304 *)
    let image_is_partial := negb (tit =? h) && negb (h =? tib) in           (* :305 *)
    let padding_line := spaces visible_cols ++ [TNul; TNul] in              (* :308 *)
    (* :310-347 (evaluated only when the image is not empty; pure) *)
    let '(pad_left, pad_right) := align_pads ha (W - w) in
    let '(npl, til, tir, npr) :=
        calc_trim W w trim_left pad_left trim_right pad_right in
    let pad_right2 := pad_right + 2 in                                      (* :334 *)
    let image_lines :=                                                      (* :349-356 *)
        if image_is_empty then []
        else
          let il := py_slice lines pad_top (neg_or_none pad_bottom) in
          if image_is_partial then py_slice il tit (neg_or_none tib) else il in
    repeat padding_line (Z.to_nat npt)                                      (* :359-360 *)
    ++ map (text_image_row w pad_left pad_right2 npl til tir npr) image_lines
    ++ repeat padding_line (Z.to_nat npb).                                  (* :395-396 *)

(** ** [content] for a graphics-based image; [d] = number of [b"\b "] pairs of the
    disguise (:402-410); a yielded row is (tokens, number of disguise pairs appended) *)
Definition content_gfx (W H : Z) (lines : list (list tok)) (d : nat)
           (trim_left trim_top : Z) (cols rows : option Z) : list (list tok * nat) :=
  let visible_rows := py_or rows H in
  let trim_bottom := H - trim_top - visible_rows in
  let visible_cols := py_or cols W in
  let trim_right := W - trim_left - visible_cols in
  if negb (trim_left =? 0) || negb (trim_right =? 0) then                   (* :397-400 *)
    repeat (spaces visible_cols, O) (Z.to_nat visible_rows)
  else                                                                      (* :411-412 *)
    map (fun line => (line, d)) (py_slice lines trim_top (neg_or_none trim_bottom)).

(** ** flow widgets: [rows((maxcol,))] and the size [render((maxcol,))] uses.
    [fit = image._valid_size(maxcol)], [ori = image._valid_size(Size.ORIGINAL)];
    [upscale] <-> [_ti_sizing is Size.FIT] *)
Definition rows (upscale : bool) (fit ori : Z * Z) : Z :=                   (* :165-177 *)
  if upscale then snd fit
  else if (fst ori <=? fst fit) && (snd ori <=? snd fit) then snd ori else snd fit.

(** [image._size] after the flow branch: [set_size(maxcol)] stores [_valid_size(maxcol)]
    (common.py:1085) *)
Definition flow_image_size (upscale : bool) (fit ori : Z * Z) : Z * Z :=    (* :131-141 *)
  if upscale then fit
  else if (fst ori <=? fst fit) && (snd ori <=? snd fit) then ori else fit.

Definition flow_canvas_size (maxcol : Z) (upscale : bool) (fit ori : Z * Z) : Z * Z :=
  (maxcol, snd (flow_image_size upscale fit ori)).                          (* :142 *)
