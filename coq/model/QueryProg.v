(** * QueryProg — the body of [utils.query_terminal] as a step program (C12, source tie)

    [harness/tx/tx_queryprog.py] translates the statements of [query_terminal] into a list of
    [qstmt] ([gen/QueryProgSrc.v], regenerated on every run).  This file runs such a program over
    the tty model of [QueryInit.v] (attributes + input queue + clock): each statement is the
    model operation it names ([tcsetattr], [write_A], [timed_read_A]); a [return] ends the
    straight-line part, the [finally] block runs all the same.  [proofs/QueryProgTie.v] proves
    that the translated program IS [QueryFlush.query_F ... flush_before].  Definitions only. *)
From Coq Require Import List ZArith Bool.
Import ListNotations.
From TI Require Import model.Query model.QueryInit.

Inductive qattr := AOld | ANew.

Inductive qstmt :=
| QGuardEnabled                          (* [if not _queries_enabled: return None] *)
| QSaveOld                               (* [old_attr = termios.tcgetattr(_tty_fd)] *)
| QSaveNew                               (* [new_attr = termios.tcgetattr(_tty_fd)] *)
| QNoEcho                                (* [new_attr[3] &= ~termios.ECHO] *)
| QSet (w : tcaction) (a : qattr)        (* [termios.tcsetattr(_tty_fd, w, a)] *)
| QWrite                                 (* [write_tty(request)] *)
| QReturnRead                            (* [return read_tty(more, timeout or _query_timeout)] *)
| QTryFinally (body fin : list qstmt).

Record qenv := {
  q_old : tattr;                          (* the local [old_attr] *)
  q_new : tattr;                          (* the local [new_attr] *)
  q_tty : ttyA;
  q_ret : option (option (list Z))        (* [Some r]: the function has executed [return r] *)
}.

Section Run.
  Variable cost : nat -> Z.
  Variable cfg : config.
  Variable term : terminal.
  Variable more : list Z -> bool.
  Variable request : list Z.

  Definition with_ret (e : qenv) (r : option (option (list Z))) : qenv :=
    {| q_old := q_old e; q_new := q_new e; q_tty := q_tty e; q_ret := r |}.

  Fixpoint qrun (p : qstmt) (e : qenv) {struct p} : qenv :=
    let go := fix go (l : list qstmt) (e : qenv) {struct l} : qenv :=
                match l with
                | [] => e
                | x :: r => match q_ret e with Some _ => e | None => go r (qrun x e) end
                end in
    match p with
    | QGuardEnabled => if negb (enabled cfg) then with_ret e (Some None) else e
    | QSaveOld => {| q_old := attr (q_tty e); q_new := q_new e; q_tty := q_tty e; q_ret := q_ret e |}
    | QSaveNew => {| q_old := q_old e; q_new := attr (q_tty e); q_tty := q_tty e; q_ret := q_ret e |}
    | QNoEcho => {| q_old := q_old e; q_new := no_echo (q_new e); q_tty := q_tty e; q_ret := q_ret e |}
    | QSet w a =>
      {| q_old := q_old e; q_new := q_new e;
         q_tty := tcsetattr w (match a with AOld => q_old e | ANew => q_new e end) (q_tty e);
         q_ret := q_ret e |}
    | QWrite => {| q_old := q_old e; q_new := q_new e; q_tty := write_A cost term request (q_tty e);
                   q_ret := q_ret e |}
    | QReturnRead =>
      let (inp, s') := timed_read_A cost more (qtimeout cfg) (q_tty e) in
      {| q_old := q_old e; q_new := q_new e; q_tty := s'; q_ret := Some (Some inp) |}
    | QTryFinally body fin =>
      let e1 := go body e in
      (* the [finally] block runs whether or not the body returned; it has no [return] of its
         own in the subset, so the body's result stands *)
      with_ret (go fin (with_ret e1 None)) (q_ret e1)
    end.

  Fixpoint qrun_list (l : list qstmt) (e : qenv) : qenv :=
    match l with
    | [] => e
    | x :: r => match q_ret e with Some _ => e | None => qrun_list r (qrun x e) end
    end.

  (** the call: locals uninitialised (any value: they are assigned before use), falling off
      the end returns [None] *)
  Definition qcall (prog : list qstmt) (s : ttyA) : option (list Z) * ttyA :=
    let e := qrun_list prog {| q_old := attr s; q_new := attr s; q_tty := s; q_ret := None |} in
    (match q_ret e with Some r => r | None => None end, q_tty e).
End Run.
