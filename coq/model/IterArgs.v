(** * IterArgs — the render arguments handed to a render iterator, by CLASS RELATION (C08)

    [Iter] / [IterSpec] treat the render arguments of [set_render_args] (and of the
    constructors) as an opaque value with a validity bit ([SetArgs (a : option Z)],
    [c_args : option Z]).  What decides that bit in the code is the relation between the
    class the offered [RenderArgs] object is associated with ([render_args.render_cls]) and
    the class of the iterated renderable ([type(self._renderable)]):

    - the SAME class: installed as it is                      [_iterator.py:424-426]
    - an ANCESTOR's class: compatible; CONVERTED by
      [RenderArgs(render_cls, render_args)] (the namespaces the offered object has are
      kept, the renderable's own remaining namespaces take their defaults)
                                                              [_iterator.py:427-428,
                                                               _types.py:911-916,959-966]
    - a DESCENDANT's (subclass's) class, or an UNRELATED class (no subclass relation either
      way, e.g. a sibling): [IncompatibleRenderArgsError], nothing changes
                                                              [_types.py:911-916]

    Documented ([RenderArgs]: "render arguments associated with class A are compatible with
    class B iff B is A or a subclass of A"; [set_render_args]: "Raises
    IncompatibleRenderArgsError: Incompatible render arguments"; the constructors likewise).

    The value universe is the one of the instrumented hierarchy of [harness/impl/impl_c08.py]
    (Renderable <- VR <- VRMid <- VRLeaf, VRSib, Other; iterators over VRMid instances):
    [o_inh] = the field the offered object has for the INHERITED namespace (class VR; the
    default 0 if it has none), [o_own] = the field it has for the renderable's OWN class
    (VRMid); what [_render_] sees is [value inh own].

    Definitions only; proofs are in [proofs/IterArgsProofs.v]. *)
From Coq Require Import List ZArith Bool.
Import ListNotations.
From TI Require Import model.Iter model.IterSpec model.IterEnv.
Open Scope Z_scope.

(** relation of [render_args.render_cls] to [type(renderable)] *)
Inductive crel := CSame | CAncestor | CDescendant | CUnrelated.

Record offered := { o_rel : crel; o_inh : Z; o_own : Z }.

(** what [_render_] is handed, as one integer (the driver's encoding) *)
Definition value (inh own : Z) : Z := inh + 100 * own.

(** ** the code *)

(** [RenderArgs(render_cls, init_render_args)], [_types.py:897-966]:
    [not issubclass(render_cls, init_render_args.render_cls)] raises; otherwise the
    defaults of [render_cls] updated by the namespaces of the initial object *)
Definition convert (x : offered) : option Z :=
  match o_rel x with
  | CSame => Some (value (o_inh x) (o_own x))
  | CAncestor => Some (value (o_inh x) 0)       (* no namespace of the own class: default *)
  | CDescendant => None
  | CUnrelated => None
  end.

(** [set_render_args], [_iterator.py:423-428]; the same test in [_from_render_data_]
    [_iterator.py:492-494] and [_init_render_] [_renderable.py:1113-1115]:
    [render_args if render_args.render_cls is render_cls else RenderArgs(render_cls, render_args)] *)
Definition install (x : offered) : option Z :=
  match o_rel x with
  | CSame => Some (value (o_inh x) (o_own x))
  | _ => convert x
  end.

(** EXCLUDED design: the fast path taken for [issubclass(render_args.render_cls, render_cls)]
    ("has a namespace for every class of the MRO already") *)
Definition install_issub (x : offered) : option Z :=
  match o_rel x with
  | CSame | CDescendant => Some (value (o_inh x) (o_own x))
  | _ => convert x
  end.

(** ** the documentation *)

Definition compatible (r : crel) : bool :=
  match r with CSame | CAncestor => true | CDescendant | CUnrelated => false end.

(** the arguments in force once compatible arguments were accepted: every namespace of the
    renderable's class the offered object carries, defaults for the rest *)
Definition doc_value (x : offered) : Z :=
  value (o_inh x) (match o_rel x with CAncestor => 0 | _ => o_own x end).

Definition doc_install (x : offered) : option Z :=
  if compatible (o_rel x) then Some (doc_value x) else None.

(** ** histories whose [set_render_args] carry offered objects *)

Inductive aop := APlain (o : op) | ASetArgs (x : offered).

Definition lower (f : offered -> option Z) (a : aop) : op :=
  match a with APlain o => o | ASetArgs x => SetArgs (f x) end.

(** the constructor's [render_args]: [None] = not given (the defaults of the class) *)
Definition with_args (f : offered -> option Z) (c : config) (x : option offered) : config :=
  {| c_loops := c_loops c; c_cache := c_cache c; c_size := c_size c; c_dur := c_dur c;
     c_args := match x with None => Some (value 0 0) | Some x => f x end;
     c_pad := c_pad c; c_owns := c_owns c; c_frame := c_frame c |}.

(** events of [IterEnv] (terminal size in force; operation or client write to [.loop]) *)
Inductive aeop := AEOp (a : aop) | AEPoke (v : Z).
Definition aev := (size * aeop)%type.

Definition lower_ev (f : offered -> option Z) (e : aev) : ev :=
  (fst e, match snd e with AEOp a => EOp (lower f a) | AEPoke v => EPoke v end).
