(** * DrawInt — what the terminal receives when draw() is interrupted (C07, terminal side)

    The token stream written to standard output when the [k]-th stream write of draw()
    is cut after [j] tokens (a [TCut kind] where the cut falls inside an escape sequence)
    and the code's clean-up then runs.  Definitions only; mirrors

    - old API: [BaseImage.draw] / inner [render()] ([image/common.py:763-787]),
      [_display_animated] ([common.py:1318-1366]), [KittyImage._handle_interrupted_draw]
      ([kitty.py:381-398]: ST ST + q=1,m=0), [ITerm2Image._handle_interrupted_draw]
      ([iterm2.py:549-561]: ST ST), [BaseImage._handle_interrupted_draw] ([common.py:1607]: nothing);
    - new API: [Renderable.draw] ([renderable/_renderable.py:553-591]), [_animate_]
      ([_renderable.py:749-813]), with [_handle_interrupted_draw_] (what the subclass writes)
      a parameter.

    A write is the token list of ONE [write()] call with a non-empty string; [print(a, b,
    sep="", end="")] is one write per argument.  Self-contained (does not use model/Draw.v). *)
From Coq Require Import List ZArith Bool.
Import ListNotations.
From TI Require Import lib.Term.
Open Scope Z_scope.

(** ** Cutting a write *)

(** which kinds of cut can fall inside the transmission of token [x]: a one-character
    token cannot be cut; a CSI sequence is cut as a CSI; a graphics-protocol string (APC /
    OSC) is cut inside the string, or right after its ESC ([CutCsi]: only ESC got out) *)
Definition cut_ok (x : tok) (c : cut_kind) : bool :=
  match x with
  | TChar _ | TNul | TCR | TLF | TCut _ => false
  | TSgr0 | TFg _ | TBg _ | TCuu _ | TCud _ | TCuf _ | TCub _ | TEch _
  | THide | TShow | TSyncB | TSyncE | TSt =>
      match c with CutCsi => true | _ => false end
  | TKittyFirst _ _ _ | TKittyCont _ _ | TKittyEnd | TKittyDel _ =>
      match c with CutCsi | CutApc => true | CutOsc => false end
  | TIterm _ _ _ _ _ =>
      match c with CutCsi | CutOsc => true | CutApc => false end
  end.

(** the part of write [w] that reaches the terminal when it is interrupted after [j]
    complete tokens; [c] = the cut fell inside token [j] *)
Definition cutw (w : list tok) (j : nat) (c : option cut_kind) : list tok :=
  firstn j w ++
  match c, nth_error w j with
  | Some k, Some x => if cut_ok x k then [TCut k] else []
  | _, _ => []
  end.

(** ** Old API *)

Inductive style := SBlock | SKitty | SIterm.

(** [_handle_interrupted_draw()] *)
Definition handler (s : style) : list tok :=
  match s with
  | SBlock => []                               (* common.py:1607 *)
  | SKitty => [TSt; TSt; TKittyEnd]            (* kitty.py:398 *)
  | SIterm => [TSt; TSt]                       (* iterm2.py:561 *)
  end.

(** [ctlseqs.cursor_up / cursor_down / cursor_forward]: empty when [n <= 0] *)
Definition cuu (n : Z) : list tok := if 0 <? n then [TCuu n] else [].
Definition cud (n : Z) : list tok := if 0 <? n then [TCud n] else [].
Definition cuf (n : Z) : list tok := if 0 <? n then [TCuf n] else [].

(** [cursor_to_top] of [_display_animated] (common.py:1336): "\r" + cursor_up(lines - 1) *)
Definition old_ctop (lines : Z) : list tok := [TCR] ++ cuu (lines - 1).

(** the non-empty writes of a fault-free draw() on a terminal, before the clean-up:
    HIDE_CURSOR (common.py:766); still: the formatted render (:774); animation: for the
    first frame (:1340) and every later one (:1351) [print(frame, cursor_to_top, sep="",
    end="", flush=True)], i.e. the frame, then "\r" + cursor_up(lines - 1) *)
Definition old_writes (anim : bool) (lines : Z) (frames : list (list tok)) : list (list tok) :=
  [THide] ::
  match frames with
  | [] => []
  | F0 :: Fs => if anim then flat_map (fun F => [F; old_ctop lines]) (F0 :: Fs) else [F0]
  end.

(** finally of [_display_animated] (common.py:1366): cursor_down(lines - 1) *)
Definition old_anim_tail (anim : bool) (lines : Z) : list tok := if anim then cud (lines - 1) else [].
(** finally of [render()] (common.py:787): SGR_DEFAULT, SHOW_CURSOR, "\n" *)
Definition old_final : list tok := [TSgr0; TShow; TLF].

(** what is written after the [k]-th write (or a call between write [k-1] and write [k])
    raised: write 0 (HIDE_CURSOR) is outside the inner try / [_display_animated]; every
    later position is inside the try whose handlers call [_handle_interrupted_draw] for
    KeyboardInterrupt and Exception alike *)
Definition old_recovery (s : style) (anim : bool) (lines : Z) (k : nat) : list tok :=
  match k with
  | O => old_final
  | S _ => handler s ++ old_anim_tail anim lines ++ old_final
  end.

Definition old_normal (anim : bool) (lines : Z) (frames : list (list tok)) : list tok :=
  concat (old_writes anim lines frames) ++ old_anim_tail anim lines ++ old_final.

Definition old_interrupted (s : style) (anim : bool) (lines : Z) (frames : list (list tok))
  (k j : nat) (c : option cut_kind) : list tok :=
  let ws := old_writes anim lines frames in
  concat (firstn k ws) ++ cutw (nth k ws []) j c ++ old_recovery s anim lines k.

(** tokens a style's frames consist of (kitty: anything) *)
Definition plain_tok (x : tok) : bool :=
  match x with
  | TChar _ | TNul | TCR | TLF | TSgr0 | TFg _ | TBg _ | TCuu _ | TCud _ | TCuf _ | TCub _
  | TEch _ | THide | TShow | TSyncB | TSyncE => true
  | _ => false
  end.
Definition tok_ok (s : style) (x : tok) : bool :=
  match s with
  | SBlock => plain_tok x
  | SIterm => plain_tok x || match x with TIterm _ _ _ _ _ | TSt => true | _ => false end
  | SKitty => true
  end.
Definition frames_ok (s : style) (frames : list (list tok)) : bool :=
  forallb (forallb (tok_ok s)) frames.

(** ** New API *)

(** the writes of a fault-free [Renderable.draw] before its finally block, each tagged
    "is a render-output write" (the ones guarded by the inner try):
    HIDE_CURSOR (:560); still: the render (:577); animation: first frame (:757), cursor to the
    top-left of the padded box (:765), then per frame the frame (:791) and cursor to the
    render's top-left (:797).  [h] render height, [pb] bottom padding, [pl] left padding. *)
Definition new_writes (hide anim : bool) (h pb pl : Z) (frames : list (list tok))
  : list (bool * list tok) :=
  (if hide then [(false, [THide])] else []) ++
  match frames with
  | [] => []
  | F0 :: Fs =>
      if anim then
        (true, F0) :: (false, [TCR] ++ cuu (h + pb - 1) ++ cuf pl)
        :: flat_map (fun F => [(true, F); (false, [TCR] ++ cuu (h - 1) ++ cuf pl)]) Fs
      else [(true, F0)]
  end.

(** [first_frame_written] (:770) when the fault is at write [k] or between [k-1] and [k] *)
Definition ffw (hide : bool) (k : nat) : bool :=
  Nat.leb ((if hide then 1 else 0) + 2)%nat k.

(** finally of [draw()] (:585-588): "\n", SHOW_CURSOR *)
Definition new_final (hide : bool) : list tok := [TLF] ++ (if hide then [TShow] else []).

(** [hnd]: what [_handle_interrupted_draw_] writes; it is called when a render-output
    write or its flush raises ([inwrite]) -- KeyboardInterrupt or Exception (pending fix
    C07_renderable_handler_on_exception; before it: KeyboardInterrupt only); then the finally
    of [_animate_] (:809-813) moves down if the first frame had been written *)
Definition new_recovery (hnd : list tok) (hide anim : bool) (h pb : Z)
  (isframe inwrite : bool) (k : nat) : list tok :=
  (if isframe && inwrite then hnd else [])
  ++ (if anim && ffw hide k then cud (h + pb - 1) else [])
  ++ new_final hide.

Definition new_normal (hide anim : bool) (h pb pl : Z) (frames : list (list tok)) : list tok :=
  concat (map snd (new_writes hide anim h pb pl frames))
  ++ (if anim then match frames with [] => [] | _ :: _ => cud (h + pb - 1) end else [])
  ++ new_final hide.

Definition new_interrupted (hnd : list tok) (hide anim : bool) (h pb pl : Z) (frames : list (list tok))
  (k j : nat) (c : option cut_kind) (inwrite : bool) : list tok :=
  let ws := new_writes hide anim h pb pl frames in
  let w := nth k ws (false, []) in
  concat (map snd (firstn k ws))
  ++ (if inwrite then cutw (snd w) j c else [])
  ++ new_recovery hnd hide anim h pb (fst w) inwrite k.

(** frames of a text renderable: plain tokens, no cursor hiding, ending with SGR reset *)
Definition text_frame (f : list tok) : bool :=
  forallb (fun x => plain_tok x && match x with THide => false | _ => true end) f
  && match rev f with TSgr0 :: _ => true | _ => false end.

(** ** The obligation on the terminal *)

Definition term_clean (t : term) : Prop :=
  parser t = Ground /\ pending t = None /\ visible t = true /\ sgr t = adefault.
