(** * SettingsVal — the VALUES handed to the setters of the render-style settings (C20)

    "... invalid values or instance-level writes to class-only settings are rejected
    without changing anything" quantifies over every Python value that is not a valid one.
    [model/Settings.v] starts AFTER the argument check (its values are integers and
    validity is a predicate on integers).  This file models the argument checks
    themselves, over a universe of Python values in which every way of being invalid has
    inhabitants: the wrong type (truthy or FALSY: [0], [0.0], [False], [()], [[]],
    [{}], [b""], a falsy object ...), the right type with a wrong value (unknown / empty
    / padded strings, out-of-range integers), [None] where only a deletion unsets, and a
    valid value at a level that has no setter.

    Two sides, written independently:

    - [front] — the checks and the set / unset dispatch AS THE CODE PERFORMS THEM
      ([isinstance] tests, [.lower()] + membership, the truthiness test [if not method:],
      range comparisons), per setting and level:
        [BaseImage.set_render_method], class form [common.py:983-997],
                                       instance form [common.py:999-1015];
        [ImageMeta.forced_support] setter [common.py:175-180]; the instance-level
          [BaseImage.forced_support] is a [ClassProperty] WITHOUT setter/deleter
          ([common.py:321]; [property.__set__] raises [AttributeError]);
        [ITerm2ImageMeta.jpeg_quality] setter / deleter [iterm2.py:50-64] (the same
          function objects serve the instance-level property, [iterm2.py:306-309]);
        [ITerm2ImageMeta.read_from_file] setter / deleter [iterm2.py:93-106];
        [ITerm2ImageMeta.native_anim_max_bytes] setter / deleter [iterm2.py:74-84]; the
          instance-level property has neither ([iterm2.py:372]).
    - [doc_meaning] — what the DOCUMENTATION says a value means for a setting at a
      level: set this value / unset / invalid (and which error reports it: the library's
      convention, spelled out in [set_render_method]'s docstring, is [TypeError] for "an
      argument of an inappropriate type", [ValueError] for "an appropriate type but an
      unexpected/invalid value"; a write through an instance to a class-only setting is
      an [AttributeError], "Can not be set on an instance").

    A Python [bool] IS an [int] (language reference: [bool] is a subclass of [int],
    [True == 1]); a setting documented as [int] therefore admits booleans, with their
    integer value, on both sides.  Conversely an [int] is not a [bool].

    Definitions only; proofs are in [proofs/SettingsValProofs.v]. *)

From Coq Require Import List ZArith Bool Arith.
Import ListNotations.
From TI Require Import model.Settings.

(** ** Python values *)

Inductive fval := FFin (num : Z) (den : positive) | FNaN | FInf (neg : bool).

Inductive val :=
| VNone
| VStr (s : list Z)        (* the code points *)
| VInt (z : Z)
| VBool (b : bool)
| VFloat (f : fval)
| VBytes (s : list Z)
| VTuple (l : list val)
| VList (l : list val)
| VSized (n : nat)         (* any other sized container (dict, set, frozenset, range,
                              bytearray) with [n] elements; the contents never matter *)
| VObj (t : bool).         (* any other object ([NotImplemented], [...], [0j], an instance
                              of a user class); [t] is its truth value *)

Definition is_nil {A} (l : list A) : bool := match l with [] => true | _ => false end.

(** Python's truth value ([bool(v)]) *)
Definition truthy (v : val) : bool :=
  match v with
  | VNone => false
  | VStr s => negb (is_nil s)
  | VInt z => negb (z =? 0)%Z
  | VBool b => b
  | VFloat (FFin n _) => negb (n =? 0)%Z
  | VFloat _ => true
  | VBytes s => negb (is_nil s)
  | VTuple l => negb (is_nil l)
  | VList l => negb (is_nil l)
  | VSized n => negb (Nat.eqb n 0)
  | VObj t => t
  end.

(** [v is None], [isinstance(v, str)], [isinstance(v, int)], [isinstance(v, bool)] *)
Definition is_none (v : val) : bool := match v with VNone => true | _ => false end.
Definition is_str (v : val) : bool := match v with VStr _ => true | _ => false end.
Definition is_int (v : val) : bool := match v with VInt _ | VBool _ => true | _ => false end.
Definition is_bool (v : val) : bool := match v with VBool _ => true | _ => false end.
(** the integer an [int] instance compares as *)
Definition int_of (v : val) : Z :=
  match v with VInt z => z | VBool true => 1 | _ => 0 end%Z.
Definition str_of (v : val) : list Z := match v with VStr s => s | _ => [] end.

(** ** Strings: [str.lower()] and the render-method names

    [lower_cp] is [str.lower()] on one code point: exact on ASCII; any other code point is
    left alone.  (The real [str.lower()] also maps non-ASCII capitals; what the model
    relies on is only that no code point outside [A-Z] lowers to a string made of letters
    of the render-method names unless it is such a letter itself — checked exhaustively
    over all code points of the running Python by the correspondence driver's probe.) *)
Definition is_upper (c : Z) : bool := ((65 <=? c) && (c <=? 90))%Z.
Definition lower_cp (c : Z) : Z := if is_upper c then (c + 32)%Z else c.
Definition lower (s : list Z) : list Z := map lower_cp s.

Fixpoint cps_eqb (a b : list Z) : bool :=
  match a, b with
  | [], [] => true
  | x :: a', y :: b' => (x =? y)%Z && cps_eqb a' b'
  | _, _ => false
  end.

Definition LINES_S : list Z := [108; 105; 110; 101; 115]%Z.   (* "lines" *)
Definition WHOLE_S : list Z := [119; 104; 111; 108; 101]%Z.   (* "whole" *)
Definition ANIM_S : list Z := [97; 110; 105; 109]%Z.          (* "anim" *)
(** the names a style with [n] render methods implements ([_render_methods]); their
    position is the integer [Settings.k_render_method] uses: 0 lines, 1 whole, 2 anim *)
Definition names (n : nat) : list (list Z) := firstn n [LINES_S; WHOLE_S; ANIM_S].

(** position of [s] in [l], [-1] when absent *)
Fixpoint index_from (i : Z) (s : list Z) (l : list (list Z)) : Z :=
  match l with
  | [] => (-1)%Z
  | x :: r => if cps_eqb s x then i else index_from (i + 1)%Z s r
  end.
Definition index_z (s : list Z) (l : list (list Z)) : Z := index_from 0 s l.
Definition mem_z (s : list Z) (l : list (list Z)) : bool := (0 <=? index_z s l)%Z.

(** ** Settings, levels, outcomes *)

Inductive setting :=
| SRm (n : nat)   (* render method of a style implementing [n] methods *)
| SFs             (* forced_support *)
| SJq             (* jpeg_quality *)
| SRff            (* read_from_file *)
| SNam.           (* native_anim_max_bytes: one global value *)

Inductive level := LCls | LInst.

Inductive err := TypeErr | ValueErr | AttrErr.

(** the inheritable settings are instances of [Settings.kind]; the limit is not *)
Definition kind_of (st : setting) : option kind :=
  match st with
  | SRm n => Some (k_render_method (Z.of_nat n))
  | SFs => Some k_forced_support
  | SJq => Some k_jpeg_quality
  | SRff => Some k_read_from_file
  | SNam => None
  end.

(** ** The code side: argument checks and dispatch, in the order the code performs them *)

Inductive fres := FSet (z : Z) | FUnset | FErr (e : err).

(** [set_render_method], class form [common.py:983-997] *)
Definition front_rm_cls (n : nat) (v : val) : fres :=
  (* if method is not None and not isinstance(method, str): raise TypeError *)
  if negb (is_none v) && negb (is_str v) then FErr TypeErr else
  (* if method is not None and method.lower() not in cls._render_methods: raise ValueError *)
  if negb (is_none v) && negb (mem_z (lower (str_of v)) (names n)) then FErr ValueErr else
  (* if not method: <unset>  else: cls._render_method = method *)
  if negb (truthy v) then FUnset else FSet (index_z (lower (str_of v)) (names n)).

(** [set_render_method], instance form [common.py:999-1015] (its own copy of the checks) *)
Definition front_rm_inst (n : nat) (v : val) : fres :=
  if negb (is_none v) && negb (is_str v) then FErr TypeErr else
  if negb (is_none v) && negb (mem_z (lower (str_of v)) (names n)) then FErr ValueErr else
  if negb (truthy v) then FUnset else FSet (index_z (lower (str_of v)) (names n)).

(** [forced_support]: [if not isinstance(status, bool): raise TypeError]; no setter on
    instances *)
Definition front_fs (lv : level) (v : val) : fres :=
  match lv with
  | LInst => FErr AttrErr
  | LCls => if negb (is_bool v) then FErr TypeErr else FSet (int_of v)
  end.

(** [jpeg_quality]: [if not isinstance(quality, int): TypeError; if quality > 95:
    ValueError]; one function for both levels *)
Definition front_jq (v : val) : fres :=
  if negb (is_int v) then FErr TypeErr else
  if (int_of v >? 95)%Z then FErr ValueErr else FSet (int_of v).

(** [read_from_file]: [if not isinstance(policy, bool): TypeError]; both levels *)
Definition front_rff (v : val) : fres :=
  if negb (is_bool v) then FErr TypeErr else FSet (int_of v).

(** [native_anim_max_bytes]: [if not isinstance(max_bytes, int): TypeError;
    if max_bytes <= 0: ValueError]; no setter on instances *)
Definition front_nam (lv : level) (v : val) : fres :=
  match lv with
  | LInst => FErr AttrErr
  | LCls => if negb (is_int v) then FErr TypeErr else
            if (int_of v <=? 0)%Z then FErr ValueErr else FSet (int_of v)
  end.

Definition front (st : setting) (lv : level) (v : val) : fres :=
  match st with
  | SRm n => match lv with LCls => front_rm_cls n v | LInst => front_rm_inst n v end
  | SFs => front_fs lv v
  | SJq => front_jq v
  | SRff => front_rff v
  | SNam => front_nam lv v
  end.

(** is there a deleter ([del x.attr]; for the render method: a call without argument)? *)
Definition has_del (st : setting) (lv : level) : bool :=
  match st, lv with
  | SRm _, _ => true
  | SFs, _ => false
  | SJq, _ => true
  | SRff, _ => true
  | SNam, LCls => true
  | SNam, LInst => false
  end.

(** ** Value-level operations and histories *)

Inductive vop :=
| VSet (lv : level) (t : nat) (v : val)   (* [t]: class or instance number *)
| VDel (lv : level) (t : nat).

Inductive vout := VOk | VRej (e : err).

(** the state of one setting: dictionaries for an inheritable one, the metaclass cell
    for the limit *)
Record ustate := { u_s : state; u_g : Z }.

Definition uinit (st : setting) : ustate :=
  {| u_s := match kind_of st with
            | Some k => init k
            | None => {| cd := fun _ => None; idt := fun _ => None |}
            end;
     u_g := nam_default |}.

(** [x._attr = value] *)
Definition do_set (st : setting) (u : ustate) (lv : level) (t : nat) (z : Z) : ustate :=
  match kind_of st with
  | None => {| u_s := u_s u; u_g := z |}
  | Some _ =>
    match lv with
    | LCls => {| u_s := {| cd := upd (cd (u_s u)) t (Some z); idt := idt (u_s u) |}; u_g := u_g u |}
    | LInst => {| u_s := {| cd := cd (u_s u); idt := upd (idt (u_s u)) t (Some z) |}; u_g := u_g u |}
    end
  end.

(** [del x._attr] ([AttributeError] swallowed); the class-wide render method of the
    style's base class gets the default back ([common.py:988-994]); the limit is reset to
    the default *)
Definition do_unset (st : setting) (par : nat -> nat) (u : ustate) (lv : level) (t : nat)
  : ustate :=
  match kind_of st with
  | None => {| u_s := u_s u; u_g := nam_default |}
  | Some k =>
    match lv with
    | LCls =>
      let d := upd (cd (u_s u)) t None in
      let d' := if k_pinned k then
                  match cls_lookup par d t t with
                  | Some _ => d
                  | None => upd d t (Some (k_default k))
                  end
                else d in
      {| u_s := {| cd := d'; idt := idt (u_s u) |}; u_g := u_g u |}
    | LInst => {| u_s := {| cd := cd (u_s u); idt := upd (idt (u_s u)) t None |}; u_g := u_g u |}
    end
  end.

Definition vstep (st : setting) (par : nat -> nat) (u : ustate) (o : vop) : ustate * vout :=
  match o with
  | VSet lv t v =>
    match front st lv v with
    | FErr e => (u, VRej e)
    | FUnset => (do_unset st par u lv t, VOk)
    | FSet z => (do_set st u lv t z, VOk)
    end
  | VDel lv t =>
    if has_del st lv then (do_unset st par u lv t, VOk) else (u, VRej AttrErr)
  end.

Definition vrun (st : setting) (par : nat -> nat) (ops : list vop) : ustate :=
  fold_left (fun u o => fst (vstep st par u o)) ops (uinit st).

(** what every class [0..nc-1] and every instance [0..ni-1] reads *)
Definition vobserve (st : setting) (par icls : nat -> nat) (nc ni : nat) (u : ustate)
  : list Z :=
  match kind_of st with
  | Some k => observe k par icls nc ni (u_s u)
  | None => map (gread (u_g u)) (seq 0 nc) ++ map (fun i => gread (u_g u) (icls i)) (seq 0 ni)
  end.

(** ** The documentation side *)

Inductive meaning := MSet (z : Z) | MUnset | MInvalid (e : err).

(** case-insensitive equality with a name, character by character (no [lower]) *)
Definition ci_cp (c d : Z) : bool := ((c =? d) || (is_upper c && (c + 32 =? d)))%Z.
Fixpoint ci_eqb (s name : list Z) : bool :=
  match s, name with
  | [], [] => true
  | c :: s', d :: n' => ci_cp c d && ci_eqb s' n'
  | _, _ => false
  end.
Fixpoint ci_find (i : Z) (s : list Z) (l : list (list Z)) : option Z :=
  match l with
  | [] => None
  | x :: r => if ci_eqb s x then Some i else ci_find (i + 1)%Z s r
  end.

Definition doc_meaning (st : setting) (lv : level) (v : val) : meaning :=
  match st with
  | SRm n =>
    (* "method: The render method to be set or None for a reset (case-insensitive)";
       the same at class and instance level *)
    match v with
    | VNone => MUnset
    | VStr s => match ci_find 0 s (names n) with
                | Some z => MSet z
                | None => MInvalid ValueErr
                end
    | _ => MInvalid TypeErr
    end
  | SFs =>
    (* ":type: bool ... Can not be set on an instance." *)
    match lv with
    | LInst => MInvalid AttrErr
    | LCls => match v with VBool b => MSet (if b then 1 else 0)%Z | _ => MInvalid TypeErr end
    end
  | SJq =>
    (* ":type: int; value < 0: disabled; 0 <= value <= 95: enabled"; class and instance *)
    match v with
    | VInt z => if (z <=? 95)%Z then MSet z else MInvalid ValueErr
    | VBool b => MSet (if b then 1 else 0)%Z
    | _ => MInvalid TypeErr
    end
  | SRff =>
    (* ":type: bool"; class and instance *)
    match v with VBool b => MSet (if b then 1 else 0)%Z | _ => MInvalid TypeErr end
  | SNam =>
    (* ":type: int ... SET: A positive integer; Can not be set via an instance." *)
    match lv with
    | LInst => MInvalid AttrErr
    | LCls => match v with
              | VInt z => if (0 <? z)%Z then MSet z else MInvalid ValueErr
              | VBool true => MSet 1%Z
              | VBool false => MInvalid ValueErr
              | _ => MInvalid TypeErr
              end
    end
  end.

(** a meaning, read as what a setter does with it *)
Definition to_fres (m : meaning) : fres :=
  match m with MSet z => FSet z | MUnset => FUnset | MInvalid e => FErr e end.

Definition valid_for (st : setting) (lv : level) (v : val) : bool :=
  match doc_meaning st lv v with MInvalid _ => false | _ => true end.

(** is a deletion documented at this level?  (forced_support has no DELETE; the limit
    "Can not be reset via an instance") *)
Definition doc_del (st : setting) (lv : level) : bool :=
  match st with
  | SFs => false
  | SNam => match lv with LCls => true | LInst => false end
  | _ => true
  end.

(** The documented reading of a value-level history as a history of [Settings.op]s
    ([Settings.gop]s for the limit): a valid set is a set, [None] where documented and a
    documented deletion are an unset, and an INVALID OPERATION IS NO OPERATION AT ALL. *)
Definition doc_op (st : setting) (o : vop) : list op :=
  match o with
  | VSet lv t v =>
    match doc_meaning st lv v with
    | MSet z => [match lv with LCls => ClsSet t z | LInst => InstSet t z end]
    | MUnset => [match lv with LCls => ClsUnset t | LInst => InstUnset t end]
    | MInvalid _ => []
    end
  | VDel lv t =>
    if doc_del st lv then [match lv with LCls => ClsUnset t | LInst => InstUnset t end] else []
  end.
Definition doc_ops (st : setting) (ops : list vop) : list op := flat_map (doc_op st) ops.

Definition doc_gop (o : vop) : list gop :=
  match o with
  | VSet lv t v =>
    match doc_meaning SNam lv v with
    | MSet z => [GSet t z]
    | _ => []
    end
  | VDel lv t => if doc_del SNam lv then [GUnset t] else []
  end.
Definition doc_gops (ops : list vop) : list gop := flat_map doc_gop ops.

(** the documented outcome of one operation *)
Definition doc_out (st : setting) (o : vop) : vout :=
  match o with
  | VSet lv _ v => match doc_meaning st lv v with MInvalid e => VRej e | _ => VOk end
  | VDel lv _ => if doc_del st lv then VOk else VRej AttrErr
  end.

(** the documented effective values after a value-level history: [Settings.spec_cls] /
    [spec_inst] / [gspec] of its documented reading *)
Definition vspec_observe (st : setting) (par icls : nat -> nat) (nc ni : nat)
           (ops : list vop) : list Z :=
  match kind_of st with
  | Some k => spec_observe k par icls nc ni (doc_ops st ops)
  | None => map (fun _ => gspec (doc_gops ops)) (seq 0 (nc + ni))
  end.

(** ** A design the property excludes: dispatching the check on the argument's truth value

    ("strings are validated, anything else that is truthy is a type error, the rest is an
    unset") — every falsy value of the wrong type is then taken for [None]. *)
Definition front_rm_truthy (n : nat) (v : val) : fres :=
  if is_str v then
    if negb (mem_z (lower (str_of v)) (names n)) then FErr ValueErr
    else if negb (truthy v) then FUnset else FSet (index_z (lower (str_of v)) (names n))
  else if truthy v then FErr TypeErr
  else FUnset.

(** ** Executable helpers for the correspondence *)

Definition err_code (e : err) : Z := match e with TypeErr => 1 | ValueErr => 2 | AttrErr => 3 end%Z.
Definition vout_code (x : vout) : Z := match x with VOk => 0%Z | VRej e => err_code e end.

Fixpoint vtrace (st : setting) (par icls : nat -> nat) (nc ni : nat) (u : ustate)
         (ops : list vop) : list (list Z) :=
  match ops with
  | [] => []
  | o :: r => let '(u', x) := vstep st par u o in
              (vout_code x :: vobserve st par icls nc ni u') :: vtrace st par icls nc ni u' r
  end.

Fixpoint vspec_trace_aux (st : setting) (par icls : nat -> nat) (nc ni : nat)
         (done todo : list vop) : list (list Z) :=
  match todo with
  | [] => []
  | o :: r => let d := done ++ [o] in
              (vout_code (doc_out st o) :: vspec_observe st par icls nc ni d)
                :: vspec_trace_aux st par icls nc ni d r
  end.
Definition vspec_trace st par icls nc ni ops := vspec_trace_aux st par icls nc ni [] ops.
