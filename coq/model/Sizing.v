(** Model of image sizing (C04): [BaseImage._valid_size], [set_size], the [size]
    setter, [rendered_size] and [_renderer]'s temporary fixing of a dynamic size, for
    both style families, generic over the float arithmetic [FA] (lib/FArith.v).
    Definitions only; mirrors the code branch for branch (file:line of
    /repo/src/term_image in comments). *)
From Coq Require Import ZArith List Bool.
Import ListNotations.
From TI Require Import lib.FArith.
Open Scope Z_scope.

(** text-based styles: 1x2 pixels per cell, cell ratio enters through [_pixel_ratio];
    graphics-based styles: cell-size pixels per cell, [_pixel_ratio = 1.0] *)
Inductive family := Text | Graphics.

(** image/common.py:135 [class Size] *)
Inductive smode := AUTO | FIT | FIT_TO_WIDTH | ORIGINAL.

(** a [width] / [height] argument: [None], an [int], a [Size] member, anything else *)
Inductive dim := DNone | DInt (z : Z) | DSize (s : smode) | DBad.

Definition smode_eqb (a b : smode) : bool :=
  match a, b with
  | AUTO, AUTO | FIT, FIT | FIT_TO_WIDTH, FIT_TO_WIDTH | ORIGINAL, ORIGINAL => true
  | _, _ => false
  end.
Definition is_int (d : dim) : bool := match d with DInt _ => true | _ => false end.
Definition is_none (d : dim) : bool := match d with DNone => true | _ => false end.
Definition dim_is (s : smode) (d : dim) : bool :=
  match d with DSize t => smode_eqb s t | _ => false end.
(** [Size.X in (width, height)] *)
Definition has (s : smode) (w h : dim) : bool := dim_is s w || dim_is s h.

(** Python [x or 1] on an int *)
Definition or1 (z : Z) : Z := if z =? 0 then 1 else z.

Section WithFloat.
Context {FA : FloatArith}.
Local Notation ofZ := (@FArith.ofZ FA).
Local Notation fmul := (@FArith.fmul FA).
Local Notation fdiv := (@FArith.fdiv FA).
Local Notation fltb := (@FArith.fltb FA).
Local Notation fleb := (@FArith.fleb FA).
Local Notation fround := (@FArith.fround FA).
Local Notation fceil := (@FArith.fceil FA).
Local Notation fmin := (@FArith.fmin FA).

(** the global environment the size computation reads *)
Record env := {
  e_cols : Z;                      (* get_terminal_size().columns *)
  e_lines : Z;                     (* get_terminal_size().lines *)
  e_cell : option (Z * Z);         (* get_cell_size(): None when the terminal does not answer *)
  e_ratio : option (F FA);         (* term_image._cell_ratio: None = AutoCellRatio.DYNAMIC *)
  e_autosup : option bool          (* AutoCellRatio.is_supported (cached) *)
}.

(** [get_cell_size() or (1, 2)] *)
Definition cell_or_default (e : env) : Z * Z :=
  match e_cell e with Some c => c | None => (1, 2) end.

(** __init__.py:146-152 [get_cell_ratio]: [_cell_ratio or truediv of (get_cell_size() or (1, 2))] *)
Definition get_cell_ratio (e : env) : F FA :=
  match e_ratio e with
  | Some r => r
  | None => let '(cw, ch) := cell_or_default e in fdiv (ofZ cw) (ofZ ch)
  end.

(** common.py:1860 [GraphicsImage._pixel_ratio = 1.0];
    common.py:1941 [TextImage._pixel_ratio = get_cell_ratio() * 2] *)
Definition pixel_ratio (fam : family) (e : env) : F FA :=
  match fam with
  | Graphics => ofZ 1
  | Text => fmul (get_cell_ratio e) (ofZ 2)
  end.

(** block.py:39-52 and common.py:1906-1924: cells -> pixels *)
Definition px_of_cols (fam : family) (e : env) (cols : Z) : Z :=
  match fam with Text => cols | Graphics => cols * fst (cell_or_default e) end.
Definition px_of_lines (fam : family) (e : env) (lines : Z) : Z :=
  match fam with Text => lines * 2 | Graphics => lines * snd (cell_or_default e) end.

(** pixels -> cells.  Text: [pixels] / [ceil(pixels / 2)] (true division, then ceil);
    graphics: [ceil(pixels // cell)] = floor division (the [ceil] of an int is itself) *)
Definition cols_of_px (fam : family) (e : env) (p : Z) : Z :=
  match fam with Text => p | Graphics => p / fst (cell_or_default e) end.
Definition lines_of_px (fam : family) (e : env) (p : Z) : Z :=
  match fam with
  | Text => fceil (fdiv (ofZ p) (ofZ 2))
  | Graphics => p / snd (cell_or_default e)
  end.

(** common.py:1834-1845 [_width_height_px] *)
Definition whpx_w (ow oh w : Z) : F FA := fmul (fdiv (ofZ w) (ofZ ow)) (ofZ oh).
Definition whpx_h (ow oh h : Z) : F FA := fmul (fdiv (ofZ h) (ofZ oh)) (ofZ ow).

(** common.py:1728-1734: [frame_dim if frame_dim > 0 else max(terminal_dim + frame_dim, 1)] *)
Definition resolve (frame_dim terminal_dim : Z) : Z :=
  if 0 <? frame_dim then frame_dim else Z.max (terminal_dim + frame_dim) 1.

Definition default_frame : Z * Z := (0, -2).

(** ORIGINAL's pixel height, [round(ori_height * self._pixel_ratio)] (common.py:1762,1779) *)
Definition original_hpx (fam : family) (e : env) (oh : Z) : Z :=
  fround (fmul (ofZ oh) (pixel_ratio fam e)).

(** common.py:1783-1817, the FIT computation in pixels: returns [(width_px, height_px)] *)
Definition fit_px (pr : F FA) (ow oh fw fh : Z) : Z * Z :=
  let width_ratio := fdiv (ofZ fw) (ofZ ow) in
  let height_ratio := fdiv (ofZ fh) (ofZ oh) in
  let smaller_ratio := fmin width_ratio height_ratio in
  let _width_px := fmul (ofZ ow) smaller_ratio in
  let _height_px := fmul (ofZ oh) smaller_ratio in
  if fltb width_ratio height_ratio then        (* height_ratio > width_ratio *)
    let _height_px := fmul _height_px pr in
    (* min(_height_px, frame_height): the int when it is smaller *)
    let height_px := fmin _height_px (ofZ fh) in
    let width_px := fround (fmul (fdiv height_px _height_px) _width_px) in
    (width_px, fround height_px)
  else
    let _width_px := fdiv _width_px pr in
    let width_px := fmin _width_px (ofZ fw) in
    let height_px := fround (fmul (fdiv width_px _width_px) _height_px) in
    (fround width_px, height_px).

(** common.py:1717-1832 [_valid_size(width, height, frame_size)].
    Arguments outside the API's domain (a [Size] next to an [int], a non-int/non-Size)
    never reach it through [set_size] (TypeError first); the model returns (0,0). *)
Definition valid_size (fam : family) (e : env) (ow oh : Z) (w h : dim)
           (frame : Z * Z) : Z * Z :=
  let columns := resolve (fst frame) (e_cols e) in
  let lines := resolve (snd frame) (e_lines e) in
  let fw := px_of_cols fam e columns in
  let fh := px_of_lines fam e lines in
  let pr := pixel_ratio fam e in
  match w, h with
  | DBad, _ | _, DBad => (0, 0)
  | DInt _, DSize _ | DSize _, DInt _ => (0, 0)
  | DInt wi, DInt hi => (or1 wi, or1 hi)                       (* 1832 *)
  | DNone, DInt hi =>                                          (* 1818-1823 *)
      let width_px := fround (fdiv (whpx_h ow oh (px_of_lines fam e hi)) pr) in
      (or1 (cols_of_px fam e width_px), or1 hi)
  | DInt wi, DNone =>                                          (* 1824-1830 *)
      let height_px := fround (fmul (whpx_w ow oh (px_of_cols fam e wi)) pr) in
      (or1 wi, or1 (lines_of_px fam e height_px))
  | _, _ =>                                                    (* 1755: neither is an int *)
      let original :=
        (or1 (cols_of_px fam e ow), or1 (lines_of_px fam e (original_hpx fam e oh))) in
      let fit :=
        let '(wpx, hpx) := fit_px pr ow oh fw fh in
        (or1 (cols_of_px fam e wpx), or1 (lines_of_px fam e hpx)) in
      if has AUTO w h then                                      (* 1756-1765 *)
        if (fw <? ow) || (fh <? original_hpx fam e oh) then fit else original
      else if has FIT_TO_WIDTH w h then                         (* 1766-1775 *)
        (or1 (cols_of_px fam e fw),
         or1 (lines_of_px fam e (fround (fmul (whpx_w ow oh fw) pr))))
      else if has ORIGINAL w h then original                    (* 1777-1782 *)
      else fit                                                  (* 1784-1817 *)
  end.

(** ---- one image and the global environment over a history of operations ---- *)

(** [BaseImage._size]: a fixed [(w, h)] tuple or a [Size] member (dynamic) *)
Inductive sizeval := Fixed (w h : Z) | Dyn (s : smode).

Record state := { st_env : env; st_size : sizeval }.

(** argument of [set_cell_ratio] *)
Inductive ratio_arg := RFloat (r : F FA) | RFixed | RDynamic.

(** right-hand side of [image.size = ...] *)
Inductive assign_arg :=
| ASize (s : smode)              (* a Size member *)
| ATuple (w h : dim)             (* a 2-tuple: forwarded to set_size, unpacked *)
| ABadLen                        (* a tuple of another length: ValueError *)
| ABadType.                      (* anything else: TypeError *)

Inductive op :=
| OSetSize (w h : dim) (frame : Z * Z)            (* image.set_size(w, h, frame) *)
| OAssign (a : assign_arg)                        (* image.size = a *)
| ORender (raises : bool)                         (* a render through _renderer; the renderer may raise *)
| OResize (cols lines : Z) (cell : option (Z * Z))  (* the terminal is resized *)
| OSetRatio (r : ratio_arg).                      (* term_image.set_cell_ratio(r) *)

(** outcome of an operation: 0 ok, 1 ValueError, 2 TypeError, 3 TermImageError,
    4 the renderer's own exception propagated *)
Definition ok := 0. Definition value_error := 1. Definition type_error := 2.
Definition term_image_error := 3. Definition renderer_error := 4.

(** common.py:1062-1067: per argument, type check then range check *)
Definition arg_error (d : dim) : option Z :=
  match d with
  | DBad => Some type_error
  | DInt z => if z <=? 0 then Some value_error else None
  | _ => None
  end.

(** common.py:1017-1086 [set_size]: [(new _size, outcome)] *)
Definition set_size (fam : family) (ow oh : Z) (e : env) (cur : sizeval)
           (w h : dim) (frame : Z * Z) : sizeval * Z :=
  match arg_error w with
  | Some c => (cur, c)
  | None =>
    match arg_error h with
    | Some c => (cur, c)
    | None =>
      if negb (is_none w) && negb (is_none h) then            (* 1069 *)
        match w, h with
        | DInt wi, DInt hi => (Fixed wi hi, ok)                (* 1078: manual size, stored as given *)
        | _, _ => (cur, type_error)
        end
      else
        let '(rw, rh) := valid_size fam e ow oh w h frame in  (* 1086 *)
        (Fixed rw rh, ok)
    end
  end.

(** common.py:534-543 the [size] setter *)
Definition assign_size (fam : family) (ow oh : Z) (e : env) (cur : sizeval)
           (a : assign_arg) : sizeval * Z :=
  match a with
  | ASize s => (Dyn s, ok)
  | ATuple w h => set_size fam ow oh e cur w h default_frame
  | ABadLen => (cur, value_error)
  | ABadType => (cur, type_error)
  end.

(** common.py:469-475 [rendered_size] (the Size member is passed as the width),
    common.py:453-459 [rendered_height] (as the height) *)
Definition rendered_size (fam : family) (ow oh : Z) (s : state) : Z * Z :=
  match st_size s with
  | Fixed w h => (w, h)
  | Dyn m => valid_size fam (st_env s) ow oh (DSize m) DNone default_frame
  end.
Definition rendered_height (fam : family) (ow oh : Z) (s : state) : Z :=
  match st_size s with
  | Fixed w h => h
  | Dyn m => snd (valid_size fam (st_env s) ow oh DNone (DSize m) default_frame)
  end.

(** __init__.py:155-205 [set_cell_ratio] *)
Definition set_cell_ratio (e : env) (r : ratio_arg) : env * Z :=
  match r with
  | RFloat x =>
      if fleb x (ofZ 0) then (e, value_error)                  (* ratio <= 0.0 *)
      else ({| e_cols := e_cols e; e_lines := e_lines e; e_cell := e_cell e;
               e_ratio := Some x; e_autosup := e_autosup e |}, ok)
  | RFixed | RDynamic =>
      let sup := match e_autosup e with
                 | Some b => b
                 | None => match e_cell e with Some _ => true | None => false end
                 end in
      if negb sup then
        ({| e_cols := e_cols e; e_lines := e_lines e; e_cell := e_cell e;
            e_ratio := e_ratio e; e_autosup := Some sup |}, term_image_error)
      else
        let ratio := match r with
                     | RFixed => let '(cw, ch) := cell_or_default e in
                                 Some (fdiv (ofZ cw) (ofZ ch))
                     | _ => None
                     end in
        ({| e_cols := e_cols e; e_lines := e_lines e; e_cell := e_cell e;
            e_ratio := ratio; e_autosup := Some sup |}, ok)
  end.

Definition resize (e : env) (cols lines : Z) (cell : option (Z * Z)) : env :=
  {| e_cols := cols; e_lines := lines; e_cell := cell;
     e_ratio := e_ratio e; e_autosup := e_autosup e |}.

(** common.py:1682-1715 [_renderer]: a dynamic size is fixed for the duration of the
    render ([self.set_size(_size)], default frame) and restored in [finally]
    ([self.size = _size]).  [during] is the [_size] the renderer sees. *)
Definition render_during (fam : family) (ow oh : Z) (s : state) : sizeval :=
  match st_size s with
  | Dyn m => fst (set_size fam ow oh (st_env s) (st_size s) (DSize m) DNone default_frame)
  | Fixed w h => Fixed w h
  end.
Definition render_after (fam : family) (ow oh : Z) (s : state) (during : sizeval) : sizeval :=
  match st_size s with
  | Dyn m => fst (assign_size fam ow oh (st_env s) during (ASize m))
  | Fixed _ _ => during
  end.

(** what is observed after an operation *)
Record obs := {
  o_outcome : Z;
  o_size : sizeval;              (* image.size *)
  o_rendered : Z * Z;            (* image.rendered_size *)
  o_rheight : Z;                 (* image.rendered_height *)
  o_during : option sizeval      (* for a render: image.size as seen by the renderer *)
}.

Definition mk_obs fam ow oh (s : state) (outcome : Z) (during : option sizeval) : obs :=
  {| o_outcome := outcome; o_size := st_size s; o_rendered := rendered_size fam ow oh s;
     o_rheight := rendered_height fam ow oh s; o_during := during |}.

Definition step (fam : family) (ow oh : Z) (s : state) (o : op) : state * obs :=
  match o with
  | OSetSize w h frame =>
      let '(sz, c) := set_size fam ow oh (st_env s) (st_size s) w h frame in
      let s' := {| st_env := st_env s; st_size := sz |} in (s', mk_obs fam ow oh s' c None)
  | OAssign a =>
      let '(sz, c) := assign_size fam ow oh (st_env s) (st_size s) a in
      let s' := {| st_env := st_env s; st_size := sz |} in (s', mk_obs fam ow oh s' c None)
  | ORender raises =>
      let d := render_during fam ow oh s in
      let s' := {| st_env := st_env s; st_size := render_after fam ow oh s d |} in
      (s', mk_obs fam ow oh s' (if raises then renderer_error else ok) (Some d))
  | OResize cols lines cell =>
      let s' := {| st_env := resize (st_env s) cols lines cell; st_size := st_size s |} in
      (s', mk_obs fam ow oh s' ok None)
  | OSetRatio r =>
      let '(e', c) := set_cell_ratio (st_env s) r in
      let s' := {| st_env := e'; st_size := st_size s |} in (s', mk_obs fam ow oh s' c None)
  end.

Fixpoint run (fam : family) (ow oh : Z) (s : state) (ops : list op) : state :=
  match ops with
  | [] => s
  | o :: r => run fam ow oh (fst (step fam ow oh s o)) r
  end.

Fixpoint trace (fam : family) (ow oh : Z) (s : state) (ops : list op) : list obs :=
  match ops with
  | [] => []
  | o :: r => let '(s', ob) := step fam ow oh s o in ob :: trace fam ow oh s' r
  end.

End WithFloat.

Arguments env : clear implicits.
Arguments state : clear implicits.
Arguments op : clear implicits.
Arguments ratio_arg : clear implicits.

