(** Executable comparisons used by the C16 correspondence for [model/RArgsRel.v].

    [ecase] (overridden exports): namespace instances [(render class, export descriptor,
    fields)] of associated classes and of their subclasses overriding [as_dict()] /
    [get_fields()] / [__repr__]; observed: [as_dict().values()] of each, [==] of every ordered
    pair, [hash] (renamed to small numbers), [{a: 1}.get(b)] found / [b in {a}] for every
    pair; and the same three tables for the SETS of render arguments built from each instance
    by each route (constructor, [+x], [RenderArgs(R) | x], [RenderArgs(R).update(x)],
    [RenderArgs(R_parent).convert(R).update(x)]).

    [vcase] (virtual subclassing): a forest of render classes, [Base.register(Cls)] calls,
    and probes (route, target class, class of the namespace given): the outcome, the classes
    the accepted set holds, whether it holds the given namespace and defaults elsewhere, and
    what [issubclass] said. *)
From Coq Require Import List ZArith Bool Arith.
Import ListNotations.
From TI Require Import model.RArgs model.RArgsVal model.RArgsRel.

Record etab := { et_eq : list (list bool); et_hash : list nat; et_find : list (list bool) }.

Record ecase := {
  ec_inst : list xns;
  ec_exports : list (list val);
  ec_ns : etab;
  ec_sets : list etab
}.

Definition dummy_x : xns := {| x_cls := 0; x_exp := EPlain; x_f := [] |}.

Definition matrix_is (n : nat) (m : list (list bool)) (p : nat -> nat -> bool) : bool :=
  Nat.eqb (length m) n &&
  forallb (fun i => let row := nth i m [] in
                    Nat.eqb (length row) n &&
                    forallb (fun j => Bool.eqb (nth j row false) (p i j)) (seq 0 n)) (seq 0 n).

(** the rule on one table: [==] is "same render class, equal field values"; equal objects hash
    equal; a dict / set keyed by one finds exactly the equal ones *)
Definition etab_ok (inst : list xns) (t : etab) : bool :=
  let n := length inst in
  let p i j := Nat.eqb i j || x_eq (nth i inst dummy_x) (nth j inst dummy_x) in
  matrix_is n (et_eq t) p &&
  Nat.eqb (length (et_hash t)) n &&
  forallb (fun i => forallb (fun j => negb (p i j) ||
                                      Nat.eqb (nth i (et_hash t) 0) (nth j (et_hash t) 0))
                            (seq 0 n)) (seq 0 n) &&
  matrix_is n (et_find t) p.

Definition espec (c : ecase) : bool :=
  etab_ok (ec_inst c) (ec_ns c) && forallb (etab_ok (ec_inst c)) (ec_sets c).

(** the classes the driver made export what their descriptors say *)
Definition emodel (c : ecase) : bool :=
  xall2 (fun a ex => vl_eqb (map snd (export_of (x_exp a) (x_f a))) ex) (ec_inst c) (ec_exports c).

(** 0 = agrees; 1 = differs from the model only; 2 = contradicts the rule; 3 = both *)
Definition echeck (c : ecase) : nat :=
  (if emodel c then 0 else 1) + (if espec c then 0 else 2).

Fixpoint rindex_from {A} (n : nat) (l : list A) : list (nat * A) :=
  match l with [] => [] | x :: r => (n, x) :: rindex_from (S n) r end.

Definition ebad (cases : list ecase) : list (nat * nat) :=
  filter (fun p => negb (Nat.eqb (snd p) 0)) (rindex_from 0 (map echeck cases)).

(** ** Virtual subclassing *)

Record vprobe := {
  vp_route : nat;       (* 0 RenderArgs(T, ns); 1 RenderArgs(T, None, ns); 2 RenderArgs(T, init, ns);
                           3 ns.to_render_args(T); 4 RenderArgs(T).update(ns) *)
  vp_t : nat;
  vp_c : nat;
  vp_res : nat;         (* 0 = accepted; S k = rejected with error code k *)
  vp_keys : list nat;   (* classes the accepted set holds a namespace for, descending *)
  vp_val : bool;        (* it holds the given namespace for its class, the defaults elsewhere *)
  vp_issub : bool       (* issubclass(T, C) *)
}.

Record vcase := {
  vc_init : bool;               (* false: the probes pass a NAMESPACE of class C for T (routes above);
                                   true: they pass a SET of class C as init_render_args
                                   (0 RenderArgs(T, init); 1 RenderArgs(T, init, ns_T)) *)
  vc_par : list nat;
  vc_own : list bool;
  vc_reg : list (nat * nat);
  vc_probes : list vprobe;
  vc_keys0 : list (list nat);   (* classes held by RenderArgs(T) for every T, at the end *)
  vc_unchanged : bool           (* the shared default sets are the objects / values they were *)
}.

Definition vuniverse (c : vcase) : universe :=
  {| u_n := length (vc_par c);
     u_F := mkF (vc_par c) (map (fun b : bool => if b then Some [0%Z] else None) (vc_own c));
     u_reg := vc_reg c |}.

Fixpoint nl_eqb (a b : list nat) : bool :=
  match a, b with
  | [], [] => true
  | x :: a', y :: b' => Nat.eqb x y && nl_eqb a' b'
  | _, _ => false
  end.

Definition ERR_INCOMPATIBLE_SET : nat := 0.
Definition ERR_INCOMPATIBLE_NS : nat := 1.

(** the rule: a namespace / an initial set is accepted iff its class is the target class or
    one of its ANCESTORS (a namespace's class owns a namespace class); the accepted set holds
    a namespace for exactly the classes of the hierarchy of the target that own one *)
Definition vprobe_spec (init : bool) (U : universe) (p : vprobe) : bool :=
  if (if init then anc (u_F U) (vp_c p) (vp_t p) else u_rule U (vp_t p) (vp_c p))
  then Nat.eqb (vp_res p) 0 && nl_eqb (vp_keys p) (keys (u_F U) (vp_t p)) && vp_val p
  else Nat.eqb (vp_res p) (S (if init then ERR_INCOMPATIBLE_SET else ERR_INCOMPATIBLE_NS)).

Definition vspec (c : vcase) : bool :=
  let U := vuniverse c in
  forallb (vprobe_spec (vc_init c) U) (vc_probes c) &&
  xall2 (fun t ks => nl_eqb ks (keys (u_F U) t)) (seq 0 (length (vc_par c))) (vc_keys0 c) &&
  vc_unchanged c.

Definition vmodel (c : vcase) : bool :=
  let U := vuniverse c in
  forallb (fun p => Bool.eqb (vp_issub p) (issubclass U (vp_t p) (vp_c p)) &&
                    (* the code: membership in _ALL_DEFAULT_ARGS for a namespace
                       (_types.py:979-986), issubclass for init_render_args (_types.py:913) *)
                    Bool.eqb (Nat.eqb (vp_res p) 0)
                             (u_accept (if vc_init c then ByIssubclass else ByHierarchy) U (vp_t p) (vp_c p)))
          (vc_probes c).

Definition vcheck (c : vcase) : nat :=
  (if vmodel c then 0 else 1) + (if vspec c then 0 else 2).

Definition vbad (cases : list vcase) : list (nat * nat) :=
  filter (fun p => negb (Nat.eqb (snd p) 0)) (rindex_from 0 (map vcheck cases)).

(** the failing probes of a case (diagnosis) *)
Definition vdiag (c : vcase) : list nat :=
  let U := vuniverse c in
  map fst (filter (fun p => negb (vprobe_spec (vc_init c) U (snd p))) (rindex_from 0 (vc_probes c))).
