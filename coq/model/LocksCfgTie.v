(** Executable comparison used by the C14 correspondence, over the system WITH the library
    configuration ([model/LocksCfg.v]): a schedule whose items are thread picks and
    configuration changes ([term_image.disable_queries()] / [enable_queries()] /
    [enable_win_size_swap()] ... in some process) is replayed on the model under the code's
    policy, at the grain the harness can realise ([LocksCfg.macroI]), and the (thread,
    event) trace is compared with the one the real code produced under the deterministic
    scheduler — where every simulated process has its OWN instance of the library module
    (fresh for the spawn start method, a copy of the parent's module state for fork).  The
    property is judged on the observed trace alone by the judge of [model/LocksSpec.v]
    ([LocksTie.obs_ok]).

    [checkQ]: 0 = agrees; 1 = differs from the model only; 2 = the observed trace
    contradicts the property; 3 = both ([proofs/LocksCfgTieProofs.v]: 2 never comes alone).

    Schedule items are natural numbers: [n < 1000] = thread [n] (or the terminal) is picked;
    [1000 + 8 p + 2 f + b] = field [f < 4] of the configuration of process [p] is set to
    [b] (f = 0: queries enabled, 1: window-size swap, 2: a non-default query timeout). *)
From Coq Require Import List Arith Bool.
Import ListNotations.
From TI Require Import lib.Sched model.Locks model.LocksSpec model.LockSites model.LocksCfg
  model.LocksTie.

Record qcase := {
  qc_case : lcase;     (* threads, terminal, schedule (encoded items), observed trace *)
  qc_fork : bool       (* the children inherit the configuration (fork) / start afresh (spawn) *)
}.

Definition dec_item (n : nat) : sitem :=
  if Nat.ltb n 1000 then SMove n
  else let m := n - 1000 in SConf (m / 8) ((m mod 8) / 2) (Nat.odd m).

Definition qcfg_of (c : qcase) (sgl : bool) : qcfg :=
  {| q_base := cfg_of (qc_case c) sgl;
     q_init := fun _ => if qc_fork c then None else Some conf_default |}.

Definition run_model (pol : policy) (c : qcase) (sgl : bool) : qstate :=
  run_items (macroI pol (qcfg_of c sgl)) (initQ (prog_of (qc_case c)) conf_default)
            (map dec_item (l_sched (qc_case c))).

Definition model_traceQ (c : qcase) : list (nat * list nat) :=
  map (fun te => (fst te, enc_event (snd te))) (rev (log (qs (run_model pol_code c false)))).

Definition checkQ (c : qcase) : nat :=
  (if tr_eqb (l_obs (qc_case c)) (model_traceQ c) then 0 else 1)
  + (if obs_ok (l_obs (qc_case c)) then 0 else 2).

Definition badQ (cases : list qcase) : list (nat * nat) :=
  filter (fun p => negb (Nat.eqb (snd p) 0)) (index_from 0 (map checkQ cases)).

(** which schedules would break the property in a refuted variant (reported in the
    histogram: the schedules do exercise the races): 4 = the single-[with] variant,
    8 = the variant that shares the lock only while queries are enabled *)
Definition variant_code (c : qcase) : nat :=
  (if accepts (rev (log (qs (run_model pol_code c true)))) then 0 else 4)
  + (if accepts (rev (log (qs (run_model pol_if_queries c false)))) then 0 else 8).

Definition badQ_variants (cases : list qcase) : list (nat * nat) :=
  filter (fun p => negb (Nat.eqb (snd p) 0))
         (index_from 0 (map (fun c => checkQ c + variant_code c) cases)).
