(** * IterCtorTie — judge of the "ctor" family of the C10 correspondence

    One case = one construction of a [RenderIterator] on the real code (by [RenderIterator(...)],
    [_from_render_data_(finalize=False)] or [_from_render_data_(finalize=True)]) with a fault
    somewhere inside the constructor (client code of a padding raising, an allocation failing, a
    failing [_get_render_size_] / [_get_render_data_], a KeyboardInterrupt delivered at the k-th line
    executed inside the package) or none.  Observed:

    - the (half-built) object as the constructor left it - found in the traceback of the
      exception (or the returned iterator): which of [_closed], [_iterator], [_render_data],
      [_finalize_data] exist, their values, the state of the generator;
    - the render data after the object has been dropped and collected (the driver / the caller
      still hold the data): finalizer entries, [finalized];
    - finalizer entries after the owner of kept data has finalized it itself and every reference
      to every render data object has been released and collected;
    - exceptions the interpreter reported as unraisable (leaked out of a [__del__]).

    [ccheck]: bit 1 = differs from model/IterCtor.v (the object is not one the code's constructor
    program can leave behind, or [drop] / [collect] predict something else); bit 2 = the
    observations alone contradict the property. *)
From Coq Require Import List Bool Arith.
Import ListNotations.
From TI Require Import model.IterCtor.

Record ccase := {
  cc_kind : nat;                 (* 0 RenderIterator(...), 1 finalize=False, 2 finalize=True *)
  cc_completed : bool;           (* the constructor returned *)
  (* _closed; generator: 0 created, 2 suspended, 3 closed; _render_data bound; _finalize_data *)
  cc_obj : option (option bool * option nat * bool * option bool);
  cc_data_exists : bool;         (* the render data object of this construction exists *)
  cc_drop_calls : nat;           (* ... after the object is collected: finalizer entries *)
  cc_drop_fz : bool;             (*     and [finalized] *)
  cc_end_calls : nat;            (* ... in the end *)
  cc_others : list nat;          (* finalizer entries of every OTHER render data object created, in the end *)
  cc_unraisable : nat;
  cc_bad_use : nat                (* _render_ calls that saw finalized = True *)
}.

Definition kind_of (k : nat) : kind := match k with 0 => KInit | 1 => KKeep | _ => KGive end.

Definition gen_of (g : nat) : gen := match g with 0 => GCreated | 2 => GSuspended | 3 => GFinished | _ => GRunning end.

Definition obj_of (x : option bool * option nat * bool * option bool) : obj :=
  let '(c, g, r, f) := x in
  {| a_closed := c; a_iter := option_map gen_of g; a_rdata := r; a_flag := f |}.

Definition observed (t : ccase) : cstate :=
  {| c_obj := option_map obj_of (cc_obj t);
     c_data := if cc_data_exists t then fresh_data else no_data |}.

Definition obool_eqb (a b : option bool) : bool :=
  match a, b with Some x, Some y => Bool.eqb x y | None, None => true | _, _ => false end.
Definition gen_eqb (a b : gen) : bool :=
  match a, b with
  | GCreated, GCreated | GRunning, GRunning | GSuspended, GSuspended | GFinished, GFinished => true
  | _, _ => false
  end.
Definition ogen_eqb (a b : option gen) : bool :=
  match a, b with Some x, Some y => gen_eqb x y | None, None => true | _, _ => false end.
Definition obj_eqb (a b : obj) : bool :=
  obool_eqb (a_closed a) (a_closed b) && ogen_eqb (a_iter a) (a_iter b) &&
  Bool.eqb (a_rdata a) (a_rdata b) && obool_eqb (a_flag a) (a_flag b).
Definition data_eqb (a b : data) : bool :=
  Bool.eqb (d_exists a) (d_exists b) && Bool.eqb (d_finalized a) (d_finalized b) && Nat.eqb (d_calls a) (d_calls b).
Definition cstate_eqb (a b : cstate) : bool :=
  match c_obj a, c_obj b with
  | Some x, Some y => obj_eqb x y
  | None, None => true
  | _, _ => false
  end && data_eqb (c_data a) (c_data b).

(** is the observed object one of those the code's constructor can leave behind (a fault at some
    position [k], or none), with the constructor's way of ending as observed? *)
Definition reachable (t : ccase) : bool :=
  let kd := kind_of (cc_kind t) in
  let p := prog_of kd in
  existsb (fun k => let '(s, done) := exec p k (start kd) in
                    Bool.eqb done (cc_completed t) && cstate_eqb s (observed t))
          (seq 0 (S (length p))).

Definition cmodel_ok (t : ccase) : bool :=
  let kd := kind_of (cc_kind t) in
  let s := drop (observed t) in
  let e := collect (match kd with KKeep => {| c_obj := c_obj s; c_data := finalize (c_data s) |} | _ => s end) in
  reachable t &&
  Nat.eqb (d_calls (c_data s)) (cc_drop_calls t) && Bool.eqb (d_finalized (c_data s)) (cc_drop_fz t) &&
  Nat.eqb (d_calls (c_data e)) (cc_end_calls t).

(** the property, on the observations alone *)
Definition cspec_ok (t : ccase) : bool :=
  (* a caller who kept ownership: untouched once the iterator (half-built or not) is gone *)
  (match kind_of (cc_kind t) with KKeep => Nat.eqb (cc_drop_calls t) 0 && negb (cc_drop_fz t) | _ => true end) &&
  (* never twice; the flag says finalized only after an entry *)
  Nat.leb (cc_drop_calls t) 1 && (negb (cc_drop_fz t) || Nat.eqb (cc_drop_calls t) 1) &&
  (* in the end every render data object that came into being has seen exactly one entry *)
  Nat.eqb (cc_end_calls t) (if cc_data_exists t then 1 else 0) &&
  forallb (fun k => Nat.eqb k 1) (cc_others t) &&
  (* nothing leaks out of a __del__ *)
  Nat.eqb (cc_unraisable t) 0 && Nat.eqb (cc_bad_use t) 0.

Definition ccheck (t : ccase) : nat :=
  (if cmodel_ok t then 0 else 1) + (if cspec_ok t then 0 else 2).

Definition cbad (cases : list ccase) : list (nat * nat) :=
  filter (fun p => negb (Nat.eqb (snd p) 0)) (combine (seq 0 (length cases)) (map ccheck cases)).
