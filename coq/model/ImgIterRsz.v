(** C09 — the RENDERED SIZE of an image as a function of the size setting and of the
    environment, and the stamps a cached frame may be validated with (round 9).

    [image.rendered_size] (common.py:741) is the size SETTING itself when that is a pair of
    integers ([Fixed]), and [_valid_size(setting)] when it is a member of [Size] ([Dyn]:
    FIT / FIT_TO_WIDTH / ORIGINAL / AUTO).  [_valid_size] (common.py:1742-1850) reads
      - the terminal size            ([get_terminal_size()], frame size of FIT / AUTO),
      - the cell ratio               ([_pixel_ratio = get_cell_ratio() * 2], text styles:
                                      changed by [term_image.set_cell_ratio()]),
      - the terminal's cell size     ([_pixels_cols] / [_pixels_lines], graphics styles),
    none of which the iterator is told about: the ENVIRONMENT [env3].  The resolution of a
    dynamic size is the [Section] variable [rsize_dyn] (its arithmetic is C04's subject).

    [ImageIterator._generate_frames] stamps a cached frame with [hash(image.rendered_size)]
    evaluated when the frame is rendered, and serves it again only if
    [hash(image.rendered_size)], evaluated PER FRAME, equals the stamp (common.py:2198,
    2210, 2218): the code model is model/ImgIter.v run on the history LOWERED to rendered
    sizes (model/ImgIterEnv.v [lower], at the environment type [env3]), i.e. the stamp of
    (setting, environment) is [stamp_rendered].

    Two EXCLUDED stamps, expressible in the same model at the size type [setting * env3]:
      [stamp_setting_term]  — (setting, terminal size): blind to the cell ratio / cell size;
      [stamp_kind_at_creation] — the rendered size if the setting was dynamic WHEN THE
          ITERATOR WAS CREATED, else the setting itself (a fixed setting is its own rendered
          size ... as long as it stays fixed).

    Definitions only. *)
From Coq Require Import List ZArith Bool Arith.
Import ListNotations.
From TI Require Import model.ImgIter model.ImgIterEnv.

Set Implicit Arguments.

Record env3 := {
  term_size : Z * Z;        (* get_terminal_size(): columns, lines *)
  cell_ratio : Z * Z;       (* get_cell_ratio() as a fraction numerator / denominator *)
  cell_size : Z * Z         (* get_cell_size(): pixels *)
}.

Inductive setting :=
| Fixed (w h : Z)           (* image._size is a tuple *)
| Dyn (m : nat).            (* image._size is a Size member: 0 FIT, 1 FIT_TO_WIDTH, 2 ORIGINAL, 3 AUTO *)

Definition is_dyn (g : setting) : bool := match g with Dyn _ => true | Fixed _ _ => false end.

Definition zz_eqb (a b : Z * Z) : bool := Z.eqb (fst a) (fst b) && Z.eqb (snd a) (snd b).

Definition env3_eqb (a b : env3) : bool :=
  zz_eqb (term_size a) (term_size b) && zz_eqb (cell_ratio a) (cell_ratio b)
  && zz_eqb (cell_size a) (cell_size b).

Definition setting_eqb (a b : setting) : bool :=
  match a, b with
  | Fixed w h, Fixed w' h' => Z.eqb w w' && Z.eqb h h'
  | Dyn m, Dyn m' => Nat.eqb m m'
  | _, _ => false
  end.

Section Rsz.
  Variable Size : Type.
  Variable fixed_size : Z -> Z -> Size.          (* the rendered size of a fixed setting: itself *)
  Variable rsize_dyn : nat -> env3 -> Size.      (* _valid_size(member) under the environment *)

  (** image.rendered_size (common.py:741-743) *)
  Definition rsize (g : setting) (e : env3) : Size :=
    match g with
    | Fixed w h => fixed_size w h
    | Dyn m => rsize_dyn m e
    end.

  Variable hash : Size -> Z.                     (* Python's hash of a size tuple *)

  (** the code: hash(image.rendered_size), evaluated at the frame *)
  Definition stamp_rendered (ge : setting * env3) : Z := hash (rsize (fst ge) (snd ge)).

  (** excluded: hash((image._size, get_terminal_size())) for a dynamic setting, hash(size)
      for a fixed one.  [hst] hashes (member, terminal size). *)
  Variable hst : nat -> Z * Z -> Z.
  Definition stamp_setting_term (ge : setting * env3) : Z :=
    match fst ge with
    | Fixed w h => hash (fixed_size w h)
    | Dyn m => hst m (term_size (snd ge))
    end.

  (** excluded: "does the size have to be resolved?" is answered once, from the setting the
      image had when the iterator was created ([dyn0]); if not, the stamp is the hash of the
      setting — of the [Size] member ([hm]) once the setting has become dynamic *)
  Variable hm : nat -> Z.
  Definition stamp_kind_at_creation (dyn0 : bool) (ge : setting * env3) : Z :=
    if dyn0 then stamp_rendered ge
    else match fst ge with
         | Fixed w h => hash (fixed_size w h)
         | Dyn m => hm m
         end.
End Rsz.

(** the three ways the environment changes, each alone *)
Definition with_term (e : env3) (t : Z * Z) : env3 :=
  {| term_size := t; cell_ratio := cell_ratio e; cell_size := cell_size e |}.
Definition with_ratio (e : env3) (r : Z * Z) : env3 :=
  {| term_size := term_size e; cell_ratio := r; cell_size := cell_size e |}.
Definition with_cell (e : env3) (c : Z * Z) : env3 :=
  {| term_size := term_size e; cell_ratio := cell_ratio e; cell_size := c |}.
