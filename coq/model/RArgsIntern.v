(** * The interning protocol of the shared default set of a render class, step by step
    (C16, round 7: requests for the default set of ONE class may interleave).

    [RenderArgs(cls)] with default namespaces only (src/term_image/renderable/_types.py):
      - [__new__]  :923-935  looks [cls] up in [_interned]; found: returns that object,
                            else allocates a fresh, EMPTY object (no [render_cls], no [_namespaces]);
      - [__init__] :950-966  "has default namespaces only": asks whether the object has been
                            initialised already (then returns at once), else goes on;
                   :971      builds the namespaces ([render_cls._ALL_DEFAULT_ARGS.copy()]);
                   :988      data-init ([RenderArgsData.__init__]: sets [render_cls] and [_namespaces]);
                   :990-991  publishes the object in [_interned].
    Nothing is locked, so a thread may be pre-empted between any two of these steps.

    A state: the heap of set objects (empty = [None], built = [Some namespaces]), the
    [_interned] cell of the class, one program counter per thread.  Threads are named by
    natural numbers; EVERY natural number is a thread that starts at [PNew], so a schedule
    (list of thread names) ranges over any number of threads. *)
From Coq Require Import List Arith Bool.
Import ListNotations.

(** how [__init__] decides "has been initialised" *)
Inductive chk :=
| ChkSelf      (* the cell holds THIS object  (the code: [_interned.get(render_cls) is self]) *)
| ChkPresent.  (* the cell holds some object  ([render_cls in _interned], upstream before the fix) *)

(** when the object is published *)
Inductive pubpt :=
| PubLast      (* after data-init (the code) *)
| PubFirst.    (* right after the check, before the namespaces are built (excluded) *)

Record proto := { p_chk : chk; p_pub : pubpt }.
Definition code_proto := {| p_chk := ChkSelf; p_pub := PubLast |}.

Inductive pc :=
| PNew                 (* about to look up / allocate in __new__ *)
| PInit (o : nat)      (* __new__ returned o; about to run the check in __init__ *)
| PBuild (o : nat)     (* about to build the namespaces *)
| PData (o : nat)      (* about to data-init o *)
| PPub (o : nat)       (* about to publish o *)
| PDone (o : nat).     (* the request returned o to its caller *)

Section Intern.
Variable D : Type.          (* what a built set holds *)
Variable dflt : D.          (* the default namespaces of the class hierarchy *)

Record st := {
  heap : nat -> option D;
  next : nat;                (* next fresh object *)
  interned : option nat;
  pcs : nat -> pc }.

Definition st0 : st :=
  {| heap := fun _ => None; next := 0; interned := None; pcs := fun _ => PNew |}.

Definition upd {A} (f : nat -> A) (k : nat) (v : A) : nat -> A :=
  fun x => if Nat.eqb x k then v else f x.

Definition set_pc (s : st) (t : nat) (p : pc) : st :=
  {| heap := heap s; next := next s; interned := interned s; pcs := upd (pcs s) t p |}.

Definition initialised (P : proto) (s : st) (o : nat) : bool :=
  match interned s, p_chk P with
  | None, _ => false
  | Some _, ChkPresent => true
  | Some o', ChkSelf => Nat.eqb o' o
  end.

(** one step of thread [t] *)
Definition step (P : proto) (s : st) (t : nat) : st :=
  match pcs s t with
  | PNew =>
    match interned s with
    | Some o => set_pc s t (PInit o)
    | None => {| heap := heap s; next := S (next s); interned := interned s;
                 pcs := upd (pcs s) t (PInit (next s)) |}
    end
  | PInit o =>
    if initialised P s o then set_pc s t (PDone o)
    else match p_pub P with
         | PubLast => set_pc s t (PBuild o)
         | PubFirst => {| heap := heap s; next := next s; interned := Some o;
                          pcs := upd (pcs s) t (PBuild o) |}
         end
  | PBuild o => set_pc s t (PData o)
  | PData o =>
    {| heap := upd (heap s) o (Some dflt); next := next s; interned := interned s;
       pcs := upd (pcs s) t (match p_pub P with PubLast => PPub o | PubFirst => PDone o end) |}
  | PPub o =>
    {| heap := heap s; next := next s; interned := Some o; pcs := upd (pcs s) t (PDone o) |}
  | PDone _ => s
  end.

Definition run (P : proto) (sched : list nat) : st := fold_left (step P) sched st0.

(** what the property demands of a state: every object a request can be given is complete
    and holds the default namespaces *)
Definition complete (s : st) (o : nat) : Prop := heap s o = Some dflt.
Definition published_complete (s : st) : Prop := forall o, interned s = Some o -> complete s o.
Definition returned_complete (s : st) : Prop := forall t o, pcs s t = PDone o -> complete s o.

End Intern.

Arguments heap {D}. Arguments next {D}. Arguments interned {D}. Arguments pcs {D}.
Arguments st0 {D}. Arguments step {D}. Arguments run {D}. Arguments initialised {D}. Arguments set_pc {D}.
Arguments complete {D}. Arguments published_complete {D}. Arguments returned_complete {D}.

(** the object thread [t] was given, if its request has returned *)
Definition result_of {D} (s : st D) (t : nat) : option nat :=
  match pcs s t with PDone o => Some o | _ => None end.
