(** * Screen — model of term_image.widget._urwid (C18: no ghost image on the urwid screen)

    Definitions only (proofs: proofs/ScreenAlloc.v, ScreenWalk.v, ScreenGhost.v,
    ScreenSync.v; statements: props/C18.v).  Mirrors src/term_image/widget/_urwid.py
    AFTER the two fixes of pending_fixes/C18_*.diff (see the FIX notes below):

      1. the z-index allocator        UrwidImage._ti_get_z_index / __del__   (:66-112, :197-207)
      2. the shard walk               UrwidImageScreen._ti_clear_images      (:632-670)
      3. the bookkeeping of a redraw  _ti_clear_images / clear_images        (:516-569, :615-686)
      4. the streams                  draw_screen / clear / _start / _stop   (:512-514, :574-613)
      5. a placement-level terminal   (specification side: what a terminal implementing the
                                       kitty graphics protocol shows after a stream)
      6. the reference semantics of urwid's shards (layouts of rows of rectangles with spans)
*)
From Coq Require Import List ZArith Bool Lia Arith.
Import ListNotations.
From TI Require Import lib.Term.   (* [kitty_del] *)

(** ** 1. z-index allocator *)

Open Scope Z_scope.

Definition zlimit : Z := 2147483648.            (* 2**31 *)

Record alloc_st := mk_alloc { a_next : Z;       (* _ti_next_z_index *)
                              a_free : list Z   (* _ti_free_z_indexes (a set) *) }.
Definition alloc_init : alloc_st := mk_alloc 1 [].

Fixpoint zmem (z : Z) (l : list Z) : bool :=
  match l with [] => false | x :: t => (x =? z) || zmem z t end.

(** [set.pop()] removes and returns an ARBITRARY element: [pick] says which (an index
    beyond the end selects the first element, so that the function is total and every
    element can be selected). *)
Fixpoint pop_nth (n : nat) (l : list Z) : option (Z * list Z) :=
  match l with
  | [] => None
  | x :: t =>
    match n with
    | O => Some (x, t)
    | S k => match pop_nth k t with
             | Some (y, t') => Some (y, x :: t')
             | None => Some (x, t)
             end
    end
  end.

(** _ti_get_z_index (:197-207).  [None] = raises UrwidImageError, state unchanged. *)
Definition alloc (pick : nat) (s : alloc_st) : option Z * alloc_st :=
  match pop_nth pick (a_free s) with
  | Some (z, f') => (Some z, mk_alloc (a_next s) f')                       (* :199-200 *)
  | None =>
    let z := a_next s in                                                  (* :202 *)
    if z =? zlimit then (None, s)                                         (* :203-204 *)
    else (Some z, mk_alloc (if 0 <? z then - z else - z + 1) [])          (* :205 *)
  end.

(** __del__ (:110-112): [_ti_free_z_indexes.add(z)] *)
Definition release (z : Z) (s : alloc_st) : alloc_st :=
  mk_alloc (a_next s) (if zmem z (a_free s) then a_free s else z :: a_free s).

(** Histories of widget constructions and finalisations.  Widgets are numbered in order of
    construction.  [ADel w] on a widget that holds no z-index (never constructed, not a
    kitty widget / constructor raised, or already finalised) is a no-op: Python finalises an
    object once and [__del__] tests [hasattr(self, "_ti_z_index")]. *)
Inductive aev := ANew (pick : nat) | ADel (w : nat).

Record hist_st := mk_hist { h_a : alloc_st; h_live : list (nat * Z); h_cnt : nat }.
Definition hist_init : hist_st := mk_hist alloc_init [] 0.

Fixpoint live_find (w : nat) (l : list (nat * Z)) : option Z :=
  match l with
  | [] => None
  | (w', z) :: t => if Nat.eqb w' w then Some z else live_find w t
  end.
Definition live_remove (w : nat) (l : list (nat * Z)) : list (nat * Z) :=
  filter (fun p => negb (Nat.eqb (fst p) w)) l.

Definition hist_step (s : hist_st) (e : aev) : hist_st :=
  match e with
  | ANew pick =>
    match alloc pick (h_a s) with
    | (Some z, a') => mk_hist a' ((h_cnt s, z) :: h_live s) (S (h_cnt s))
    | (None, a') => mk_hist a' (h_live s) (S (h_cnt s))
    end
  | ADel w =>
    match live_find w (h_live s) with
    | Some z => mk_hist (release z (h_a s)) (live_remove w (h_live s)) (h_cnt s)
    | None => s
    end
  end.
Definition hist_run (h : list aev) : hist_st := fold_left hist_step h hist_init.
Definition live_zs (s : hist_st) : list Z := map snd (h_live s).

(** Widgets of EVERY class of UrwidImage's class tree (UrwidImage itself, its subclasses,
    their subclasses) draw from this ONE allocator: [_ti_get_z_index] is a staticmethod that
    reads and writes the counter and the free set through [__class__] (= UrwidImage, :199-205),
    and [__del__] releases through [__class__] (:112) - never through [type(self)] / [cls],
    which would give a subclass a counter of its own on the first assignment.  A history in
    which every construction names the class of the widget: the class is not an input of
    the allocator. *)
Inductive aevc := CNewOf (cls : nat) (pick : nat) | CDelOf (w : nat).
Definition forget_class (e : aevc) : aev :=
  match e with CNewOf _ pick => ANew pick | CDelOf w => ADel w end.
Definition hist_run_classes (h : list aevc) : hist_st := hist_run (map forget_class h).

Close Scope Z_scope.
Open Scope nat_scope.

(** ** 2. Canvases, canvas views, shards, the walk *)

(** what the screen needs to know of a widget's image *)
Inductive wkind := WKitty (z : Z) | WIterm | WText.
(** a canvas object: its identity and, for an [UrwidImageCanvas] rendered by an
    [UrwidImage], the widget (identity, image kind) found through [widget_info] *)
Inductive ckind := CPlain | CImage (wid : nat) (k : wkind).
Record canvinfo := mk_canv { ci_id : nat; ci_kind : ckind }.

(** urwid cview (trim_left, trim_top, cols, rows, attr_map, canv) without the attr_map *)
Record cview := mk_cview { cv_tl : nat; cv_tt : nat; cv_cols : nat; cv_rows : nat; cv_canv : canvinfo }.
Definition shard := (nat * list cview)%type.

(** an element of [_ti_image_cviews]: (canv, row, col, trim_left, trim_top, cols, rows) *)
Record view := mk_view { v_canv : canvinfo; v_row : nat; v_col : nat;
                         v_tl : nat; v_tt : nat; v_cols : nat; v_rows : nat }.

(** :659-663 — the canvas belongs to a widget whose images stay on the terminal until deleted *)
Definition tracked (konsole : bool) (c : canvinfo) : bool :=
  match ci_kind c with
  | CImage _ (WKitty _) => true
  | CImage _ WIterm => konsole
  | _ => false
  end.

(** [shard_tails]: dict col -> (cols, rows) (the trim and the canvas stored by the code are
    never read) *)
Definition tails := list (nat * (nat * nat)).
Fixpoint tfind (k : nat) (d : tails) : option (nat * nat) :=
  match d with
  | [] => None
  | (k', v) :: t => if Nat.eqb k' k then Some v else tfind k t
  end.
Definition tremove (k : nat) (d : tails) : tails := filter (fun e => negb (Nat.eqb (fst e) k)) d.
Definition tset (k : nat) (v : nat * nat) (d : tails) : tails := (k, v) :: tremove k d.

(** process_shard_tails (:632-641).  The [while] loop gets a fuel; [None] = out of fuel
    (the Python loop would not terminate: only possible with a zero-width tail). *)
Fixpoint pst (fuel n_rows col : nat) (d : tails) : option (nat * tails) :=
  match fuel with
  | O => None
  | S f =>
    match tfind col d with
    | None => Some (col, d)
    | Some (cols, rows) =>
      pst f n_rows (col + cols)
          (if n_rows <? rows then tset col (cols, rows - n_rows) d     (* :637-638 *)
           else tremove col d)                                        (* :640 *)
    end
  end.

(** the inner [for cview in cviews] (:649-668) followed by the final
    process_shard_tails (:669) *)
Fixpoint walk_cviews (fuel : nat) (konsole : bool) (n_rows row : nat) (cvs : list cview)
         (col : nat) (d : tails) : option (tails * list view) :=
  match cvs with
  | [] => match pst fuel n_rows col d with
          | None => None
          | Some (_, d') => Some (d', [])
          end
  | cv :: rest =>
    match pst fuel n_rows col d with                                   (* :650 *)
    | None => None
    | Some (col1, d1) =>
      let here := if tracked konsole (cv_canv cv)                      (* :653-664 *)
                  then [mk_view (cv_canv cv) row col1 (cv_tl cv) (cv_tt cv) (cv_cols cv) (cv_rows cv)]
                  else [] in
      let d2 := if n_rows <? cv_rows cv                                (* :666-667 *)
                then tset col1 (cv_cols cv, cv_rows cv - n_rows) d1 else d1 in
      match walk_cviews fuel konsole n_rows row rest (col1 + cv_cols cv) d2 with   (* :668 *)
      | None => None
      | Some (d3, vs) => Some (d3, here ++ vs)
      end
    end
  end.

Fixpoint walk_shards (fuel : nat) (konsole : bool) (shards : list shard) (row : nat) (d : tails)
  : option (list view) :=
  match shards with
  | [] => Some []
  | (n_rows, cvs) :: rest =>
    match walk_cviews fuel konsole n_rows row cvs 1 d with             (* :648 col = 1 *)
    | None => None
    | Some (d', vs) =>
      match walk_shards fuel konsole rest (row + n_rows) d' with       (* :670 *)
      | None => None
      | Some vs' => Some (vs ++ vs')
      end
    end
  end.

(** :643-670 *)
Definition walk (fuel : nat) (konsole : bool) (shards : list shard) : option (list view) :=
  walk_shards fuel konsole shards 1 [].

(** ** 6. Reference semantics of shards: layouts

    A layout describes the screen band by band; every band lists ALL the rectangles that
    cross it, left to right: a rectangle that starts in the band ([CNew], with its total
    height) or the continuation of a rectangle started in a band above ([CCont cols left]:
    its width and the number of rows still to come, this band included).  urwid's shards
    keep only the [CNew] cells (a cview is listed in the shard where it starts). *)
Inductive cell := CNew (cv : cview) | CCont (cols rows_left : nat).
Definition band := (nat * list cell)%type.
Definition layout := list band.

Definition cell_cols (c : cell) : nat := match c with CNew cv => cv_cols cv | CCont w _ => w end.
Definition cell_rows (c : cell) : nat := match c with CNew cv => cv_rows cv | CCont _ r => r end.

Definition news_of (cs : list cell) : list cview :=
  flat_map (fun c => match c with CNew cv => [cv] | CCont _ _ => [] end) cs.
Definition shards_of (l : layout) : list shard := map (fun b => (fst b, news_of (snd b))) l.

(** what continues below a band of [n] rows / what a band continues, with columns *)
Fixpoint tails_from (n col : nat) (cs : list cell) : tails :=
  match cs with
  | [] => []
  | c :: t =>
    (if n <? cell_rows c then [(col, (cell_cols c, cell_rows c - n))] else [])
      ++ tails_from n (col + cell_cols c) t
  end.
Fixpoint conts_from (col : nat) (cs : list cell) : tails :=
  match cs with
  | [] => []
  | c :: t =>
    (match c with CCont w r => [(col, (w, r))] | CNew _ => [] end)
      ++ conts_from (col + cell_cols c) t
  end.

Fixpoint tails_eqb (a b : tails) : bool :=
  match a, b with
  | [], [] => true
  | (k, (w, r)) :: a', (k', (w', r')) :: b' =>
    Nat.eqb k k' && Nat.eqb w w' && Nat.eqb r r' && tails_eqb a' b'
  | _, _ => false
  end.

(** well-formed: widths positive; what continues below a band is exactly what the next
    band continues, at the same columns (the first band continues nothing, nothing
    continues below the last) *)
Fixpoint wf_bands (prev : tails) (l : layout) : bool :=
  match l with
  | [] => tails_eqb prev []
  | (n, cs) :: rest =>
    forallb (fun c => 0 <? cell_cols c) cs
    && tails_eqb (conts_from 1 cs) prev
    && wf_bands (tails_from n 1 cs) rest
  end.
Definition wf_layout (l : layout) : bool := wf_bands [] l.

(** the positions of the tracked image views, read off the layout *)
Fixpoint positions_cells (konsole : bool) (row col : nat) (cs : list cell) : list view :=
  match cs with
  | [] => []
  | c :: t =>
    (match c with
     | CNew cv => if tracked konsole (cv_canv cv)
                  then [mk_view (cv_canv cv) row col (cv_tl cv) (cv_tt cv) (cv_cols cv) (cv_rows cv)]
                  else []
     | CCont _ _ => []
     end) ++ positions_cells konsole row (col + cell_cols c) t
  end.
Fixpoint positions_from (konsole : bool) (row : nat) (l : layout) : list view :=
  match l with
  | [] => []
  | (n, cs) :: rest => positions_cells konsole row 1 cs ++ positions_from konsole (row + n) rest
  end.
Definition positions (konsole : bool) (l : layout) : list view := positions_from konsole 1 l.

(** enough fuel for the walk: more than the number of cells of any band *)
Definition layout_fuel (l : layout) : nat := S (fold_right (fun b m => Nat.max (length (snd b)) m) 0 l).

(** ** 5. Placement-level terminal (specification side)

    What a terminal implementing the kitty graphics protocol keeps on screen: a
    placement stays where it was put until a delete command removes it ([d=A] all, [d=Z]
    by z-index, [d=C] those intersecting the cursor cell); text, ECH, EL and SGR do not
    touch placements; nothing scrolls (urwid addresses rows absolutely).  On Konsole an
    iTerm2 inline image is such a placement too (z-index 0, removed by [d=A]); elsewhere
    it is cell content, overwritten like text, and is not tracked here. *)
Open Scope Z_scope.

Record plc := mk_plc { p_r : Z; p_c : Z; p_w : Z; p_h : Z; p_z : Z }.

Inductive stok :=
| KCup (r c : Z)                  (* CSI r;c H (0-based here) *)
| KRight (n : Z)                  (* n columns of text written, or CUF n *)
| KLeft (n : Z)                   (* BS / CUB *)
| KDown (n : Z) | KUp (n : Z)
| KCr | KLf
| KPlace (w h z : Z) (stay : bool)   (* kitty a=T,c=w,r=h,z=z,C=stay *)
| KIterm (w h : Z) (dnmc : bool)     (* OSC 1337 File=...;width=w;height=h;doNotMoveCursor *)
| KDel (d : kitty_del)
| KSyncB | KSyncE
| KOther.                         (* anything without effect on cursor or placements *)

Record pterm := mk_pterm { t_r : Z; t_c : Z; t_plcs : list plc; t_sync : bool }.
Definition pterm_init : pterm := mk_pterm 0 0 [] false.

Definition covers (p : plc) (r c : Z) : bool :=
  (p_r p <=? r) && (r <? p_r p + p_h p) && (p_c p <=? c) && (c <? p_c p + p_w p).

Definition apply_del (d : kitty_del) (r c : Z) (l : list plc) : list plc :=
  match d with
  | DelAll => []
  | DelZ z => filter (fun p => negb (p_z p =? z)) l
  | DelCursor => filter (fun p => negb (covers p r c)) l
  end.

Definition set_cur (t : pterm) (r c : Z) : pterm := mk_pterm r c (t_plcs t) (t_sync t).
Definition set_plcs (t : pterm) (l : list plc) : pterm := mk_pterm (t_r t) (t_c t) l (t_sync t).

Definition pstep (konsole : bool) (t : pterm) (x : stok) : pterm :=
  match x with
  | KCup r c => set_cur t r c
  | KRight n => set_cur t (t_r t) (t_c t + n)
  | KLeft n => set_cur t (t_r t) (Z.max 0 (t_c t - n))
  | KDown n => set_cur t (t_r t + n) (t_c t)
  | KUp n => set_cur t (Z.max 0 (t_r t - n)) (t_c t)
  | KCr => set_cur t (t_r t) 0
  | KLf => set_cur t (t_r t + 1) (t_c t)
  | KPlace w h z stay =>
    let t' := set_plcs t (mk_plc (t_r t) (t_c t) w h z :: t_plcs t) in
    if stay then t' else set_cur t' (t_r t + h - 1) (t_c t + w)
  | KIterm w h dnmc =>
    let t' := if konsole then set_plcs t (mk_plc (t_r t) (t_c t) w h 0 :: t_plcs t) else t in
    if dnmc then t' else set_cur t' (t_r t + h - 1) (t_c t + w)
  | KDel d => set_plcs t (apply_del d (t_r t) (t_c t) (t_plcs t))
  | KSyncB => mk_pterm (t_r t) (t_c t) (t_plcs t) true
  | KSyncE => mk_pterm (t_r t) (t_c t) (t_plcs t) false
  | KOther => t
  end.
Definition pexec (konsole : bool) (t : pterm) (ts : list stok) : pterm := fold_left (pstep konsole) ts t.

Definition plc_eqb (a b : plc) : bool :=
  (p_r a =? p_r b) && (p_c a =? p_c b) && (p_w a =? p_w b) && (p_h a =? p_h b) && (p_z a =? p_z b).
Definition plc_mem (p : plc) (l : list plc) : bool := existsb (plc_eqb p) l.
(** placements are compared as sets (two equal placements are indistinguishable) *)
Definition plcs_subset (a b : list plc) : bool := forallb (fun p => plc_mem p b) a.
Definition plcs_same (a b : list plc) : bool := plcs_subset a b && plcs_subset b a.

(** a stream is one synchronized update: begins with BEGIN, ends with END, none inside *)
Definition is_sync (x : stok) : bool := match x with KSyncB | KSyncE => true | _ => false end.
Definition bracketed (ts : list stok) : bool :=
  match ts with
  | KSyncB :: rest =>
    match rev rest with
    | KSyncE :: mid => negb (existsb is_sync mid)
    | _ => false
    end
  | _ => false
  end.

Close Scope Z_scope.

(** ** 3. The screen's bookkeeping *)

Definition wkind_eqb (a b : wkind) : bool :=
  match a, b with
  | WKitty x, WKitty y => Z.eqb x y
  | WIterm, WIterm | WText, WText => true
  | _, _ => false
  end.
Definition ckind_eqb (a b : ckind) : bool :=
  match a, b with
  | CPlain, CPlain => true
  | CImage w k, CImage w' k' => Nat.eqb w w' && wkind_eqb k k'
  | _, _ => false
  end.
Definition canv_eqb (a b : canvinfo) : bool := Nat.eqb (ci_id a) (ci_id b) && ckind_eqb (ci_kind a) (ci_kind b).
(** tuple equality of :673 (canvases compare by identity) *)
Definition view_eqb (a b : view) : bool :=
  canv_eqb (v_canv a) (v_canv b) && Nat.eqb (v_row a) (v_row b) && Nat.eqb (v_col a) (v_col b)
  && Nat.eqb (v_tl a) (v_tl b) && Nat.eqb (v_tt a) (v_tt b)
  && Nat.eqb (v_cols a) (v_cols b) && Nat.eqb (v_rows a) (v_rows b).
Definition view_mem (v : view) (l : list view) : bool := existsb (view_eqb v) l.

Definition v_wid (v : view) : nat := match ci_kind (v_canv v) with CImage w _ => w | CPlain => 0 end.
Definition v_kind (v : view) : wkind := match ci_kind (v_canv v) with CImage _ k => k | CPlain => WText end.
Definition is_kitty (k : wkind) : bool := match k with WKitty _ => true | _ => false end.
Definition kind_z (k : wkind) : Z := match k with WKitty z => z | _ => 0%Z end.

Record scr := mk_scr {
  s_prev : list view;            (* _ti_image_cviews *)
  s_cdis : nat;                  (* UrwidImageCanvas._ti_disguise_state (class attribute) *)
  s_wdis : list (nat * nat);     (* widget -> UrwidImage._ti_disguise_state, absent = 0 *)
  s_canv : option nat            (* identity of _ti_screen_canv *)
}.
Definition scr_init : scr := mk_scr [] 0 [] None.

Fixpoint wdis_get (w : nat) (l : list (nat * nat)) : nat :=
  match l with
  | [] => 0
  | (w', n) :: t => if Nat.eqb w' w then n else wdis_get w t
  end.
Definition wdis_bump (w : nat) (l : list (nat * nat)) : list (nat * nat) :=
  (w, (wdis_get w l + 1) mod 3) :: filter (fun e => negb (Nat.eqb (fst e) w)) l.   (* :211 *)

(** the number of ["\b "] appended to every line of an image canvas (:402-410) *)
Definition dsum (s : scr) (w : nat) : nat := s_cdis s + wdis_get w (s_wdis s).

(** clear_images() without widgets (:535-536, :564-569) *)
Definition clear_images_all (ksup : bool) (s : scr) : list stok * scr :=
  if ksup then ([KDel DelAll], mk_scr (s_prev s) ((s_cdis s + 1) mod 3) (s_wdis s) (s_canv s))
  else ([], s).

(** clear_images(widgets..., now=False) (:535-563): one disguise bump and one delete per
    ARGUMENT that is a kitty widget *)
Definition clear_images_widgets (ksup : bool) (ws : list (nat * wkind)) (s : scr) : list stok * scr :=
  if ksup then
    let ks := filter (fun w => is_kitty (snd w)) ws in
    (map (fun w => KDel (DelZ (kind_z (snd w)))) ks,
     mk_scr (s_prev s) (s_cdis s) (fold_left (fun l w => wdis_bump (fst w) l) ks (s_wdis s)) (s_canv s))
  else ([], s).

(** the PUBLIC clear_images(widgets..., now=...) (:516-569) called by the application:
    without widgets everything is cleared (:564-569), otherwise the kitty widgets among the
    arguments (:538-563).  Result: what is written at once to the terminal (now=True:
    write_tty), what is queued in the screen's output buffer until the next flush (now=False:
    self.write; draw_screen flushes), the new state.  In both arms the disguise changes. *)
Definition api_clear_images (ksup : bool) (ws : list (nat * wkind)) (now : bool) (s : scr)
  : list stok * list stok * scr :=
  let os := match ws with
            | [] => clear_images_all ksup s
            | _ => clear_images_widgets ksup ws s
            end in
  if now then (fst os, [], snd os) else ([], fst os, snd os).

Fixpoint dedup_w (ws : list (nat * wkind)) : list (nat * wkind) :=
  match ws with
  | [] => []
  | w :: t => if existsb (fun x => Nat.eqb (fst x) (fst w)) t then dedup_w t else w :: dedup_w t
  end.

(** the part of _ti_clear_images after the walk (:672-686).
    FIX (pending_fixes/C18_kitty_widget_listed_per_view.diff): a kitty widget is passed ONCE
    to clear_images() however many of its views disappeared (the code before the fix passed
    it once per view, so that three vanished views left its disguise unchanged and its
    surviving lines were deleted but not re-sent).
    The iteration order of the set difference is unspecified: the deletes are a set. *)
Definition update_views (ksup : bool) (new : list view) (s : scr) : list stok * scr :=
  let diff := filter (fun v => negb (view_mem v new)) (s_prev s) in
  let '(out, s1) :=
    if existsb (fun v => negb (is_kitty (v_kind v))) diff then clear_images_all ksup s     (* :677-681 *)
    else match diff with
         | [] => ([], s)
         | _ => clear_images_widgets ksup (dedup_w (map (fun v => (v_wid v, v_kind v)) diff)) s   (* :683-684 *)
         end in
  (out, mk_scr new (s_cdis s1) (s_wdis s1) (s_canv s1)).                                   (* :686 *)

(** a canvas handed to draw_screen: a CompositeCanvas with its shards, or any other canvas *)
Inductive canvas := Composite (id : nat) (shards : list shard) | Single (c : canvinfo) (cols rows : nat).
Definition canvas_id (c : canvas) : nat := match c with Composite i _ => i | Single ci _ _ => ci_id ci end.
(** FIX (pending_fixes/C18_non_composite_canvas.diff): a canvas that is not a
    CompositeCanvas is wrapped into one — [CompositeCanvas(canv).shards] is
    [[(rows, [(0, 0, cols, rows, None, canv)])]] (urwid/canvas.py:664) — instead of the
    special branch :626-630, which raised AttributeError (frozenset.clear) when images were
    on screen and forgot an image canvas drawn as the top-most widget. *)
Definition canvas_shards (c : canvas) : list shard :=
  match c with
  | Composite _ sh => sh
  | Single ci cols rows => [(rows, [mk_cview 0 0 cols rows ci])]
  end.

(** _ti_clear_images (:615-686); [None] = the walk ran out of fuel *)
Definition ti_clear_images (fuel : nat) (ksup ikon konsole : bool) (c : canvas) (s : scr)
  : option (list stok * scr) :=
  if negb (ksup || ikon) then Some ([], s)                                                 (* :616-622 *)
  else match walk fuel konsole (canvas_shards c) with
       | None => None
       | Some new => Some (update_views ksup new s)
       end.

(** ** 4. Streams *)

(** draw_screen (:574-589): [inner] is what the base class' draw_screen wrote before it
    returned or raised *)
Definition draw_screen (fuel : nat) (ksup ikon konsole : bool) (c : canvas) (inner : list stok) (s : scr)
  : option (list stok * scr) :=
  if match s_canv s with Some i => Nat.eqb i (canvas_id c) | None => false end             (* :583 *)
  then Some ([KSyncB] ++ inner ++ [KSyncE], s)
  else
    let s0 := mk_scr (s_prev s) (s_cdis s) (s_wdis s) (Some (canvas_id c)) in              (* :584 *)
    match ti_clear_images fuel ksup ikon konsole c s0 with                                 (* :585 *)
    | None => None
    | Some (dels, s1) => Some ([KSyncB] ++ dels ++ inner ++ [KSyncE], s1)                  (* :581,586-588 *)
    end.

(** clear (:512-514), _start (:606-609), _stop (:611-613); [inner] = the base class' output *)
Definition clear_stream (ksup : bool) (s : scr) : list stok * scr := clear_images_all ksup s.
Definition start_stream (ksup : bool) (inner : list stok) (s : scr) : list stok * scr :=
  let '(o, s') := clear_images_all ksup s in (inner ++ o, s').
(** [base_clears]: the base class' _stop() itself calls self.clear() (urwid 2.6:
    _posix_raw_display.py:214), which is the overridden clear() above *)
Definition stop_stream (ksup base_clears : bool) (inner : list stok) (s : scr) : list stok * scr :=
  let '(o1, s1) := clear_images_all ksup s in
  let '(o2, s2) := if base_clears then clear_stream ksup s1 else ([], s1) in
  (o1 ++ o2 ++ inner, s2).
