(** * Screen — model of term_image.widget._urwid (C18: no ghost image on the urwid screen)

    Definitions only (proofs: proofs/ScreenAlloc.v, ScreenWalk.v, ScreenGhost.v,
    ScreenSync.v; statements: props/C18.v).  Mirrors src/term_image/widget/_urwid.py
    AFTER the two fixes of pending_fixes/C18_*.diff (see the FIX notes below):

      1. the z-index allocator        UrwidImage._ti_get_z_index / __del__   (:66-112, :197-207)
      2. the shard walk               UrwidImageScreen._ti_clear_images      (:632-670)
      3. the bookkeeping of a redraw  _ti_clear_images / clear_images        (:516-569, :615-686)
      4. the streams                  draw_screen / clear / _start / _stop   (:512-514, :574-613)
      5. a placement-level terminal   (specification side: what a terminal implementing the
                                       kitty graphics protocol shows after a stream)
      6. the reference semantics of urwid's shards (layouts of rows of rectangles with spans)
*)
From Coq Require Import List ZArith Bool Lia Arith.
Import ListNotations.
From TI Require Import lib.Term.   (* [kitty_del] *)

(** ** 1. z-index allocator *)

Open Scope Z_scope.

Definition zlimit : Z := 2147483648.            (* 2**31 *)

Record alloc_st := mk_alloc { a_next : Z;       (* _ti_next_z_index *)
                              a_free : list Z   (* _ti_free_z_indexes (a set) *) }.
Definition alloc_init : alloc_st := mk_alloc 1 [].

Fixpoint zmem (z : Z) (l : list Z) : bool :=
  match l with [] => false | x :: t => (x =? z) || zmem z t end.

(** [set.pop()] removes and returns an ARBITRARY element: [pick] says which (an index
    beyond the end selects the first element, so that the function is total and every
    element can be selected). *)
Fixpoint pop_nth (n : nat) (l : list Z) : option (Z * list Z) :=
  match l with
  | [] => None
  | x :: t =>
    match n with
    | O => Some (x, t)
    | S k => match pop_nth k t with
             | Some (y, t') => Some (y, x :: t')
             | None => Some (x, t)
             end
    end
  end.

(** _ti_get_z_index (:197-207).  [None] = raises UrwidImageError, state unchanged. *)
Definition alloc (pick : nat) (s : alloc_st) : option Z * alloc_st :=
  match pop_nth pick (a_free s) with
  | Some (z, f') => (Some z, mk_alloc (a_next s) f')                       (* :199-200 *)
  | None =>
    let z := a_next s in                                                  (* :202 *)
    if z =? zlimit then (None, s)                                         (* :203-204 *)
    else (Some z, mk_alloc (if 0 <? z then - z else - z + 1) [])          (* :205 *)
  end.

(** __del__ (:110-112): [_ti_free_z_indexes.add(z)] *)
Definition release (z : Z) (s : alloc_st) : alloc_st :=
  mk_alloc (a_next s) (if zmem z (a_free s) then a_free s else z :: a_free s).

(** Histories of widget constructions and finalisations.  Widgets are numbered in order of
    construction.  [ADel w] on a widget that holds no z-index (never constructed, not a
    kitty widget / constructor raised, or already finalised) is a no-op: Python finalises an
    object once and [__del__] tests [hasattr(self, "_ti_z_index")]. *)
Inductive aev := ANew (pick : nat) | ADel (w : nat).

Record hist_st := mk_hist { h_a : alloc_st; h_live : list (nat * Z); h_cnt : nat }.
Definition hist_init : hist_st := mk_hist alloc_init [] 0.

Fixpoint live_find (w : nat) (l : list (nat * Z)) : option Z :=
  match l with
  | [] => None
  | (w', z) :: t => if Nat.eqb w' w then Some z else live_find w t
  end.
Definition live_remove (w : nat) (l : list (nat * Z)) : list (nat * Z) :=
  filter (fun p => negb (Nat.eqb (fst p) w)) l.

Definition hist_step (s : hist_st) (e : aev) : hist_st :=
  match e with
  | ANew pick =>
    match alloc pick (h_a s) with
    | (Some z, a') => mk_hist a' ((h_cnt s, z) :: h_live s) (S (h_cnt s))
    | (None, a') => mk_hist a' (h_live s) (S (h_cnt s))
    end
  | ADel w =>
    match live_find w (h_live s) with
    | Some z => mk_hist (release z (h_a s)) (live_remove w (h_live s)) (h_cnt s)
    | None => s
    end
  end.
Definition hist_run (h : list aev) : hist_st := fold_left hist_step h hist_init.
Definition live_zs (s : hist_st) : list Z := map snd (h_live s).

Close Scope Z_scope.
Open Scope nat_scope.

(** ** 2. Canvases, canvas views, shards, the walk *)

(** what the screen needs to know of a widget's image *)
Inductive wkind := WKitty (z : Z) | WIterm | WText.
(** a canvas object: its identity and, for an [UrwidImageCanvas] rendered by an
    [UrwidImage], the widget (identity, image kind) found through [widget_info] *)
Inductive ckind := CPlain | CImage (wid : nat) (k : wkind).
Record canvinfo := mk_canv { ci_id : nat; ci_kind : ckind }.

(** urwid cview (trim_left, trim_top, cols, rows, attr_map, canv) without the attr_map *)
Record cview := mk_cview { cv_tl : nat; cv_tt : nat; cv_cols : nat; cv_rows : nat; cv_canv : canvinfo }.
Definition shard := (nat * list cview)%type.

(** an element of [_ti_image_cviews]: (canv, row, col, trim_left, trim_top, cols, rows) *)
Record view := mk_view { v_canv : canvinfo; v_row : nat; v_col : nat;
                         v_tl : nat; v_tt : nat; v_cols : nat; v_rows : nat }.

(** :659-663 — the canvas belongs to a widget whose images stay on the terminal until deleted *)
Definition tracked (konsole : bool) (c : canvinfo) : bool :=
  match ci_kind c with
  | CImage _ (WKitty _) => true
  | CImage _ WIterm => konsole
  | _ => false
  end.

(** [shard_tails]: dict col -> (cols, rows) (the trim and the canvas stored by the code are
    never read) *)
Definition tails := list (nat * (nat * nat)).
Fixpoint tfind (k : nat) (d : tails) : option (nat * nat) :=
  match d with
  | [] => None
  | (k', v) :: t => if Nat.eqb k' k then Some v else tfind k t
  end.
Definition tremove (k : nat) (d : tails) : tails := filter (fun e => negb (Nat.eqb (fst e) k)) d.
Definition tset (k : nat) (v : nat * nat) (d : tails) : tails := (k, v) :: tremove k d.

(** process_shard_tails (:632-641).  The [while] loop gets a fuel; [None] = out of fuel
    (the Python loop would not terminate: only possible with a zero-width tail). *)
Fixpoint pst (fuel n_rows col : nat) (d : tails) : option (nat * tails) :=
  match fuel with
  | O => None
  | S f =>
    match tfind col d with
    | None => Some (col, d)
    | Some (cols, rows) =>
      pst f n_rows (col + cols)
          (if n_rows <? rows then tset col (cols, rows - n_rows) d     (* :637-638 *)
           else tremove col d)                                        (* :640 *)
    end
  end.

(** the inner [for cview in cviews] (:649-668) followed by the final
    process_shard_tails (:669) *)
Fixpoint walk_cviews (fuel : nat) (konsole : bool) (n_rows row : nat) (cvs : list cview)
         (col : nat) (d : tails) : option (tails * list view) :=
  match cvs with
  | [] => match pst fuel n_rows col d with
          | None => None
          | Some (_, d') => Some (d', [])
          end
  | cv :: rest =>
    match pst fuel n_rows col d with                                   (* :650 *)
    | None => None
    | Some (col1, d1) =>
      let here := if tracked konsole (cv_canv cv)                      (* :653-664 *)
                  then [mk_view (cv_canv cv) row col1 (cv_tl cv) (cv_tt cv) (cv_cols cv) (cv_rows cv)]
                  else [] in
      let d2 := if n_rows <? cv_rows cv                                (* :666-667 *)
                then tset col1 (cv_cols cv, cv_rows cv - n_rows) d1 else d1 in
      match walk_cviews fuel konsole n_rows row rest (col1 + cv_cols cv) d2 with   (* :668 *)
      | None => None
      | Some (d3, vs) => Some (d3, here ++ vs)
      end
    end
  end.

Fixpoint walk_shards (fuel : nat) (konsole : bool) (shards : list shard) (row : nat) (d : tails)
  : option (list view) :=
  match shards with
  | [] => Some []
  | (n_rows, cvs) :: rest =>
    match walk_cviews fuel konsole n_rows row cvs 1 d with             (* :648 col = 1 *)
    | None => None
    | Some (d', vs) =>
      match walk_shards fuel konsole rest (row + n_rows) d' with       (* :670 *)
      | None => None
      | Some vs' => Some (vs ++ vs')
      end
    end
  end.

(** :643-670 *)
Definition walk (fuel : nat) (konsole : bool) (shards : list shard) : option (list view) :=
  walk_shards fuel konsole shards 1 [].

(** ** 6. Reference semantics of shards: layouts

    A layout describes the screen band by band; every band lists ALL the rectangles that
    cross it, left to right: a rectangle that starts in the band ([CNew], with its total
    height) or the continuation of a rectangle started in a band above ([CCont cols left]:
    its width and the number of rows still to come, this band included).  urwid's shards
    keep only the [CNew] cells (a cview is listed in the shard where it starts). *)
Inductive cell := CNew (cv : cview) | CCont (cols rows_left : nat).
Definition band := (nat * list cell)%type.
Definition layout := list band.

Definition cell_cols (c : cell) : nat := match c with CNew cv => cv_cols cv | CCont w _ => w end.
Definition cell_rows (c : cell) : nat := match c with CNew cv => cv_rows cv | CCont _ r => r end.

Definition news_of (cs : list cell) : list cview :=
  flat_map (fun c => match c with CNew cv => [cv] | CCont _ _ => [] end) cs.
Definition shards_of (l : layout) : list shard := map (fun b => (fst b, news_of (snd b))) l.

(** what continues below a band of [n] rows / what a band continues, with columns *)
Fixpoint tails_from (n col : nat) (cs : list cell) : tails :=
  match cs with
  | [] => []
  | c :: t =>
    (if n <? cell_rows c then [(col, (cell_cols c, cell_rows c - n))] else [])
      ++ tails_from n (col + cell_cols c) t
  end.
Fixpoint conts_from (col : nat) (cs : list cell) : tails :=
  match cs with
  | [] => []
  | c :: t =>
    (match c with CCont w r => [(col, (w, r))] | CNew _ => [] end)
      ++ conts_from (col + cell_cols c) t
  end.

(** well-formed: widths positive; what continues below a band is exactly what the next
    band continues, at the same columns (the first band continues nothing) *)
Fixpoint wf_bands (prev : tails) (l : layout) : bool :=
  match l with
  | [] => true
  | (n, cs) :: rest =>
    forallb (fun c => 0 <? cell_cols c) cs
    && (if list_eq_dec (prod_eq_dec Nat.eq_dec (prod_eq_dec Nat.eq_dec Nat.eq_dec)) (conts_from 1 cs) prev
        then true else false)
    && wf_bands (tails_from n 1 cs) rest
  end
with prod_eq_dec_dummy (u : unit) : unit := u.
