(** Executable comparison used by the C15 correspondence for INVALIDATION SCHEDULES:
    real threads running programs of memoised calls / [_invalidate_cache()] /
    [enable_queries()] / [disable_queries()] under a deterministic cooperative scheduler
    (harness/impl/impl_c15.py), replayed on [model/CachesInval.v].

    The real threads park at: the start of every command; the acquisition of the memo's
    lock (about to acquire / just acquired); the start of the memoised body (before it
    reads [_queries_enabled]); inside the body after the flag was read (the terminal's
    reply is about to arrive); the [setdefault]; the release of the lock (about to release /
    just released, the return to the caller ahead).  A PICK of
    thread [t] lets it run to its next parking point (a pick of a finished thread, or of
    one that finds the lock taken, is a no-op).  These picks are the model's micro-steps,
    except that [enable_queries]'s test and flag write are one pick ([qmacro]).

    Observed per case: the final flag; per thread and call, in program order, a pair
    (condition code, body serial): condition code 1 = the value a fresh computation with
    queries DISABLED gives, 2 = with queries ENABLED, 3 = neither; body serial = which
    body run made the value (1, 2, ... in starting order; 0 = made before the threads
    started; -1 = unknown — the real getters' values do not tell);  how many bodies
    started;  per key called, the same pair for the entry left in the table (0, -1 if
    none), the raw value of a call made AFTER all threads have finished and the raw fresh
    values (twin package copy) with queries disabled / enabled;  and the LOG of the run:
    body starts, begins and returns of invalidations, starts and returns of calls (the calls
    made afterwards included), in the order they happened.

    [icheck]: 1 = differs from the model under the same schedule;  2 = the observations
    contradict the SPECIFICATION, judged on the observations alone:
    (a) with queries enabled at the end, the call made afterwards returns the fresh value
        with queries enabled (else: one of the two fresh values);
    (b) on the log: no call returns a value made by a body that started before the BEGIN
        of an invalidation that had RETURNED when the call began;
    (c) every call returned one of the two fresh values;
    (d) when no thread disables queries and only one thread enables / invalidates, that
        thread's calls after its [enable_queries()] return the "enabled" value. *)
From Coq Require Import List ZArith Bool Arith.
Import ListNotations.
From TI Require Import lib.Sched model.CachesInval model.CachesTie.
Open Scope Z_scope.

(** one pick of the cooperative scheduler *)
Definition qmacro (s : qstate) (t : nat) : qstate :=
  match qstep s t with
  | None => s
  | Some s1 =>
    match q_pc (q_th s1 t) with
    | QSet => match qstep s1 t with Some s2 => s2 | None => s1 end
    | _ => s1
    end
  end.

Definition qrun (s : qstate) (sch : list nat) : qstate := fold_left qmacro sch s.

Inductive iev :=
| IBody (n : nat)              (* the body run with serial [n] started (read the condition) *)
| IInvalBegin (i : nat)        (* invalidation [i] began: [_invalidate_cache()], or an [enable_queries()] that found queries disabled, was called *)
| IInvalEnd (i : nat)          (* invalidation [i] returned to its caller *)
| ICallStart (j : nat)         (* call [j] began *)
| ICallRet (j : nat) (n : Z).  (* call [j] returned the value made by body run [n] *)

Record icase := {
  i_f0 : bool;
  i_warm : list (nat * bool);
  i_progs : list (list qcmd);
  i_sched : list nat;
  i_flag : bool;
  i_rets : list (list (Z * Z));
  i_nbody : nat;
  i_keys : list nat;
  i_cache : list (Z * Z);
  i_after : list (list Z);
  i_fdis : list (list Z);
  i_fen : list (list Z);
  i_log : list iev
}.

Fixpoint assoc {A} (k : nat) (l : list (nat * A)) : option A :=
  match l with
  | [] => None
  | (k0, v) :: r => if Nat.eqb k k0 then Some v else assoc k r
  end.

Definition ccode (c : bool) : Z := if c then 2 else 1.

Definition pair_ok (obs : Z * Z) (en : qentry) : bool :=
  Z.eqb (fst obs) (ccode (e_cond en))
  && ((snd obs <? 0) || Z.eqb (snd obs) (Z.of_nat (e_run en))).

Fixpoint pairs_ok (obs : list (Z * Z)) (mdl : list (nat * nat * qentry)) : bool :=
  match obs, mdl with
  | [], [] => true
  | o :: os, (_, _, en) :: ms => pair_ok o en && pairs_ok os ms
  | _, _ => false
  end.

Fixpoint threads_ok (s : qstate) (t : nat) (progs : list (list qcmd)) (rets : list (list (Z * Z))) : bool :=
  match progs, rets with
  | [], [] => true
  | _ :: ps, r :: rs =>
    match q_pc (q_th s t), q_todo (q_th s t) with
    | QIdle, [] => pairs_ok r (q_rets (q_th s t))
    | _, _ => false
    end && threads_ok s (S t) ps rs
  | _, _ => false
  end.

Fixpoint cache_ok (s : qstate) (keys : list nat) (obs : list (Z * Z)) : bool :=
  match keys, obs with
  | [], [] => true
  | k :: ks, o :: os =>
    match q_cache s k with
    | Some en => pair_ok o en
    | None => Z.eqb (fst o) 0
    end && cache_ok s ks os
  | _, _ => false
  end.

(** (a) *)
Fixpoint after_ok (flag : bool) (after fdis fen : list (list Z)) : bool :=
  match after, fdis, fen with
  | [], [], [] => true
  | a :: ar, d :: dr, e :: er =>
    (zl_eqb a e || (negb flag && zl_eqb a d)) && after_ok flag ar dr er
  | _, _, _ => false
  end.

(** (b): events are numbered 1, 2, ... ([pos]); [begins]: invalidation -> position of its
    begin; [hi]: the latest begin among the invalidations that have RETURNED so far;
    [gens]: body serial -> position of its start (0 for serial 0: before everything);
    [floors]: call -> [hi] when the call began.  A call must not return a value whose
    body started before the begin of an invalidation that had returned when the call
    began.  (A body that starts while an invalidation is between its begin and its return
    may lie on either side of the [cache.clear()]: not judged.) *)
Fixpoint log_ok (pos : nat) (begins : list (nat * nat)) (hi : nat) (gens floors : list (nat * nat))
         (log : list iev) : bool :=
  match log with
  | [] => true
  | IBody n :: r => log_ok (S pos) begins hi ((n, pos) :: gens) floors r
  | IInvalBegin i :: r => log_ok (S pos) ((i, pos) :: begins) hi gens floors r
  | IInvalEnd i :: r =>
    log_ok (S pos) begins (Nat.max hi (match assoc i begins with Some p => p | None => pos end)) gens floors r
  | ICallStart j :: r => log_ok (S pos) begins hi gens ((j, hi) :: floors) r
  | ICallRet j n :: r =>
    (if n <? 0 then true
     else
       let gen := if n =? 0 then Some 0%nat else assoc (Z.to_nat n) gens in
       match gen, assoc j floors with
       | Some g, Some fl => Nat.leb fl g
       | _, _ => false          (* a value from a body that never started / a return without a start *)
       end)
    && log_ok (S pos) begins hi gens floors r
  end.

(** (c) *)
Definition codes_ok (rets : list (list (Z * Z))) : bool :=
  forallb (forallb (fun p => Z.eqb (fst p) 1 || Z.eqb (fst p) 2)) rets.

(** (d) *)
Definition is_disable (c : qcmd) : bool := match c with QDisable => true | _ => false end.
Definition is_clearing (c : qcmd) : bool := match c with QEnable | QInval => true | _ => false end.
Definition is_call (c : qcmd) : bool := match c with QCall _ => true | _ => false end.

Fixpoint after_enable_ok (seen : bool) (prog : list qcmd) (rets : list (Z * Z)) : bool :=
  match prog with
  | [] => true
  | QCall _ :: r =>
    match rets with
    | o :: os => (negb seen || Z.eqb (fst o) 2) && after_enable_ok seen r os
    | [] => false
    end
  | QEnable :: r => after_enable_ok true r rets
  | _ :: r => after_enable_ok seen r rets
  end.

Fixpoint order_ok (progs : list (list qcmd)) (rets : list (list (Z * Z))) : bool :=
  match progs, rets with
  | p :: ps, r :: rs => after_enable_ok false p r && order_ok ps rs
  | _, _ => true
  end.

Definition single_clearer (progs : list (list qcmd)) : bool :=
  Nat.leb (length (filter (existsb is_clearing) progs)) 1
  && negb (existsb (existsb is_disable) progs).

Definition icheck (c : icase) : nat :=
  let warm := fun k => assoc k (i_warm c) in
  let prog := fun t => nth t (i_progs c) [] in
  let s := qrun (qinit (i_f0 c) warm prog) (i_sched c) in
  let ok_model :=
      threads_ok s 0 (i_progs c) (i_rets c)
      && Bool.eqb (q_flag s) (i_flag c)
      && Nat.eqb (q_runs s) (i_nbody c)
      && cache_ok s (i_keys c) (i_cache c) in
  let ok_spec :=
      after_ok (i_flag c) (i_after c) (i_fdis c) (i_fen c)
      && log_ok 1 [] 0 [] [] (i_log c)
      && codes_ok (i_rets c)
      && (negb (single_clearer (i_progs c)) || order_ok (i_progs c) (i_rets c)) in
  ((if ok_model then 0 else 1) + (if ok_spec then 0 else 2))%nat.

Definition ireport (cases : list icase) : list (nat * nat) := index_from 0 (map icheck cases).
