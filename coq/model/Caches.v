(** * Caches — model of the cached terminal facts (C15)

    Mirrors, branch for branch,

    - [utils.get_cell_size] and [_cell_size_cache], [utils.py:403-473, 813];
    - the [cached] decorator and its two users [get_fg_bg_colors] /
      [get_terminal_name_version], [utils.py:159-194, 486-558];
    - the [terminal_size_cached] decorator, [utils.py:252-293];
    - [enable_queries] / [disable_queries] / [enable_win_size_swap] /
      [disable_win_size_swap], [__init__.py:85-143];
    - [get_cell_ratio] / [set_cell_ratio] / [AutoCellRatio.is_supported],
      [__init__.py:146-205, 223-224];
    - [TextImage._is_on_kitty], [image/common.py:1949-1952], AFTER the fix for F9
      ([kitty_memo e = false]: the redundant [@cached] is gone); the switch
      [kitty_memo e = true] gives the code before the fix and is used only to state the
      refutation of [derived_facts_fresh] for it.

    Computations may be ABORTED: an exception (KeyboardInterrupt, termios.error/OSError)
    raised inside [query_terminal] while the terminal's reply is awaited propagates out
    of the getter.  The operations [GetCellSizeAbort | GetCellRatioAbort |
    GetColorsAbort k | GetNameVersionAbort] are the getters called with such a fault
    armed: the fault fires only if the call really queries the terminal (otherwise the
    call returns normally); when it fires the caller sees [raised] and NOTHING is stored
    ([_cell_size_cache] has a single write at the very end, [utils.py:471];
    [cache.setdefault(arguments, func(...))] evaluates the call of [func] first,
    [utils.py:184]).

    A RESIZE MAY LAND WHILE A MEMOISED BODY RUNS (such a body can take long: it may wait
    for the terminal's reply).  The operation [GetTscResize t] is a call of the
    [terminal_size_cached] probe during whose body the terminal is resized to [t]: the
    wrapper reads the terminal size ([ts = get_terminal_size()], [utils.py:278]), the
    body — if the entry does not serve the call — reads the terminal at its START, then
    the resize happens, then the body returns and the wrapper stores [(value, ts)],
    [utils.py:280]: the entry is keyed by the size read BEFORE the body, i.e. the size
    the value was computed for.  If the entry serves the call the body does not run and
    no resize happens.

    Part 1 is the sequential state machine, part 2 the history-level specification
    (the property oracle: no caches, only the provenance of entries), part 3 the [cached]
    decorator as a concurrent system over [lib/Sched.v] (results include Python's
    [None]; sequential histories are the one-thread case), part 4 the win-size-swap
    toggles against concurrent [get_cell_size] calls, again over [lib/Sched.v].

    Definitions only; proofs are in [proofs/CachesProofs.v], [proofs/MemoProofs.v] and
    [proofs/SwapProofs.v]. *)
From Coq Require Import List ZArith Bool Arith Lia.
Import ListNotations.
From TI Require Import lib.Sched.
Open Scope Z_scope.

(** ** 1. The terminal, as the library sees it *)

(** what changes when the window is resized *)
Record tsize := { cols : Z; rows : Z; xpx : Z; ypx : Z }.

(** what does not change during a session.  Names and versions are codes
    (0 = not available -> [None]; 1 = "kitty"); colours are 24-bit integers, -1 = no answer. *)
Record tenv := {
  has_tty : bool;            (* [_tty_fd != -1] (the [unix_tty_only] gate) *)
  io_px : bool;              (* TIOCGWINSZ reports the pixel fields (else zeros / OSError) *)
  xt_cell : bool;            (* answers XTWINOPS 16 (cell size in pixels) *)
  xt_area : bool;            (* answers XTWINOPS 14 (text area size in pixels) *)
  xt_name : option (Z * Z);  (* XTVERSION reply (name, version), lower-cased *)
  env_name : Z * Z;          (* TERM_PROGRAM, TERM_PROGRAM_VERSION *)
  col_fg : Z;                (* OSC 10 reply *)
  col_bg : Z;                (* OSC 11 reply *)
  kitty_memo : bool          (* code variant: [_is_on_kitty] is itself [@cached] (before F9's fix) *)
}.

Definition KITTY : Z := 1.

Definition has0 (p : Z * Z) : bool := (fst p =? 0) || (snd p =? 0).

(** [cell_size = tuple(map(floordiv, text_area_size, terminal_size))] after the optional
    swap, [utils.py:466-469] *)
Definition div_area (sw : bool) (area : Z * Z) (t : tsize) : Z * Z :=
  let a := if sw then (snd area, fst area) else area in
  (fst a / cols t, snd a / rows t).

(** the body of [get_cell_size] below the cache test, [utils.py:433-469]:
    ioctl first; if it gives no pixel size, XTWINOPS (which needs queries enabled):
    a cell-size reply is taken as is, a text-area reply is swapped/divided. *)
Definition compute_cell (e : tenv) (t : tsize) (sw q : bool) : Z * Z :=
  if io_px e && negb (has0 (xpx t, ypx t)) then div_area sw (xpx t, ypx t) t
  else if q then
         if xt_cell e then (xpx t / cols t, ypx t / rows t)
         else if xt_area e then div_area sw (xpx t, ypx t) t
         else (0, 0)
       else (0, 0).

(** body of [get_terminal_name_version], [utils.py:539-558]; [q] = a response arrives
    (terminal present and queries enabled) *)
Definition name_body (e : tenv) (q : bool) : Z * Z :=
  if q then match xt_name e with Some nv => nv | None => env_name e end
  else env_name e.

(** body of [get_fg_bg_colors] for the argument tuple [k]
    (0: no argument, 1: [hex=False], 2: [hex=True]); result (representation, fg, bg),
    representation 0 = both [None], 1 = RGB tuples, 2 = hex strings *)
Definition col_body (e : tenv) (q : bool) (k : nat) : Z * Z * Z :=
  let fg := if q then col_fg e else -1 in
  let bg := if q then col_bg e else -1 in
  let rep := if (fg <? 0) && (bg <? 0) then 0 else if Nat.eqb k 2 then 2 else 1 in
  (rep, fg, bg).

(** ** The state *)

Inductive rmode := Fixed (q : Z * Z) | Dynamic.   (* [_cell_ratio]: a float | [None] *)

Record cscache := { k_c : Z; k_r : Z; v_w : Z; v_h : Z }.   (* [_cell_size_cache] *)
Definition zero_csc : cscache := {| k_c := 0; k_r := 0; v_w := 0; v_h := 0 |}.

Record state := {
  tm : tsize;
  swap : bool;                         (* [utils._swap_win_size] *)
  qen : bool;                          (* [utils._queries_enabled] *)
  ratio : rmode;                       (* [term_image._cell_ratio] *)
  supp : option bool;                  (* [AutoCellRatio.is_supported] (sticky, one-shot) *)
  csc : cscache;
  n_cs : nat;                          (* COMPLETED computations of the cell size (ioctl calls
                                          of calls that were not aborted) *)
  m_col : nat -> option (Z * Z * Z);   (* memo table of [get_fg_bg_colors] *)
  n_col : nat;                         (* completed executions of its body *)
  m_nv : option (Z * Z);               (* memo table of [get_terminal_name_version] *)
  n_nv : nat;
  m_kit : option bool;                 (* memo table of [_is_on_kitty] (variant only) *)
  tsc : option ((Z * Z) * (Z * Z));    (* [terminal_size_cached]: (value, (cols, rows)) *)
  n_tsc : nat
}.

Definition set_tm s v := {| tm := v; swap := swap s; qen := qen s; ratio := ratio s; supp := supp s; csc := csc s; n_cs := n_cs s; m_col := m_col s; n_col := n_col s; m_nv := m_nv s; n_nv := n_nv s; m_kit := m_kit s; tsc := tsc s; n_tsc := n_tsc s |}.
Definition set_swap s v := {| tm := tm s; swap := v; qen := qen s; ratio := ratio s; supp := supp s; csc := csc s; n_cs := n_cs s; m_col := m_col s; n_col := n_col s; m_nv := m_nv s; n_nv := n_nv s; m_kit := m_kit s; tsc := tsc s; n_tsc := n_tsc s |}.
Definition set_qen s v := {| tm := tm s; swap := swap s; qen := v; ratio := ratio s; supp := supp s; csc := csc s; n_cs := n_cs s; m_col := m_col s; n_col := n_col s; m_nv := m_nv s; n_nv := n_nv s; m_kit := m_kit s; tsc := tsc s; n_tsc := n_tsc s |}.
Definition set_ratio s v := {| tm := tm s; swap := swap s; qen := qen s; ratio := v; supp := supp s; csc := csc s; n_cs := n_cs s; m_col := m_col s; n_col := n_col s; m_nv := m_nv s; n_nv := n_nv s; m_kit := m_kit s; tsc := tsc s; n_tsc := n_tsc s |}.
Definition set_supp s v := {| tm := tm s; swap := swap s; qen := qen s; ratio := ratio s; supp := v; csc := csc s; n_cs := n_cs s; m_col := m_col s; n_col := n_col s; m_nv := m_nv s; n_nv := n_nv s; m_kit := m_kit s; tsc := tsc s; n_tsc := n_tsc s |}.
Definition set_csc s v n := {| tm := tm s; swap := swap s; qen := qen s; ratio := ratio s; supp := supp s; csc := v; n_cs := n; m_col := m_col s; n_col := n_col s; m_nv := m_nv s; n_nv := n_nv s; m_kit := m_kit s; tsc := tsc s; n_tsc := n_tsc s |}.
Definition set_col s v n := {| tm := tm s; swap := swap s; qen := qen s; ratio := ratio s; supp := supp s; csc := csc s; n_cs := n_cs s; m_col := v; n_col := n; m_nv := m_nv s; n_nv := n_nv s; m_kit := m_kit s; tsc := tsc s; n_tsc := n_tsc s |}.
Definition set_nv s v n := {| tm := tm s; swap := swap s; qen := qen s; ratio := ratio s; supp := supp s; csc := csc s; n_cs := n_cs s; m_col := m_col s; n_col := n_col s; m_nv := v; n_nv := n; m_kit := m_kit s; tsc := tsc s; n_tsc := n_tsc s |}.
Definition set_kit s v := {| tm := tm s; swap := swap s; qen := qen s; ratio := ratio s; supp := supp s; csc := csc s; n_cs := n_cs s; m_col := m_col s; n_col := n_col s; m_nv := m_nv s; n_nv := n_nv s; m_kit := v; tsc := tsc s; n_tsc := n_tsc s |}.
Definition set_tsc s v n := {| tm := tm s; swap := swap s; qen := qen s; ratio := ratio s; supp := supp s; csc := csc s; n_cs := n_cs s; m_col := m_col s; n_col := n_col s; m_nv := m_nv s; n_nv := n_nv s; m_kit := m_kit s; tsc := v; n_tsc := n |}.

(** module state at import time, [utils.py:808-815], [__init__.py:223-224]
    ([_cell_ratio = 0.5]); [empty] additionally fixes the three settings a fresh
    computation is made under *)
Definition empty (t : tsize) (sw q : bool) : state :=
  {| tm := t; swap := sw; qen := q; ratio := Fixed (1, 2); supp := None;
     csc := zero_csc; n_cs := 0%nat; m_col := fun _ => None; n_col := 0%nat;
     m_nv := None; n_nv := 0%nat; m_kit := None; tsc := None; n_tsc := 0%nat |}.
Definition init (t : tsize) : state := empty t false true.

(** ** Operations *)

Inductive rarg := RAutoFixed | RAutoDynamic | RFloat (n d : Z).   (* [d > 0] *)

Inductive op :=
| Resize (t : tsize)
| EnableSwap | DisableSwap | EnableQueries | DisableQueries
| SetRatio (m : rarg)
| GetCellSize | GetCellRatio | GetColors (k : nat) | GetNameVersion | IsOnKitty
| GetTsc    (* a probe function decorated with [terminal_size_cached] whose body
               reports the terminal's pixel size *)
| GetTscResize (t : tsize)   (* the same call, with the terminal resized to [t] WHILE the
                                body runs (after the body has looked at the terminal) *)
(* the getters called while a fault is armed inside [query_terminal] (see the header) *)
| GetCellSizeAbort | GetCellRatioAbort | GetColorsAbort (k : nat) | GetNameVersionAbort.

(** the getter an armed call is a call of *)
Definition plain (o : op) : op :=
  match o with
  | GetCellSizeAbort => GetCellSize
  | GetCellRatioAbort => GetCellRatio
  | GetColorsAbort k => GetColors k
  | GetNameVersionAbort => GetNameVersion
  | _ => o
  end.
Definition is_abort (o : op) : bool :=
  match o with
  | GetCellSizeAbort | GetCellRatioAbort | GetColorsAbort _ | GetNameVersionAbort => true
  | _ => false
  end.

Definition same_cells (a b : tsize) : bool := (cols a =? cols b) && (rows a =? rows b).

(** [get_cell_size()], [utils.py:403-473]; the result [(0, _)] / [(_, 0)] stands for [None] *)
Definition get_cs (e : tenv) (s : state) : state * (Z * Z) :=
  if negb (has_tty e) then (s, (0, 0))            (* [unix_tty_only] *)
  else if (cols (tm s) =? k_c (csc s)) && (rows (tm s) =? k_r (csc s))
  then (s, (v_w (csc s), v_h (csc s)))             (* [utils.py:429-431] *)
  else
    let cs := compute_cell e (tm s) (swap s) (qen s) in
    (set_csc s {| k_c := cols (tm s); k_r := rows (tm s); v_w := fst cs; v_h := snd cs |}
             (S (n_cs s)), cs).                    (* [utils.py:471] *)

(** the ioctl gives a usable pixel size: [got_text_area_size] after [utils.py:433-441] *)
Definition ioctl_ok (e : tenv) (t : tsize) : bool := io_px e && negb (has0 (xpx t, ypx t)).

(** [get_cell_size()] with a fault armed inside [query_terminal]; [None] = the exception
    propagated to the caller.  Branch for branch: no tty -> [None] at once
    ([unix_tty_only]); cache hit -> returns, [utils.py:429-431]; the ioctl gives the size
    -> no query, computes and stores; otherwise [query_terminal] is called,
    [utils.py:447]: with queries disabled it returns [None] before touching the terminal
    ([utils.py:617-618]: the fault does not fire, (0, 0) is stored), with queries enabled
    the fault fires, the exception leaves the [with] block and line 471 — the ONLY write
    to [_cell_size_cache] — is never reached. *)
Definition get_cs_abort (e : tenv) (s : state) : state * option (Z * Z) :=
  if negb (has_tty e) then (s, Some (0, 0))
  else if (cols (tm s) =? k_c (csc s)) && (rows (tm s) =? k_r (csc s))
  then (s, Some (v_w (csc s), v_h (csc s)))
  else if ioctl_ok e (tm s) then
    let cs := div_area (swap s) (xpx (tm s), ypx (tm s)) (tm s) in
    (set_csc s {| k_c := cols (tm s); k_r := rows (tm s); v_w := fst cs; v_h := snd cs |}
             (S (n_cs s)), Some cs)
  else if qen s then (s, None)
  else (set_csc s {| k_c := cols (tm s); k_r := rows (tm s); v_w := 0; v_h := 0 |}
                (S (n_cs s)), Some (0, 0)).

(** [get_cell_size() or (1, 2)] *)
Definition ratio_of (cs : Z * Z) : Z * Z := if has0 cs then (1, 2) else cs.

(** [get_cell_ratio()], [__init__.py:146-152]: a ratio is a pair (w, h) standing for w / h *)
Definition get_ratio (e : tenv) (s : state) : state * (Z * Z) :=
  match ratio s with
  | Fixed q => (s, q)
  | Dynamic => let (s', cs) := get_cs e s in (s', ratio_of cs)
  end.

Definition get_ratio_abort (e : tenv) (s : state) : state * option (Z * Z) :=
  match ratio s with
  | Fixed q => (s, Some q)
  | Dynamic => let (s', r) := get_cs_abort e s in (s', option_map ratio_of r)
  end.

(** [set_cell_ratio()], [__init__.py:155-205]; outcome 0 = set, 1 = TermImageError,
    2 = ValueError *)
Definition set_cell_ratio (e : tenv) (s : state) (m : rarg) : state * Z :=
  match m with
  | RFloat n d => if n <=? 0 then (s, 2) else (set_ratio s (Fixed (n, d)), 0)
  | _ =>
    let (s1, sup) :=
        match supp s with
        | None => let (s', cs) := get_cs e s in
                  (set_supp s' (Some (negb (has0 cs))), negb (has0 cs))
        | Some b => (s, b)
        end in
    if negb sup then (s1, 1)
    else match m with
         | RAutoFixed => let (s2, cs) := get_cs e s1 in (set_ratio s2 (Fixed (ratio_of cs)), 0)
         | _ => (set_ratio s1 Dynamic, 0)
         end
  end.

(** [cached_wrapper] of [get_terminal_name_version] (sequential reading; the concurrent
    one is part 3) *)
Definition get_nv (e : tenv) (s : state) : state * (Z * Z) :=
  match m_nv s with
  | Some v => (s, v)
  | None => let v := name_body e (has_tty e && qen s) in
            (set_nv s (Some v) (S (n_nv s)), v)
  end.

Definition get_col (e : tenv) (s : state) (k : nat) : state * (Z * Z * Z) :=
  match m_col s k with
  | Some v => (s, v)
  | None => let v := col_body e (has_tty e && qen s) k in
            (set_col s (upd (m_col s) k (Some v)) (S (n_col s)), v)
  end.

(** the memoised getters with a fault armed: [cached_wrapper] evaluates
    the call of [func] BEFORE [cache.setdefault], [utils.py:184]: a raising body
    stores nothing.  The body queries (and the fault fires) iff there is a terminal and
    queries are enabled ([query_terminal] is [unix_tty_only] and returns early when
    disabled). *)
Definition get_nv_abort (e : tenv) (s : state) : state * option (Z * Z) :=
  match m_nv s with
  | Some v => (s, Some v)
  | None => if has_tty e && qen s then (s, None)
            else let v := name_body e false in
                 (set_nv s (Some v) (S (n_nv s)), Some v)
  end.

Definition get_col_abort (e : tenv) (s : state) (k : nat) : state * option (Z * Z * Z) :=
  match m_col s k with
  | Some v => (s, Some v)
  | None => if has_tty e && qen s then (s, None)
            else let v := col_body e false k in
                 (set_col s (upd (m_col s) k (Some v)) (S (n_col s)), Some v)
  end.

Definition is_kitty (nv : Z * Z) : bool := fst nv =? KITTY.

(** [TextImage._is_on_kitty()] *)
Definition get_kitty (e : tenv) (s : state) : state * bool :=
  if kitty_memo e then
    match m_kit s with
    | Some b => (s, b)
    | None => let (s', v) := get_nv e s in (set_kit s' (Some (is_kitty v)), is_kitty v)
    end
  else let (s', v) := get_nv e s in (s', is_kitty v).

(** [terminal_size_cached_wrapper], [utils.py:275-283], around a body returning the
    terminal's pixel size *)
Definition get_tsc (s : state) : state * (Z * Z) :=
  let fill := (set_tsc s (Some ((xpx (tm s), ypx (tm s)), (cols (tm s), rows (tm s))))
                       (S (n_tsc s)), (xpx (tm s), ypx (tm s))) in
  match tsc s with
  | Some (v, (c, r)) => if (cols (tm s) =? c) && (rows (tm s) =? r) then (s, v) else fill
  | None => fill
  end.

(** the same call when the terminal is resized to [t] while the body runs.  Statement by
    statement, [utils.py:277-283]:
      [ts = get_terminal_size()]             the key: the size BEFORE the body;
      [if not cache or ts != cache[1]:]      a live entry: returned, the body does not run
                                             (and nothing resizes the terminal);
      [func(...)]                            the body reads the pixel size at its start,
                                             THEN the terminal becomes [t], then it returns;
      [cache = (<value>, ts)]                stored under the size the value was computed
                                             for — NOT under the size the terminal has now. *)
Definition get_tsc_resize (s : state) (t : tsize) : state * (Z * Z) :=
  let ts := (cols (tm s), rows (tm s)) in
  let v := (xpx (tm s), ypx (tm s)) in
  let fill := (set_tm (set_tsc s (Some (v, ts)) (S (n_tsc s))) t, v) in
  match tsc s with
  | Some (v0, (c, r)) => if (cols (tm s) =? c) && (rows (tm s) =? r) then (s, v0) else fill
  | None => fill
  end.

Definition clear_csc (s : state) : state := set_csc s zero_csc (n_cs s).

Definition view_cs (cs : Z * Z) : list Z := if has0 cs then [0] else [1; fst cs; snd cs].
Definition view_ratio (q : Z * Z) : list Z := [fst q; snd q].
Definition view_col (v : Z * Z * Z) : list Z := [fst (fst v); snd (fst v); snd v].
Definition view_nv (v : Z * Z) : list Z := [fst v; snd v].
Definition view_b (b : bool) : list Z := [if b then 1 else 0].
(** what the caller of an aborted computation sees: the exception *)
Definition raised : list Z := [-1].
Definition view_opt {A} (f : A -> list Z) (r : option A) : list Z :=
  match r with Some v => f v | None => raised end.

(** one operation: new state and what the caller sees *)
Definition step (e : tenv) (s : state) (o : op) : state * list Z :=
  match o with
  | Resize t => (set_tm s t, [])
  | EnableSwap =>       (* [__init__.py:140-143] *)
    if swap s then (s, []) else (clear_csc (set_swap s true), [])
  | DisableSwap =>      (* [__init__.py:107-110] *)
    if swap s then (clear_csc (set_swap s false), []) else (s, [])
  | EnableQueries =>    (* [__init__.py:121-126] *)
    if qen s then (s, [])
    else (clear_csc (set_nv (set_col (set_qen s true) (fun _ => None) (n_col s)) None (n_nv s)), [])
  | DisableQueries => (set_qen s false, [])
  | SetRatio m => let (s', c) := set_cell_ratio e s m in (s', [c])
  | GetCellSize => let (s', cs) := get_cs e s in (s', view_cs cs)
  | GetCellRatio => let (s', q) := get_ratio e s in (s', view_ratio q)
  | GetColors k => let (s', v) := get_col e s k in (s', view_col v)
  | GetNameVersion => let (s', v) := get_nv e s in (s', view_nv v)
  | IsOnKitty => let (s', b) := get_kitty e s in (s', view_b b)
  | GetTsc => let (s', v) := get_tsc s in (s', view_ratio v)
  | GetTscResize t => let (s', v) := get_tsc_resize s t in (s', view_ratio v)
  | GetCellSizeAbort => let (s', r) := get_cs_abort e s in (s', view_opt view_cs r)
  | GetCellRatioAbort => let (s', r) := get_ratio_abort e s in (s', view_opt view_ratio r)
  | GetColorsAbort k => let (s', r) := get_col_abort e s k in (s', view_opt view_col r)
  | GetNameVersionAbort => let (s', r) := get_nv_abort e s in (s', view_opt view_nv r)
  end.

Definition run_from (e : tenv) (s : state) (ops : list op) : state :=
  fold_left (fun s o => fst (step e s o)) ops s.
Definition run (e : tenv) (t0 : tsize) (ops : list op) : state := run_from e (init t0) ops.

(** observable trace: per operation, what the caller saw and the four body counters *)
Definition counters (s : state) : list Z :=
  [Z.of_nat (n_cs s); Z.of_nat (n_col s); Z.of_nat (n_nv s); Z.of_nat (n_tsc s)].

Fixpoint trace (e : tenv) (s : state) (ops : list op) : list (list Z * list Z) :=
  match ops with
  | [] => []
  | o :: r => let (s', out) := step e s o in (out, counters s') :: trace e s' r
  end.

(** ** Fresh computations: the same getter run from empty caches *)

Definition fresh_cs (e : tenv) (t : tsize) (sw q : bool) : Z * Z := snd (get_cs e (empty t sw q)).
Definition fresh_dyn_ratio (e : tenv) (t : tsize) (sw q : bool) : Z * Z :=
  snd (get_ratio e (set_ratio (empty t sw q) Dynamic)).
Definition fresh_nv (e : tenv) (t : tsize) (sw q : bool) : Z * Z := snd (get_nv e (empty t sw q)).
Definition fresh_col (e : tenv) (t : tsize) (sw q : bool) (k : nat) : Z * Z * Z :=
  snd (get_col e (empty t sw q) k).
Definition fresh_tsc (t : tsize) : Z * Z := snd (get_tsc (empty t false true)).

(** ** 2. The property, on the history alone

    No cached value is kept: the specification remembers only the *provenance* of the
    entry that would serve a call — the terminal and the query-enabled status at the
    time it was made — and answers every call by a fresh computation for the CURRENT
    terminal and swap setting under that status.  Entries die when the size in cells
    differs at the next call and on every effective toggle; entries made while queries
    were disabled die when queries are re-enabled (with the rest). *)

Record hstate := {
  h_tm : tsize; h_swap : bool; h_qen : bool;
  h_ratio : rmode; h_supp : option bool;
  h_fill : option (tsize * bool);   (* cell size: terminal and status at the last computation *)
  h_ncs : nat;
  h_col : nat -> option bool;       (* colours, per argument tuple: status at the computation *)
  h_ncol : nat;
  h_nv : option bool;               (* name/version: status at the computation *)
  h_nnv : nat;
  h_tsc : option tsize;             (* terminal-size-cached probe: terminal at the computation *)
  h_ntsc : nat
}.

Definition hinit (t : tsize) : hstate :=
  {| h_tm := t; h_swap := false; h_qen := true; h_ratio := Fixed (1, 2); h_supp := None;
     h_fill := None; h_ncs := 0%nat; h_col := fun _ => None; h_ncol := 0%nat;
     h_nv := None; h_nnv := 0%nat; h_tsc := None; h_ntsc := 0%nat |}.

Definition hset_fill h v n := {| h_tm := h_tm h; h_swap := h_swap h; h_qen := h_qen h; h_ratio := h_ratio h; h_supp := h_supp h; h_fill := v; h_ncs := n; h_col := h_col h; h_ncol := h_ncol h; h_nv := h_nv h; h_nnv := h_nnv h; h_tsc := h_tsc h; h_ntsc := h_ntsc h |}.
Definition hset_env h t sw q := {| h_tm := t; h_swap := sw; h_qen := q; h_ratio := h_ratio h; h_supp := h_supp h; h_fill := h_fill h; h_ncs := h_ncs h; h_col := h_col h; h_ncol := h_ncol h; h_nv := h_nv h; h_nnv := h_nnv h; h_tsc := h_tsc h; h_ntsc := h_ntsc h |}.
Definition hset_ratio h v := {| h_tm := h_tm h; h_swap := h_swap h; h_qen := h_qen h; h_ratio := v; h_supp := h_supp h; h_fill := h_fill h; h_ncs := h_ncs h; h_col := h_col h; h_ncol := h_ncol h; h_nv := h_nv h; h_nnv := h_nnv h; h_tsc := h_tsc h; h_ntsc := h_ntsc h |}.
Definition hset_supp h v := {| h_tm := h_tm h; h_swap := h_swap h; h_qen := h_qen h; h_ratio := h_ratio h; h_supp := v; h_fill := h_fill h; h_ncs := h_ncs h; h_col := h_col h; h_ncol := h_ncol h; h_nv := h_nv h; h_nnv := h_nnv h; h_tsc := h_tsc h; h_ntsc := h_ntsc h |}.
Definition hset_col h v n := {| h_tm := h_tm h; h_swap := h_swap h; h_qen := h_qen h; h_ratio := h_ratio h; h_supp := h_supp h; h_fill := h_fill h; h_ncs := h_ncs h; h_col := v; h_ncol := n; h_nv := h_nv h; h_nnv := h_nnv h; h_tsc := h_tsc h; h_ntsc := h_ntsc h |}.
Definition hset_nv h v n := {| h_tm := h_tm h; h_swap := h_swap h; h_qen := h_qen h; h_ratio := h_ratio h; h_supp := h_supp h; h_fill := h_fill h; h_ncs := h_ncs h; h_col := h_col h; h_ncol := h_ncol h; h_nv := v; h_nnv := n; h_tsc := h_tsc h; h_ntsc := h_ntsc h |}.
Definition hset_tsc h v n := {| h_tm := h_tm h; h_swap := h_swap h; h_qen := h_qen h; h_ratio := h_ratio h; h_supp := h_supp h; h_fill := h_fill h; h_ncs := h_ncs h; h_col := h_col h; h_ncol := h_ncol h; h_nv := h_nv h; h_nnv := h_nnv h; h_tsc := v; h_ntsc := n |}.

(** the query-enabled status in force when the entry that serves a cell-size call in [h]
    was made (the current one if the call has to compute) *)
Definition cell_prov (h : hstate) : bool :=
  match h_fill h with
  | Some (t0, b) => if same_cells t0 (h_tm h) then b else h_qen h
  | None => h_qen h
  end.
Definition nv_prov (h : hstate) : bool :=
  match h_nv h with Some b => b | None => h_qen h end.
Definition col_prov (h : hstate) (k : nat) : bool :=
  match h_col h k with Some b => b | None => h_qen h end.

(** a cell-size call: answered fresh under [cell_prov]; records a new provenance when no
    live entry exists for the current size in cells *)
Definition h_cell (e : tenv) (h : hstate) : hstate * (Z * Z) :=
  let ans := fresh_cs e (h_tm h) (h_swap h) (cell_prov h) in
  let live := match h_fill h with Some (t0, _) => same_cells t0 (h_tm h) | None => false end in
  if negb (has_tty e) || live then (h, ans)
  else (hset_fill h (Some (h_tm h, h_qen h)) (S (h_ncs h)), ans).

Definition h_get_ratio (e : tenv) (h : hstate) : hstate * (Z * Z) :=
  match h_ratio h with
  | Fixed q => (h, q)
  | Dynamic => let (h', cs) := h_cell e h in (h', ratio_of cs)
  end.

Definition h_set_ratio (e : tenv) (h : hstate) (m : rarg) : hstate * Z :=
  match m with
  | RFloat n d => if n <=? 0 then (h, 2) else (hset_ratio h (Fixed (n, d)), 0)
  | _ =>
    let (h1, sup) :=
        match h_supp h with
        | None => let (h', cs) := h_cell e h in
                  (hset_supp h' (Some (negb (has0 cs))), negb (has0 cs))
        | Some b => (h, b)
        end in
    if negb sup then (h1, 1)
    else match m with
         | RAutoFixed => let (h2, cs) := h_cell e h1 in (hset_ratio h2 (Fixed (ratio_of cs)), 0)
         | _ => (hset_ratio h1 Dynamic, 0)
         end
  end.

Definition h_name (e : tenv) (h : hstate) : hstate * (Z * Z) :=
  let ans := fresh_nv e (h_tm h) (h_swap h) (nv_prov h) in
  match h_nv h with
  | Some _ => (h, ans)
  | None => (hset_nv h (Some (h_qen h)) (S (h_nnv h)), ans)
  end.

Definition h_colors (e : tenv) (h : hstate) (k : nat) : hstate * (Z * Z * Z) :=
  let ans := fresh_col e (h_tm h) (h_swap h) (col_prov h k) k in
  match h_col h k with
  | Some _ => (h, ans)
  | None => (hset_col h (upd (h_col h) k (Some (h_qen h))) (S (h_ncol h)), ans)
  end.

Definition h_probe (h : hstate) : hstate * (Z * Z) :=
  let live := match h_tsc h with Some t0 => same_cells t0 (h_tm h) | None => false end in
  if live then (h, fresh_tsc (h_tm h))
  else (hset_tsc h (Some (h_tm h)) (S (h_ntsc h)), fresh_tsc (h_tm h)).

(** the probe called while a resize to [t] lands during its body: answered — like every
    call — by a fresh computation for the terminal the call was made at; if no live entry
    serves it, the body runs: the new entry's provenance is the terminal the body SAW
    (the one at the start of the call), and the terminal is [t] afterwards *)
Definition h_probe_resize (h : hstate) (t : tsize) : hstate * (Z * Z) :=
  let live := match h_tsc h with Some t0 => same_cells t0 (h_tm h) | None => false end in
  if live then (h, fresh_tsc (h_tm h))
  else (hset_env (hset_tsc h (Some (h_tm h)) (S (h_ntsc h))) t (h_swap h) (h_qen h),
        fresh_tsc (h_tm h)).

(** *** Aborted computations, on the history alone.

    A call made with a fault armed raises iff it has to compute (no live entry serves
    it) and a fresh computation for the current terminal would wait for the terminal's
    reply; then the history-level state does not change at all: an aborted computation
    creates no entry and kills none.  Otherwise it is the plain call. *)
Definition fresh_cs_waits (e : tenv) (t : tsize) (q : bool) : bool :=
  has_tty e && negb (ioctl_ok e t) && q.
Definition fresh_memo_waits (e : tenv) (q : bool) : bool := has_tty e && q.

Definition h_cell_abort (e : tenv) (h : hstate) : hstate * option (Z * Z) :=
  let live := match h_fill h with Some (t0, _) => same_cells t0 (h_tm h) | None => false end in
  if negb live && fresh_cs_waits e (h_tm h) (h_qen h) then (h, None)
  else let (h', cs) := h_cell e h in (h', Some cs).

Definition h_get_ratio_abort (e : tenv) (h : hstate) : hstate * option (Z * Z) :=
  match h_ratio h with
  | Fixed q => (h, Some q)
  | Dynamic => let (h', r) := h_cell_abort e h in (h', option_map ratio_of r)
  end.

Definition no_entry {A} (x : option A) : bool := match x with None => true | Some _ => false end.

Definition h_name_abort (e : tenv) (h : hstate) : hstate * option (Z * Z) :=
  if no_entry (h_nv h) && fresh_memo_waits e (h_qen h) then (h, None)
  else let (h', v) := h_name e h in (h', Some v).

Definition h_colors_abort (e : tenv) (h : hstate) (k : nat) : hstate * option (Z * Z * Z) :=
  if no_entry (h_col h k) && fresh_memo_waits e (h_qen h) then (h, None)
  else let (h', v) := h_colors e h k in (h', Some v).

Definition hstep (e : tenv) (h : hstate) (o : op) : hstate * list Z :=
  match o with
  | Resize t => (hset_env h t (h_swap h) (h_qen h), [])
  | EnableSwap =>
    if h_swap h then (h, [])
    else (hset_fill (hset_env h (h_tm h) true (h_qen h)) None (h_ncs h), [])
  | DisableSwap =>
    if h_swap h then (hset_fill (hset_env h (h_tm h) false (h_qen h)) None (h_ncs h), [])
    else (h, [])
  | EnableQueries =>
    if h_qen h then (h, [])
    else (hset_fill (hset_nv (hset_col (hset_env h (h_tm h) (h_swap h) true)
                                       (fun _ => None) (h_ncol h)) None (h_nnv h))
                    None (h_ncs h), [])
  | DisableQueries => (hset_env h (h_tm h) (h_swap h) false, [])
  | SetRatio m => let (h', c) := h_set_ratio e h m in (h', [c])
  | GetCellSize => let (h', cs) := h_cell e h in (h', view_cs cs)
  | GetCellRatio => let (h', q) := h_get_ratio e h in (h', view_ratio q)
  | GetColors k => let (h', v) := h_colors e h k in (h', view_col v)
  | GetNameVersion => let (h', v) := h_name e h in (h', view_nv v)
  | IsOnKitty => let (h', v) := h_name e h in (h', view_b (is_kitty v))
  | GetTsc => let (h', v) := h_probe h in (h', view_ratio v)
  | GetTscResize t => let (h', v) := h_probe_resize h t in (h', view_ratio v)
  | GetCellSizeAbort => let (h', r) := h_cell_abort e h in (h', view_opt view_cs r)
  | GetCellRatioAbort => let (h', r) := h_get_ratio_abort e h in (h', view_opt view_ratio r)
  | GetColorsAbort k => let (h', r) := h_colors_abort e h k in (h', view_opt view_col r)
  | GetNameVersionAbort => let (h', r) := h_name_abort e h in (h', view_opt view_nv r)
  end.

Definition hrun_from (e : tenv) (h : hstate) (ops : list op) : hstate :=
  fold_left (fun h o => fst (hstep e h o)) ops h.
Definition hrun (e : tenv) (t0 : tsize) (ops : list op) : hstate := hrun_from e (hinit t0) ops.

Definition hcounters (h : hstate) : list Z :=
  [Z.of_nat (h_ncs h); Z.of_nat (h_ncol h); Z.of_nat (h_nnv h); Z.of_nat (h_ntsc h)].

Fixpoint spec_trace (e : tenv) (h : hstate) (ops : list op) : list (list Z * list Z) :=
  match ops with
  | [] => []
  | o :: r => let (h', out) := hstep e h o in (out, hcounters h') :: spec_trace e h' r
  end.

(** *** The side condition of the property.

    "Pixel-size changes are only required to be noticed when they coincide with a change
    of the terminal size in cells or with one of the toggles": at every call that needs
    the cell size, if a live entry exists for the current size in cells (made since the
    last effective toggle), the terminal's pixel size is what it was when the entry was
    made.  Likewise for the probe (which no toggle invalidates). *)
Definition reads_cell (o : op) : bool :=
  match o with
  | GetCellSize | GetCellRatio | SetRatio RAutoFixed | SetRatio RAutoDynamic
  | GetCellSizeAbort | GetCellRatioAbort => true
  | _ => false
  end.
Definition is_tsc (o : op) : bool :=
  match o with GetTsc | GetTscResize _ => true | _ => false end.

Definition px_sameb (t0 t : tsize) : bool :=
  negb (same_cells t0 t) || ((xpx t0 =? xpx t) && (ypx t0 =? ypx t)).

Definition read_okb (h : hstate) (o : op) : bool :=
  (negb (reads_cell o) || match h_fill h with Some (t0, _) => px_sameb t0 (h_tm h) | None => true end)
  && (negb (is_tsc o) || match h_tsc h with Some t0 => px_sameb t0 (h_tm h) | None => true end).

Fixpoint px_okb (e : tenv) (h : hstate) (ops : list op) : bool :=
  match ops with
  | [] => true
  | o :: r => read_okb h o && px_okb e (fst (hstep e h o)) r
  end.

Definition px_ok (e : tenv) (t0 : tsize) (ops : list op) : Prop := px_okb e (hinit t0) ops = true.

(** every terminal of the history has at least one cell *)
Definition pos_size (t : tsize) : bool := (0 <? cols t) && (0 <? rows t).
Definition op_pos (o : op) : bool :=
  match o with Resize t | GetTscResize t => pos_size t | _ => true end.
Definition wf_sizes (t0 : tsize) (ops : list op) : bool := pos_size t0 && forallb op_pos ops.

(** the fresh answer to the getter [o] for terminal [t], swap setting [sw], under the
    query-enabled status [q], and the status the property refers to: the one in force
    when the entry serving [o] in [h] was made *)
Definition fresh_answer (e : tenv) (t : tsize) (sw q : bool) (o : op) : list Z :=
  match o with
  | GetCellSize => view_cs (fresh_cs e t sw q)
  | GetCellRatio => view_ratio (fresh_dyn_ratio e t sw q)
  | GetColors k => view_col (fresh_col e t sw q k)
  | GetNameVersion => view_nv (fresh_nv e t sw q)
  | IsOnKitty => view_b (is_kitty (fresh_nv e t sw q))   (* derived from a fresh getter call *)
  | GetTsc | GetTscResize _ => view_ratio (fresh_tsc t)
  | _ => []
  end.

Definition prov (h : hstate) (o : op) : bool :=
  match o with
  | GetCellSize | GetCellRatio => cell_prov h
  | GetColors k => col_prov h k
  | GetNameVersion | IsOnKitty => nv_prov h
  | _ => h_qen h
  end.

(** the getters the property speaks about, in a given history state
    ([get_cell_ratio] only in DYNAMIC mode: a FIXED ratio is a snapshot by definition) *)
Definition is_getter (h : hstate) (o : op) : bool :=
  match o with
  | GetCellSize | GetColors _ | GetNameVersion | IsOnKitty | GetTsc | GetTscResize _ => true
  | GetCellRatio => match h_ratio h with Dynamic => true | Fixed _ => false end
  | _ => false
  end.

(** ** 3. The [cached] decorator under concurrency, [utils.py:177-192]

    Threads execute programs made of calls [MCall k] of ONE memoised function with
    argument tuple [k] and of [MInval] ([_invalidate_cache()]).  Micro-steps of
    [cached_wrapper]: acquire the decorator's RLock; look the key up; on a miss run the
    body (inside the lock) and then [setdefault]; release.  The body's behaviour is
    arbitrary: [bv n k] is what the [n]-th execution does for key [k]: [Some v] = returns
    [v], [None] = raises (an aborted computation).

    RESULTS INCLUDE PYTHON'S [None] (how this library reports an undetermined terminal
    fact): a result is an [mres = option Z], Python's [None] being Coq's [None]; a cache
    ENTRY holding the result [r] is [Some r], so an entry holding [None] ([Some None]) is
    distinct from an ABSENT entry ([None]).  [cache[arguments]] raises [KeyError] only
    for an absent key, [utils.py:181-184]: an entry holding [None] is a hit like any
    other, and [setdefault] stores only for an absent key.

    [mstep_gen true] is the VARIANT of the wrapper that uses [None] as its "not cached
    yet" sentinel ([result = cache.get(arguments); if result is None: result =
    cache[arguments] = func(...)]); it exists only to state that it refutes
    [memo_body_once] (sequentially).  [mstep] is [mstep_gen false], the real code. *)

Open Scope nat_scope.

Definition mres := option Z.

Inductive mcmd := MCall (k : nat) | MInval.

Inductive mpc :=
| PIdle                 (* between commands *)
| PLookup (k : nat)     (* lock held, about to evaluate [cache[arguments]] *)
| PBody (k : nat)       (* KeyError: about to call [func] *)
| PStore (k : nat) (v : mres)  (* about to [cache.setdefault(arguments, v)] *)
| PRelease (r : option (nat * mres))   (* about to leave the [with lock] block, returning (key, value) *)
| PClear.               (* [invalidate]: lock held, about to [cache.clear()] *)

(** [m_rets]: (epoch = number of invalidations so far, key, value) of every finished call *)
Record mthread := { m_pc : mpc; m_todo : list mcmd; m_rets : list (nat * nat * mres) }.

Record mstate := {
  m_lock : lock;
  m_cache : nat -> option mres;   (* absent | entry holding a result (possibly [None]) *)
  m_calls : nat -> nat;        (* COMPLETED body executions per key since the last [cache.clear()] *)
  m_total : nat;               (* body executions overall (completed or aborted) *)
  m_invals : nat;              (* [cache.clear()]s executed *)
  m_th : nat -> mthread
}.

Definition mset_th (s : mstate) (t : nat) (x : mthread) : mstate :=
  {| m_lock := m_lock s; m_cache := m_cache s; m_calls := m_calls s; m_total := m_total s;
     m_invals := m_invals s; m_th := upd (m_th s) t x |}.

Definition mstep_gen (sentinel : bool) (bv : nat -> nat -> option mres) (s : mstate) (t : nat) : option mstate :=
  let th := m_th s t in
  match m_pc th with
  | PIdle =>
    match m_todo th with
    | [] => None                                        (* finished *)
    | c :: rest =>
      if can_acquire (m_lock s) t then                   (* [with lock:] *)
        Some {| m_lock := acquire (m_lock s) t; m_cache := m_cache s; m_calls := m_calls s;
                m_total := m_total s; m_invals := m_invals s;
                m_th := upd (m_th s) t
                            {| m_pc := match c with MCall k => PLookup k | MInval => PClear end;
                               m_todo := rest; m_rets := m_rets th |} |}
      else None                                          (* blocked *)
    end
  | PLookup k =>
    (* what the lookup finds: the entry, if the key is present — whatever it holds *)
    let found := if sentinel
                 then match m_cache s k with Some None => None | x => x end   (* variant: [.get() is None] *)
                 else m_cache s k in
    Some (mset_th s t {| m_pc := match found with
                                 | Some v => PRelease (Some (k, v))   (* [return cache[arguments]] *)
                                 | None => PBody k               (* [except KeyError] *)
                                 end;
                         m_todo := m_todo th; m_rets := m_rets th |})
  | PBody k =>
    match bv (m_total s) k with
    | Some v =>
      Some {| m_lock := m_lock s; m_cache := m_cache s;
              m_calls := upd (m_calls s) k (S (m_calls s k));
              m_total := S (m_total s); m_invals := m_invals s;
              m_th := upd (m_th s) t {| m_pc := PStore k v;
                                        m_todo := m_todo th; m_rets := m_rets th |} |}
    | None =>
      (* the body raises: [setdefault] is never called, the exception leaves the
         [with lock] block (which releases the lock) and reaches the caller *)
      Some {| m_lock := m_lock s; m_cache := m_cache s; m_calls := m_calls s;
              m_total := S (m_total s); m_invals := m_invals s;
              m_th := upd (m_th s) t {| m_pc := PRelease None;
                                        m_todo := m_todo th; m_rets := m_rets th |} |}
    end
  | PStore k v =>
    let c' := if sentinel then upd (m_cache s) k (Some v)     (* variant: [cache[arguments] = ...] *)
              else match m_cache s k with Some _ => m_cache s | None => upd (m_cache s) k (Some v) end in
    Some {| m_lock := m_lock s; m_cache := c'; m_calls := m_calls s; m_total := m_total s;
            m_invals := m_invals s;
            m_th := upd (m_th s) t {| m_pc := PRelease (option_map (pair k) (c' k)); m_todo := m_todo th;
                                      m_rets := m_rets th |} |}
  | PRelease r =>
    Some {| m_lock := release (m_lock s); m_cache := m_cache s; m_calls := m_calls s;
            m_total := m_total s; m_invals := m_invals s;
            m_th := upd (m_th s) t
                        {| m_pc := PIdle; m_todo := m_todo th;
                           m_rets := match r with
                                     | Some (k, v) => m_rets th ++ [(m_invals s, k, v)]
                                     | None => m_rets th
                                     end |} |}
  | PClear =>
    Some {| m_lock := m_lock s; m_cache := fun _ => None; m_calls := fun _ => 0;
            m_total := m_total s; m_invals := S (m_invals s);
            m_th := upd (m_th s) t {| m_pc := PRelease None; m_todo := m_todo th;
                                      m_rets := m_rets th |} |}
  end.

(** the real wrapper *)
Definition mstep := Eval cbv beta iota zeta delta [mstep_gen] in mstep_gen false.

(** all threads idle with their programs, empty cache, free lock *)
Definition minit (prog : nat -> list mcmd) : mstate :=
  {| m_lock := free_lock; m_cache := fun _ => None; m_calls := fun _ => 0; m_total := 0;
     m_invals := 0;
     m_th := fun t => {| m_pc := PIdle; m_todo := prog t; m_rets := [] |} |}.

(** *** sequential use: ONE thread executes a history of calls and invalidations to
    completion (a command takes at most five micro-steps: acquire, lookup, body, store,
    release; picks of a finished thread are no-ops) *)
Definition seq_prog (cmds : list mcmd) (t : nat) : list mcmd := if Nat.eqb t 0 then cmds else [].
Definition seq_sched (cmds : list mcmd) : list nat := repeat 0 (5 * length cmds).
Definition mseq_gen (sentinel : bool) (bv : nat -> nat -> option mres) (cmds : list mcmd) : mstate :=
  run_sched (mstep_gen sentinel bv) (minit (seq_prog cmds)) (seq_sched cmds).
Definition mseq (bv : nat -> nat -> option mres) (cmds : list mcmd) : mstate :=
  run_sched (mstep bv) (minit (seq_prog cmds)) (seq_sched cmds).

(** per command: body executions so far, and the results returned so far *)
Definition mseq_trace (bv : nat -> nat -> option mres) (cmds : list mcmd)
  : list (nat * list (nat * nat * mres)) :=
  map (fun n => let s := mseq bv (firstn n cmds) in (m_total s, m_rets (m_th s 0)))
      (seq 1 (length cmds)).

(** ** 4. The win-size-swap toggles against concurrent [get_cell_size] calls

    [enable_win_size_swap()] / [disable_win_size_swap()], [__init__.py:107-110, 140-143]:

        if utils._swap_win_size != b:            (test)
            utils._swap_win_size = b             (flag write — FIRST, outside the lock)
            with utils._cell_size_lock:          (acquire)
                utils._cell_size_cache[:] = (0,) * 4      (clear)
                                                 (release)

    [get_cell_size()], [utils.py:427-473]: acquire [_cell_size_lock]; compare the terminal
    size with the cache key (hit: return the entry); on a miss compute: the LAST thing
    the computation reads is [_swap_win_size], [utils.py:466], then it writes the cache,
    [utils.py:471]; release.  The flag read and the cache write are both inside the lock
    region.

    Threads execute programs of [WToggle b] (enable: [b = true]) and [WGet].  The
    terminal (size in cells and pixels) is fixed here — resizes are part 1 —, so a cache
    entry is represented by the flag value it was computed under: [w_cache = Some f].

    [wstep_gen true] is the VARIANT that writes the flag AFTER the lock region (clear
    first, then switch); it exists only to state that it admits a schedule leaving a
    stale entry.  [wstep] is [wstep_gen false], the real code. *)

Inductive wcmd := WToggle (b : bool) | WGet.

Inductive wpc :=
| WIdle
| WSetFlag (b : bool)   (* about to [utils._swap_win_size = b] *)
| WAcq (b : bool)       (* about to enter [with utils._cell_size_lock:] *)
| WClear (b : bool)     (* lock held; about to zero [_cell_size_cache] *)
| WRel (b : bool)       (* about to leave the [with] block *)
| GLook                 (* [get_cell_size]: lock held; about to compare with the cache key *)
| GRead                 (* miss; computing; about to read [_swap_win_size] *)
| GWrite (f : bool)     (* about to write the cache with the value computed under [f] *)
| GRel (f : bool).      (* about to release and return the value computed under [f] *)

Record wthread := { w_pc : wpc; w_todo : list wcmd; w_rets : list bool }.

Record wstate := {
  w_lock : lock;              (* [utils._cell_size_lock] *)
  w_flag : bool;              (* [utils._swap_win_size] *)
  w_cache : option bool;      (* live entry for the current terminal size: the flag it was computed under *)
  w_ncomp : nat;              (* computations made *)
  w_th : nat -> wthread
}.

Definition wset (s : wstate) (t : nat) (pc : wpc) : wstate :=
  {| w_lock := w_lock s; w_flag := w_flag s; w_cache := w_cache s; w_ncomp := w_ncomp s;
     w_th := upd (w_th s) t {| w_pc := pc; w_todo := w_todo (w_th s t); w_rets := w_rets (w_th s t) |} |}.

Definition wstep_gen (late : bool) (s : wstate) (t : nat) : option wstate :=
  let th := w_th s t in
  match w_pc th with
  | WIdle =>
    match w_todo th with
    | [] => None
    | WToggle b :: rest =>                       (* [if utils._swap_win_size != b:] *)
      Some {| w_lock := w_lock s; w_flag := w_flag s; w_cache := w_cache s; w_ncomp := w_ncomp s;
              w_th := upd (w_th s) t
                          {| w_pc := if Bool.eqb (w_flag s) b then WIdle
                                     else if late then WAcq b else WSetFlag b;
                             w_todo := rest; w_rets := w_rets th |} |}
    | WGet :: rest =>                            (* [with _cell_size_lock:] *)
      if can_acquire (w_lock s) t then
        Some {| w_lock := acquire (w_lock s) t; w_flag := w_flag s; w_cache := w_cache s;
                w_ncomp := w_ncomp s;
                w_th := upd (w_th s) t {| w_pc := GLook; w_todo := rest; w_rets := w_rets th |} |}
      else None
    end
  | WSetFlag b =>
    Some {| w_lock := w_lock s; w_flag := b; w_cache := w_cache s; w_ncomp := w_ncomp s;
            w_th := upd (w_th s) t {| w_pc := if late then WIdle else WAcq b;
                                      w_todo := w_todo th; w_rets := w_rets th |} |}
  | WAcq b =>
    if can_acquire (w_lock s) t then
      Some {| w_lock := acquire (w_lock s) t; w_flag := w_flag s; w_cache := w_cache s;
              w_ncomp := w_ncomp s;
              w_th := upd (w_th s) t {| w_pc := WClear b; w_todo := w_todo th; w_rets := w_rets th |} |}
    else None
  | WClear b =>
    Some {| w_lock := w_lock s; w_flag := w_flag s; w_cache := None; w_ncomp := w_ncomp s;
            w_th := upd (w_th s) t {| w_pc := WRel b; w_todo := w_todo th; w_rets := w_rets th |} |}
  | WRel b =>
    Some {| w_lock := release (w_lock s); w_flag := w_flag s; w_cache := w_cache s;
            w_ncomp := w_ncomp s;
            w_th := upd (w_th s) t {| w_pc := if late then WSetFlag b else WIdle;
                                      w_todo := w_todo th; w_rets := w_rets th |} |}
  | GLook =>
    Some (wset s t (match w_cache s with Some f => GRel f | None => GRead end))
  | GRead => Some (wset s t (GWrite (w_flag s)))
  | GWrite f =>
    Some {| w_lock := w_lock s; w_flag := w_flag s; w_cache := Some f; w_ncomp := S (w_ncomp s);
            w_th := upd (w_th s) t {| w_pc := GRel f; w_todo := w_todo th; w_rets := w_rets th |} |}
  | GRel f =>
    Some {| w_lock := release (w_lock s); w_flag := w_flag s; w_cache := w_cache s;
            w_ncomp := w_ncomp s;
            w_th := upd (w_th s) t {| w_pc := WIdle; w_todo := w_todo th;
                                      w_rets := w_rets th ++ [f] |} |}
  end.

Definition wstep := Eval cbv beta iota zeta delta [wstep_gen] in wstep_gen false.

(** all threads idle with their programs; flag [f0]; cache [c0] *)
Definition winit (f0 : bool) (c0 : option bool) (prog : nat -> list wcmd) : wstate :=
  {| w_lock := free_lock; w_flag := f0; w_cache := c0; w_ncomp := 0;
     w_th := fun t => {| w_pc := WIdle; w_todo := prog t; w_rets := [] |} |}.

(** a toggle whose flag write has happened but whose clear has not *)
Definition w_pending (s : wstate) (t : nat) : Prop :=
  exists b, w_pc (w_th s t) = WAcq b \/ w_pc (w_th s t) = WClear b.

(** the flag under which the value was computed that a [get_cell_size()] running alone
    from [s] returns: the live entry's, else the current flag's *)
Definition w_answer (s : wstate) : bool :=
  match w_cache s with Some f => f | None => w_flag s end.
