(** Executable comparison used by the C16 correspondence for [model/RArgsShape.v] §2.

    [mcase]: a forest of render classes whose class statements list plain mix-in classes
    before / after the render base or between it and a second, redundant render base; observed for every class [t]: [t.__mro__] without
    [object] ([(c, 0)] = render class [c], [(c, S j)] = the j-th mix-in of the statement of
    [c]), the owner classes of the namespaces [RenderArgs(t)] holds (iteration order), and for
    every owner class [a] the outcome of [RenderArgs(t, a.Args(...))]. *)
From Coq Require Import List ZArith Bool Arith.
Import ListNotations.
From TI Require Import model.RArgs model.RArgsShape.

Record mcase := {
  mc_par : list nat;
  mc_own : list bool;
  mc_before : list nat;
  mc_after : list nat;
  mc_mid : list nat;           (* mix-ins between the render base and the redundant base mc_g *)
  mc_g : list nat;
  mc_mro : list (list (nat * nat));
  mc_held : list (list nat);
  mc_acc : list (list nat)     (* per t, per a: 0 = accepted and held; S k = rejected, error code k;
                                  entries of classes without a namespace class are ignored *)
}.

Definition mforest (c : mcase) : forest :=
  mkF (mc_par c) (map (fun b : bool => if b then Some [0%Z] else None) (mc_own c)).
Definition mmixes (c : mcase) : mixes := mk_mixes (mc_before c) (mc_after c) (mc_mid c) (mc_g c).

Definition enc (i : mitem) : nat * nat :=
  match i with MR c => (c, 0) | MX c j => (c, S j) end.

Fixpoint pl_eqb (a b : list (nat * nat)) : bool :=
  match a, b with
  | [], [] => true
  | (x, y) :: a', (u, v) :: b' => Nat.eqb x u && Nat.eqb y v && pl_eqb a' b'
  | _, _ => false
  end.

Fixpoint nl_eqb' (a b : list nat) : bool :=
  match a, b with
  | [], [] => true
  | x :: a', y :: b' => Nat.eqb x y && nl_eqb' a' b'
  | _, _ => false
  end.

Definition ERR_NS : nat := 1.    (* IncompatibleArgsNamespaceError *)

(** the rule, class by class: the set holds a namespace for [a] iff [a] is the class or an
    ancestor by inheritance and owns a namespace class; a namespace of [a] is accepted iff so *)
Definition mspec_at (c : mcase) (t : nat) : bool :=
  let F := mforest c in
  let n := length (mc_par c) in
  let heldt := nth t (mc_held c) [] in
  let acct := nth t (mc_acc c) [] in
  forallb (fun a =>
             Bool.eqb (existsb (Nat.eqb a) heldt) (in_hierarchy F t a) &&
             (negb (hasns F a) ||
              Nat.eqb (nth a acct 99) (if in_hierarchy F t a then 0 else S ERR_NS)))
          (seq 0 n) &&
  (* nothing else is held, nothing twice *)
  forallb (fun a => a <? n) heldt &&
  Nat.eqb (length heldt) (length (filter (in_hierarchy F t) (seq 0 n))).

Definition mspec (c : mcase) : bool :=
  let n := length (mc_par c) in
  Nat.eqb (length (mc_held c)) n && Nat.eqb (length (mc_acc c)) n &&
  forallb (mspec_at c) (seq 0 n).

Definition mmodel (c : mcase) : bool :=
  let F := mforest c in
  let n := length (mc_par c) in
  Nat.eqb (length (mc_mro c)) n &&
  forallb (fun t => pl_eqb (nth t (mc_mro c) []) (map enc (mro F (mmixes c) t)) &&
                    nl_eqb' (nth t (mc_held c) []) (held SkipNonRender F (mmixes c) t))
          (seq 0 n).

(** 0 = agrees; 1 = differs from the model only; 2 = contradicts the rule; 3 = both *)
Definition mxcheck (c : mcase) : nat :=
  (if mmodel c then 0 else 1) + (if mspec c then 0 else 2).

Fixpoint mindex_from {A} (n : nat) (l : list A) : list (nat * A) :=
  match l with [] => [] | x :: r => (n, x) :: mindex_from (S n) r end.

Definition mxbad (cases : list mcase) : list (nat * nat) :=
  filter (fun p => negb (Nat.eqb (snd p) 0)) (mindex_from 0 (map mxcheck cases)).

(** the classes whose observations contradict the rule (diagnosis) *)
Definition mxdiag (c : mcase) : list nat :=
  filter (fun t => negb (mspec_at c t)) (seq 0 (length (mc_par c))).
