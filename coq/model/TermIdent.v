(** * TermIdent — C01's "any terminal identity": identity -> quirk mode -> render shape

    The quirk mode a graphics-based style renders in is not a parameter the caller chooses: the
    library DETECTS it.  The terminal reports an identity (name / version, as returned by
    [get_terminal_name_version()]; for the kitty style also the reply to the graphics query);
    [ITerm2Image.is_supported()] ([iterm2.py:488-506]) / [KittyImage.is_supported()]
    ([kitty.py:296-337]) decide support from it and RECORD it in class attributes ([_TERM],
    [_TERM_VERSION], [_KITTY_VERSION]) as a side effect; [_render_image] ([iterm2.py:597-601])
    picks the Konsole / WezTerm work-arounds from the recorded [_TERM], [_display_animated]
    ([kitty.py:374-379]) the blend policy of animation frames from the recorded version.

    This file models
    - the detection step ([iterm2_recorded], [iterm2_quirk_of], [kitty_recorded], ...), reusing
      the decision rules of model/Query.v (C12) read-only;
    - every ROUTE by which the library may come to perform it: a chain of classes
      (GraphicsImage <- style class <- subclass <- ...) with Python's attribute inheritance,
      [is_supported()] called explicitly on any class of the chain, forced support switched
      on/off on any class, the [_supported] cache cleared, and finally the construction of an
      instance ([GraphicsImage.__new__], [common.py:1884-1890]: the support check is EVALUATED
      FIRST, "to set required class attributes, in case support is forced for a style that is
      actually supported");
    - the SPECIFICATION side: the terminal kind an identity denotes ([kind_of]) and that
      terminal's own conventions for the tokens of a render ([seen]), under which the render
      contract [Rect] of lib/Rect.v is demanded ([RectOn]).
    Definitions only; proofs in proofs/TermIdentProofs.v. *)
From Coq Require Import List ZArith Bool String.
Import ListNotations.
From TI Require Import lib.Term lib.TermFacts lib.Rect lib.RectCheck lib.Lines model.Query model.GfxRender.
Open Scope Z_scope.

Definition bytes := list Z.

(** what the terminal reports: name and version ([None] = unknown), and — only consulted by the
    kitty style — the reply to the kitty graphics query + DA1 ([None] = no reply / queries off) *)
Record ident := { id_name : option bytes; id_version : option bytes; id_reply : option bytes }.

(** ** Specification side: the terminal behind an identity and its conventions *)

Inductive tkind := KIterm2 | KKonsole | KWezterm | KOther.

(** Konsole implements the iTerm2 inline image protocol from 22.04 on *)
Definition konsole_has_iterm2 (version : option bytes) : bool :=
  match version with
  | Some v => match version_tuple v with Some t => tuple_geb t [22; 4; 0] | None => false end
  | None => false
  end.

(** An identity that is not known to be one of the terminals with conventions of their own
    denotes a generic implementation of the protocol (the conventions of lib/Term.v, which are
    iTerm2's). *)
Definition kind_of (i : ident) : tkind :=
  if name_is (id_name i) "konsole" then
    (if konsole_has_iterm2 (id_version i) then KKonsole else KOther)
  else if name_is (id_name i) "wezterm" then KWezterm
  else if name_is (id_name i) "iterm2" then KIterm2
  else KOther.

(** The conventions of lib/Term.v for an inline image are iTerm2's: the image covers its
    [w x h] cells and, unless [doNotMoveCursor=1], the cursor ends on the image's last row just
    past its last column.  The other terminals differ; a token stream is translated into what
    THAT terminal makes of it, expressed with the tokens of lib/Term.v:

    - Konsole does not leave the cursor where iTerm2 does: without [doNotMoveCursor=1] it puts
      the cursor at the beginning of the line below the image (why the library's Konsole mode
      sends [doNotMoveCursor=1] and moves the cursor itself);
    - WezTerm composites an image over what its cells already show (earlier images are not
      replaced).  A render with [mix = false] promises that "existing contents of cells within
      the region covered by the drawn render output are erased" ([iterm2.py:186-193]); so for
      such a render an image alone covers nothing there: only erased / written cells count
      (the cursor convention is iTerm2's). *)
Definition seen_konsole (x : tok) : list tok :=
  match x with
  | TIterm w h false s p => [TIterm w h true s p; TCud h; TCR]
  | _ => [x]
  end.

Definition seen_wezterm_nomix (x : tok) : list tok :=
  match x with
  | TIterm w h true _ _ => []
  | TIterm w h false _ _ => (if 1 <? h then [TCud (h - 1)] else []) ++ [TCuf w]
  | _ => [x]
  end.

(** the token streams that must each meet the contract on a terminal of kind [k], for a render
    made with inter-mix policy [mix] *)
Definition views (k : tkind) (mix : bool) (R : list tok) : list (list tok) :=
  match k with
  | KKonsole => [flat_map seen_konsole R]
  | KWezterm => if mix then [R] else [R; flat_map seen_wezterm_nomix R]
  | KIterm2 | KOther => [R]
  end.

(** the render contract under the conventions of the terminal kind *)
Definition RectOn (k : tkind) (mix : bool) (w h : Z) (R : list tok) : Prop :=
  Forall (Rect w h) (views k mix R).

(** executable form, at start row [r0] and left margin [lm] *)
Definition rect_on_checkb (k : tkind) (mix : bool) (w h lm r0 : Z) (R : list tok) : bool :=
  forallb (rect_checkb w h lm r0) (views k mix R).

(** ** Model side: what the library records and derives from an identity *)

(** [iterm2.py:494-502]: [cls._TERM, cls._TERM_VERSION = name, version] exactly when the style
    is found supported; otherwise [_TERM] stays [""] (here [None]) *)
Definition iterm2_recorded (i : ident) : option bytes :=
  match iterm2_supported (id_name i) (id_version i) with
  | Some true => id_name i
  | _ => None
  end.

(** [iterm2.py:597-598]: [is_on_konsole = self._TERM == "konsole"], [is_on_wezterm = ...] *)
Record iquirk := { q_konsole : bool; q_wezterm : bool }.
Definition iquirk_of_term (term : option bytes) : iquirk :=
  {| q_konsole := name_is term "konsole"; q_wezterm := name_is term "wezterm" |}.
Definition iterm2_quirk_of (i : ident) : iquirk := iquirk_of_term (iterm2_recorded i).

(** [kitty.py:318-335]: [_KITTY_VERSION = version_tuple] for kitty, left [()] for Konsole *)
Definition kitty_recorded (i : ident) : option (list Z) :=
  if kitty_supported (id_name i) (id_version i) (id_reply i) then
    Some (if name_is (id_name i) "kitty"
          then match id_version i with
               | Some v => match version_tuple v with Some t => t | None => [] end
               | None => []
               end
          else [])
  else None.

(** Python's [a > b] on tuples of integers *)
Definition tuple_gtb (a b : list Z) : bool := negb (tuple_geb b a).

(** [kitty.py:374-379] [_display_animated]: the frames of an animation are rendered with
    [z_index = -(1 << 31)] and, when [_KITTY_VERSION > (0, 25, 0)], [blend = False] *)
Definition kitty_anim_z : Z := - 2147483648.
Definition kitty_anim_blend (ver : option (list Z)) : bool :=
  match ver with
  | Some t => negb (tuple_gtb t [0; 25; 0])
  | None => true
  end.

(** ** The routes: a chain of classes with attribute inheritance

    Class 0 is the root of the chain (GraphicsImage), class [k + 1] a direct subclass of class
    [k].  [own] holds the attributes set ON a class; reading an attribute through a class finds
    the nearest class of its chain that has it set (and the default when none has).  The type
    [D] of the recorded data is [bytes] ([_TERM]) for iterm2, a version tuple for kitty. *)
Section Routes.
Variable D : Type.
Variable detect : option D.       (* [Some d]: supported, [d] is recorded; [None]: unsupported *)

Record own := {
  o_sup : option (option bool);   (* [_supported] set on this class ([Some None]: set to None) *)
  o_rec : option D;               (* the recorded attributes, set on this class *)
  o_forced : option bool          (* [_forced_support] set on this class *)
}.
Definition own0 : own := {| o_sup := None; o_rec := None; o_forced := None |}.
Definition world := list own.

Fixpoint look {A} (f : own -> option A) (w : world) (k : nat) : option A :=
  match f (nth k w own0) with
  | Some v => Some v
  | None => match k with O => None | S k' => look f w k' end
  end.

Fixpoint set_nth (w : world) (k : nat) (o : own) : world :=
  match k, w with
  | O, [] => [o]
  | O, _ :: r => o :: r
  | S k', [] => own0 :: set_nth [] k' o
  | S k', x :: r => x :: set_nth r k' o
  end.

(** [cls._supported] as read through class [k]: the class default is [None] *)
Definition sup_of (w : world) (k : nat) : option bool :=
  match look o_sup w k with Some v => v | None => None end.
Definition forced_of (w : world) (k : nat) : bool :=
  match look o_forced w k with Some b => b | None => false end.
Definition rec_of (w : world) (k : nat) : option D := look o_rec w k.

(** [cls.is_supported()] on class [k]: detection runs when the cached value read through the
    class is [None]; its results are stored ON class [k] *)
Definition do_check (w : world) (k : nat) : world :=
  match sup_of w k with
  | Some _ => w
  | None =>
    let o := nth k w own0 in
    set_nth w k {| o_sup := Some (Some (match detect with Some _ => true | None => false end));
                   o_rec := match detect with Some d => Some d | None => o_rec o end;
                   o_forced := o_forced o |}
  end.
Definition supported_after (w : world) (k : nat) : bool :=
  match sup_of (do_check w k) k with Some b => b | None => false end.

Inductive rop :=
| RCheck (k : nat)                 (* cls.is_supported() *)
| RForce (k : nat) (b : bool)      (* cls.forced_support = b *)
| RClear (k : nat).                (* cls._supported = None *)

Definition rstep (w : world) (op : rop) : world :=
  match op with
  | RCheck k => do_check w k
  | RForce k b => let o := nth k w own0 in
                  set_nth w k {| o_sup := o_sup o; o_rec := o_rec o; o_forced := Some b |}
  | RClear k => let o := nth k w own0 in
                set_nth w k {| o_sup := Some None; o_rec := o_rec o; o_forced := o_forced o |}
  end.
Definition run_route (ops : list rop) : world := fold_left rstep ops [].

(** [GraphicsImage.__new__] ([common.py:1884-1890]): [if not (cls.is_supported() or
    cls._forced_support): raise StyleError] — the support check is evaluated first, whatever
    the forced-support status.  [None] = StyleError. *)
Definition construct (w : world) (k : nat) : option world :=
  let w' := do_check w k in
  if supported_after w k || forced_of w' k then Some w' else None.

(** what an instance of class [k] created after the route [ops] renders with *)
Definition route_rec (ops : list rop) (k : nat) : option (option D) :=
  match construct (run_route ops) k with
  | Some w => Some (rec_of w k)
  | None => None
  end.

(** An EXCLUDED design (what [KittyImage.clear] does, legitimately, for another purpose): the
    forced-support status short-circuits the support check. *)
Definition construct_lazy (w : world) (k : nat) : option world :=
  if forced_of w k then Some w
  else let w' := do_check w k in if supported_after w k then Some w' else None.
Definition route_rec_lazy (ops : list rop) (k : nat) : option (option D) :=
  match construct_lazy (run_route ops) k with
  | Some w => Some (rec_of w k)
  | None => None
  end.
End Routes.

Arguments own0 {D}.
Arguments o_sup {D}.
Arguments o_rec {D}.
Arguments o_forced {D}.
Arguments look {D A}.
Arguments set_nth {D}.
Arguments sup_of {D}.
Arguments forced_of {D}.
Arguments rec_of {D}.
Arguments do_check {D}.
Arguments supported_after {D}.
Arguments rstep {D}.
Arguments run_route {D}.
Arguments construct {D}.
Arguments route_rec {D}.
Arguments construct_lazy {D}.
Arguments route_rec_lazy {D}.

(** ** Renders for a terminal identity *)

(** iterm2: LINES / WHOLE (= native ANIM, ANIM falling back to WHOLE) rendered with the quirk
    mode derived from what was recorded *)
Definition iterm2_lines_for (term : option bytes) (w : Z) (mix : bool) (sps : list (Z * Z)) : list tok :=
  let q := iquirk_of_term term in iterm2_lines w (q_konsole q) (q_wezterm q) mix sps.
Definition iterm2_whole_for (term : option bytes) (w h : Z) (mix : bool) (sp : Z * Z) : list tok :=
  let q := iquirk_of_term term in iterm2_whole w h (q_konsole q) (q_wezterm q) mix sp.

(** kitty: a frame of an animation, rendered with the arguments [_display_animated] picks from
    the recorded version *)
Definition kitty_frame_lines_for (ver : option (list Z)) (w : Z) (mix : bool) (pls : list (list Z)) : list tok :=
  kitty_lines w kitty_anim_z mix (kitty_anim_blend ver) pls.
Definition kitty_frame_whole_for (ver : option (list Z)) (w h : Z) (mix : bool) (pl : list Z) : list tok :=
  kitty_whole w h kitty_anim_z mix (kitty_anim_blend ver) pl.
