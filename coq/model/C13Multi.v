(** C13, round 8: WHICH terminal each attribute operation addresses.

    Up to here the model had ONE terminal whose attributes are saved / changed / restored
    ([tmod]).  A process has several: the terminal of standard output, the terminal of
    standard input (the same or another one), the library's active terminal [_tty_fd], and
    terminals it is not supposed to touch at all.  Every [tcgetattr(fd)] / [tcsetattr(fd, ..)]
    addresses the terminal its DESCRIPTOR ARGUMENT refers to.  The property -- "terminal
    attributes are always put back" -- is: for EVERY terminal, its attributes after the
    operation are those before it, the terminals the operation should not have touched
    included.

    The addressed terminal is a parameter of the tracked calls:
      * an [addressing] gives each attribute call ([Snap RTermios x] = [x = tcgetattr(E)],
        [Put RTermios x] = [tcsetattr(E, when, x)]) the descriptor EXPRESSION [E] (a number)
        its call sites use (translated from the source: [gen/AttrFd.v], harness/tx/tx_attrfd.py);
      * a [layout] maps descriptor expressions to terminals (the environment: stdin and
        stdout on one pty or on two, ...); it is universally quantified.
    [proj sel p] is what ONE terminal [t] sees of a run of [p] ([sel o]: call [o] addresses [t]):
      * [tcgetattr] of ANOTHER terminal stores a list that is NOT [t]'s entry attributes:
        for [t] the variable is tainted ([Taint x]);
      * [tcsetattr] on ANOTHER terminal does not change [t]: an effect-free call that may
        still raise ([Other]);
      * everything else -- control flow, the other calls, the faults -- is shared.
    A run of the operation on the real machine with several terminals projects, for each
    terminal [t], to a run of [proj (sel_of a L t) p] (same path, same faults); so
    [multi_restores] -- every run of every view ends with [tmod = false] -- says that every
    terminal's attributes are put back.  Semantics: [evalA] (faults anywhere, model/C13Any.v).

    Definitions only. *)
From Coq Require Import List Bool Arith.
Import ListNotations.
From TI Require Import lib.Eff model.C13Any.

(** * One terminal's view of a program *)

Definition view (sel : op -> bool) (o : op) : op :=
  match o with
  | Snap RTermios x => if sel o then o else Taint x
  | Put RTermios x => if sel o then o else Other
  | _ => o
  end.

Fixpoint proj (sel : op -> bool) (p : prog) : prog :=
  match p with
  | Op o => Op (view sel o)
  | Seq a b => Seq (proj sel a) (proj sel b)
  | Choice a b => Choice (proj sel a) (proj sel b)
  | Loop b => Loop (proj sel b)
  | TryFinally prot b f => TryFinally prot (proj sel b) (proj sel f)
  | TryExcept prot b mk hk me he => TryExcept prot (proj sel b) mk (proj sel hk) me (proj sel he)
  | IfVar x a b => IfVar x (proj sel a) (proj sel b)
  | Call q => Call (proj sel q)
  | Skip | Raise _ | Return | SetVar _ _ => p
  end.

(** the calls of a program *)
Fixpoint ops_of (p : prog) : list op :=
  match p with
  | Op o => [o]
  | Seq a b | Choice a b | IfVar _ a b => ops_of a ++ ops_of b
  | Loop b | Call b => ops_of b
  | TryFinally _ b f => ops_of b ++ ops_of f
  | TryExcept _ b _ hk _ he => ops_of b ++ ops_of hk ++ ops_of he
  | Skip | Raise _ | Return | SetVar _ _ => []
  end.

(** * Addressing (from the source) and layout (the environment) *)

Definition addressing := op -> nat.   (* attribute call -> descriptor expression *)
Definition layout := nat -> nat.      (* descriptor expression -> terminal *)

Definition sel_of (a : addressing) (L : layout) (t : nat) (o : op) : bool := Nat.eqb (L (a o)) t.

(** THE PROPERTY with several terminals: whatever terminal each descriptor expression refers
    to ([L]), for EVERY terminal [t], every run ends with [t]'s attributes as found *)
Definition multi_restores (nv : nat) (p : prog) (a : addressing) : Prop :=
  forall (L : layout) (t : nat) vs, length vs = nv ->
  forall o s', evalA false (proj (sel_of a L t) p) (init vs) o s' -> tmod s' = false.

(** * Call sites (gen/AttrFd.v): (is tcsetattr, snapshot variable, descriptor expression) *)

Definition site := (bool * nat * nat)%type.

Definition attr_key (o : op) : option (bool * nat) :=
  match o with
  | Snap RTermios x => Some (false, x)
  | Put RTermios x => Some (true, x)
  | _ => None
  end.

Definition key_eqb (k : bool * nat) (s : site) : bool :=
  Bool.eqb (fst k) (fst (fst s)) && Nat.eqb (snd k) (snd (fst s)).

(** the addressing given by a table of call sites (calls that are not attribute calls address
    nothing: the value is irrelevant, [view] ignores it) *)
Definition addr_of (l : list site) : addressing := fun o =>
  match attr_key o with
  | Some k => match find (key_eqb k) l with Some s => snd s | None => 0 end
  | None => 0
  end.

(** every site uses descriptor expression [e0] *)
Definition uniform (l : list site) (e0 : nat) : bool := forallb (fun s => Nat.eqb (snd s) e0) l.

(** every attribute call of [p] has a site in the table *)
Definition covered (l : list site) (p : prog) : bool :=
  forallb (fun o => match attr_key o with Some k => existsb (key_eqb k) l | None => true end) (ops_of p).

(** the executable check: all sites on one expression; then a terminal is either the one that
    expression refers to (it sees the whole program) or another one (it sees no attribute call) *)
Definition multi_check (nv : nat) (p : prog) (l : list site) (e0 : nat) : bool :=
  uniform l e0 && covered l p &&
  analyze_any nv (proj (fun _ => true) p) && analyze_any nv (proj (fun _ => false) p).

(** * The shape the one-terminal model cannot see: save on A, set on B, restore on A *)

(** [old = tcgetattr(A); new = tcgetattr(B); new[3] &= ~ECHO;
     try: tcsetattr(B, new); render  finally: tcsetattr(A, old)] *)
Definition save_A_set_B_restore_A : prog :=
  sq [Op (GetAttr 0); Op (GetAttr 1); Op (MutAttr 1);
      TryFinally true (sq [Op (SetAttr 1); Op Render]) (Op (SetAttr 0))].
Definition sites_AB : list site := [(false, 0, 0); (false, 1, 1); (true, 1, 1); (true, 0, 0)].
(** the same code, every call on A *)
Definition sites_AA : list site := [(false, 0, 0); (false, 1, 0); (true, 1, 0); (true, 0, 0)].
