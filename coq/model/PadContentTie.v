(** Executable comparison for the C05 correspondence on renders with ARBITRARY CONTENT
    ([model/PadContent.v]): text renders whose lines hold ordinary glyphs, escape sequences in
    the middle of a line and characters that occupy no column and are NOT line separators of
    the render contract (U+2028, U+2029, U+0085, U+001C..U+001E, "\v", "\f", combining marks).

    Two judgements on one case:
    - the token-level one of [PadGenTie.gcheck] (model [pad_gen]; cell-level oracle on the
      terminal model), when the content is in the terminal model's vocabulary ([c_lexed]);
    - a CODE-POINT level one, which does not go through the lexer at all: the padded output
      split at U+000A ONLY has exactly padded-height lines (as computed from the margins AND
      as reported by [get_padded_size]), and every line of the inner render occurs in it
      unchanged — code point for code point — on its own line, [top] lines down. *)
From Coq Require Import List ZArith Bool Lia.
Import ListNotations.
From TI Require Import lib.Term lib.RectCheck model.Padding model.PadTie model.PadGen model.PadGenTie.
Open Scope Z_scope.

Record ccase := {
  c_g : gcase;
  c_lexed : bool;             (* the token-level judgement applies *)
  c_raw_inner : list Z;       (* code points of the inner render *)
  c_raw_obs : list Z          (* code points of the padded output *)
}.

(** the pieces of [s] between the occurrences of [sep] (dropped); never empty *)
Fixpoint zsplit (sep : Z) (s : list Z) : list (list Z) :=
  match s with
  | [] => [[]]
  | x :: rest =>
    if x =? sep then [] :: zsplit sep rest
    else match zsplit sep rest with
         | [] => [[x]]
         | ln :: more => (x :: ln) :: more
         end
  end.

Fixpoint zprefixb (a b : list Z) : bool :=
  match a, b with
  | [], _ => true
  | x :: a', y :: b' => (x =? y) && zprefixb a' b'
  | _ :: _, [] => false
  end.

(** [a] occurs in [b] as a contiguous piece *)
Fixpoint zinfixb (a b : list Z) : bool :=
  zprefixb a b || match b with [] => false | _ :: b' => zinfixb a b' end.

Definition LF : Z := 10.

(** the inner render is [h] lines (the case is well-formed) *)
Definition raw_wf (c : ccase) : bool :=
  Z.of_nat (length (zsplit LF (c_raw_inner c))) =? g_h (c_g c).

Definition raw_clauses (c : ccase) : list bool :=
  let '(l, t, r, b) := gdims_of (c_g c) in
  let h := g_h (c_g c) in
  let ols := zsplit LF (c_raw_obs c) in
  let ils := zsplit LF (c_raw_inner c) in
  [ (0 <=? t) && (0 <=? b);
    (* exactly padded-height lines ... *)
    Z.of_nat (length ols) =? t + h + b;
    (* ... which is what get_padded_size says *)
    match g_obs_dims (c_g c) with
    | [_; _; _; _; _; ph] => Z.of_nat (length ols) =? ph
    | _ => true
    end;
    (* every line of the render unchanged on its own line *)
    forallb (fun i => zinfixb (nth i ils []) (nth (Z.to_nat t + i) ols [])) (seq 0 (length ils)) ].

Definition raw_oracle (c : ccase) : bool := forallb (fun x => x) (raw_clauses c).

(** 0 = agrees; +1 differs from the model / ill-formed case; +2 an oracle fails *)
Definition ccheck (c : ccase) : nat :=
  let g := if c_lexed c then gcheck (c_g c) else 0%nat in
  (if Nat.odd g || negb (raw_wf c) then 1 else 0)
  + (if (2 <=? g)%nat || negb (raw_oracle c) then 2 else 0).

Definition cbad (cases : list ccase) : list (nat * nat) :=
  filter (fun p => negb (Nat.eqb (snd p) 0)) (index_from 0 (map ccheck cases)).

Definition cexplain (c : ccase) :=
  (gdims_of (c_g c), raw_wf c, raw_clauses c,
   length (zsplit LF (c_raw_obs c)),
   if c_lexed c then Some (gexplain (c_g c)) else None).
