(** * IterSpec — the documented model of a render iterator (specification side of C08)

    What the documentation of [RenderIterator] promises, as a machine over the few
    things the documentation talks about: finalized or not, the number of the frame to
    be rendered next (for INDEFINITE sources: the pending seek), the loop countdown and
    the four settings.  No generator, no cache, no stored padded size, no render data,
    no finalisation.  Every [next] renders: "the frame to be rendered next" with the
    settings current at that moment.

    - iteration starts at frame 0; after frame [n-1] comes frame 0 of the next loop,
      which takes one off a positive countdown; when the countdown reaches 0 the
      iterator is exhausted ([loop] documentation, [_iterator.py:101-114]);
    - [seek]: the table in [RenderIterator.seek]'s documentation; CURRENT is relative to
      the frame to be rendered next; a seek does not touch the countdown;
      for INDEFINITE sources the latest seek since the last render is handed to the
      renderable with the next render, then forgotten;
    - every setter takes effect from the next rendered frame; [set_padding] resolves
      terminal-relative dimensions ("any interface receiving an instance with relative
      dimension(s) should typically resolve it/them upon reception", [padding.py:270]);
    - on a finalized iterator [next] stops, [close] is a no-op, everything else raises
      [FinalizedIteratorError]; invalid arguments raise without any effect;
    - an exception from the renderable ends the iteration; [StopIteration] from an
      INDEFINITE source is the normal end (countdown 0), from a definite one it is
      [StopDefiniteIterationError].

    Definitions only. *)

From Coq Require Import List ZArith Bool Lia.
Import ListNotations.
From TI Require Import model.Iter.
Open Scope Z_scope.

(** ** vocabulary on the ghost log of [_render_] invocations (latest first) *)

Definition same_key (a b : rcall) : bool :=
  size_eqb (rc_size a) (rc_size b) && dur_eqb (rc_dur a) (rc_dur b) && (rc_args a =? rc_args b).

(** the latest invocation that asked for frame [i] *)
Fixpoint latest (i : Z) (l : list rcall) : option rcall :=
  match l with
  | [] => None
  | c :: r => if rc_fo c =? i then Some c else latest i r
  end.

(** no frame is rendered twice in a row (among the renders of that frame) with the same
    (size, duration, arguments) *)
Fixpoint no_repeat (l : list rcall) : Prop :=
  match l with
  | [] => True
  | c :: r => match latest (rc_fo c) r with Some c' => same_key c c' = false | None => True end
              /\ no_repeat r
  end.

Fixpoint no_repeatb (l : list rcall) : bool :=
  match l with
  | [] => true
  | c :: r => match latest (rc_fo c) r with Some c' => negb (same_key c c') | None => true end
              && no_repeatb r
  end.

Section Spec.
  Variable RS : Type.
  Variable render : RS -> Z -> whence -> size -> dur -> Z -> rres * RS.
  Variable n : option Z.
  Variable term : size.

  Record astate := {
    a_closed : bool;
    a_next : Z;          (* definite: number of the next frame, in [0, n]; INDEFINITE: pending offset *)
    a_wh : whence;       (* INDEFINITE: pending whence *)
    a_loop : Z;
    a_size : size; a_dur : dur; a_args : Z; a_pad : padding;
    a_rs : RS
  }.

  Definition a_with_pos a nx w := {| a_closed := a_closed a; a_next := nx; a_wh := w; a_loop := a_loop a; a_size := a_size a; a_dur := a_dur a; a_args := a_args a; a_pad := a_pad a; a_rs := a_rs a |}.
  Definition a_end a l r := {| a_closed := true; a_next := a_next a; a_wh := a_wh a; a_loop := l; a_size := a_size a; a_dur := a_dur a; a_args := a_args a; a_pad := a_pad a; a_rs := r |}.

  (** the seek table of the documentation: the frame a seek designates, if in range *)
  Definition seek_target (k nx off : Z) (w : whence) : option Z :=
    let t := match w with WStart => off | WCurrent => nx + off | WEnd => k - 1 + off end in
    if (0 <=? t) && (t <? k) then Some t else None.

  Definition indefinite_seek_ok (off : Z) (w : whence) : bool :=
    match w with WStart => 0 <=? off | WCurrent => true | WEnd => off <=? 0 end.

  Definition spec_next (a : astate) : astate * out :=
    let wrap := match n with Some k => k <=? a_next a | None => false end in
    let l := if wrap && (0 <? a_loop a) then a_loop a - 1 else a_loop a in
    if wrap && (l =? 0) then (a_end a l (a_rs a), OStop)
    else
      let k := if wrap then 0 else a_next a in
      let w := match n with Some _ => WStart | None => a_wh a end in
      let '(res, r') := render (a_rs a) k w (a_size a) (a_dur a) (a_args a) in
      match res with
      | ROk f =>
        ({| a_closed := false;
            a_next := match n with Some _ => k + 1 | None => 0 end;
            a_wh := match n with Some _ => a_wh a | None => WCurrent end;
            a_loop := l; a_size := a_size a; a_dur := a_dur a; a_args := a_args a;
            a_pad := a_pad a; a_rs := r' |},
         OFrame (wrap_frame (a_pad a) (padded_size (a_pad a) (a_size a)) f))
      | RStop =>
        match n with
        | Some _ => (a_end a l r', OErr EStopDefinite)
        | None => (a_end a 0 r', OStop)
        end
      | RErr e => (a_end a l r', OErr (ERender e))
      end.

  Definition spec_step (a : astate) (o : op) : astate * out :=
    if a_closed a then
      (a, match o with Next => OStop | Close | Drop => OOk | _ => OErr EFinalized end)
    else
      match o with
      | Next => spec_next a
      | Seek off w =>
        match n with
        | Some k =>
          match seek_target k (a_next a) off w with
          | Some t => (a_with_pos a t (a_wh a), OOk)
          | None => (a, OErr EValue)
          end
        | None => if indefinite_seek_ok off w then (a_with_pos a off w, OOk) else (a, OErr EValue)
        end
      | SetDuration d =>
        if match d with DStatic ms => ms <=? 0 | DDynamic => false end then (a, OErr EValue)
        else ({| a_closed := false; a_next := a_next a; a_wh := a_wh a; a_loop := a_loop a; a_size := a_size a; a_dur := d; a_args := a_args a; a_pad := a_pad a; a_rs := a_rs a |}, OOk)
      | SetPadding p =>
        ({| a_closed := false; a_next := a_next a; a_wh := a_wh a; a_loop := a_loop a; a_size := a_size a; a_dur := a_dur a; a_args := a_args a; a_pad := resolve term p; a_rs := a_rs a |}, OOk)
      | SetArgs None => (a, OErr EIncompat)
      | SetArgs (Some v) =>
        ({| a_closed := false; a_next := a_next a; a_wh := a_wh a; a_loop := a_loop a; a_size := a_size a; a_dur := a_dur a; a_args := v; a_pad := a_pad a; a_rs := a_rs a |}, OOk)
      | SetSize sz =>
        ({| a_closed := false; a_next := a_next a; a_wh := a_wh a; a_loop := a_loop a; a_size := sz; a_dur := a_dur a; a_args := a_args a; a_pad := a_pad a; a_rs := a_rs a |}, OOk)
      | Close | Drop => (a_end a (a_loop a) (a_rs a), OOk)
      end.

  (** the iterator as documented, right after construction *)
  Definition spec_mk (c : config) (rs0 : RS) : astate + err :=
    if match n with Some k => k <? 2 | None => false end then inr EValue
    else if c_loops c =? 0 then inr EValue
    else if match c_cache c with CBool _ => false | CInt v => v <=? 0 end then inr EValue
    else match c_args c with
         | None => inr EIncompat
         | Some v =>
           inl {| a_closed := false; a_next := 0; a_wh := WStart;
                  a_loop := match n with Some _ => c_loops c | None => 1 end;
                  a_size := c_size c; a_dur := c_dur c; a_args := v;
                  a_pad := resolve term (c_pad c); a_rs := rs0 |}
         end.

  (** vocabulary for the corollaries: which frame / loop value the next [next] is about,
      and what rendering frame [k] with the documented settings yields *)
  Definition wraps (a : astate) : bool :=
    match n with Some k => k <=? a_next a | None => false end.
  Definition next_frame (a : astate) : Z := if wraps a then 0 else a_next a.
  Definition next_loop (a : astate) : Z :=
    if wraps a && (0 <? a_loop a) then a_loop a - 1 else a_loop a.
  Definition render_outcome (a : astate) (k : Z) (w : whence) : out :=
    match fst (render (a_rs a) k w (a_size a) (a_dur a) (a_args a)) with
    | ROk f => OFrame (wrap_frame (a_pad a) (padded_size (a_pad a) (a_size a)) f)
    | RStop => match n with Some _ => OErr EStopDefinite | None => OStop end
    | RErr e => OErr (ERender e)
    end.

  Definition spec_run (a : astate) (ops : list op) : astate :=
    fold_left (fun a o => fst (spec_step a o)) ops a.

  Fixpoint spec_trace (a : astate) (ops : list op) : list (out * Z) :=
    match ops with
    | [] => []
    | o :: r => let '(a', x) := spec_step a o in (x, a_loop a') :: spec_trace a' r
    end.
End Spec.

Arguments a_closed {RS}. Arguments a_next {RS}. Arguments a_wh {RS}. Arguments a_loop {RS}.
Arguments a_size {RS}. Arguments a_dur {RS}. Arguments a_args {RS}. Arguments a_pad {RS}.
Arguments a_rs {RS}.
