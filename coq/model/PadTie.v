(** Executable comparison for the C05 correspondence. *)
From Coq Require Import List ZArith Bool Lia.
Import ListNotations.
From TI Require Import lib.Term lib.TermFacts lib.Rect lib.RectCheck lib.Lines model.Padding.
Open Scope Z_scope.

Inductive pkind :=
| PAligned (W H : Z) (ha va : nat)     (* AlignedPadding(W, H, ha, va), possibly relative *)
| PExact (l t r b : Z)
| POld (W H : Z) (ha va : nat).        (* old API: pad_width, pad_height, alignments *)

Record pcase := {
  p_kind : pkind;
  p_fill : option glyph;
  p_tw : Z; p_th : Z;                  (* terminal size used for resolution *)
  p_w : Z; p_h : Z;                    (* render size *)
  p_inner : list tok;                  (* the inner render, as observed *)
  p_obs : list tok;                    (* the padded output, as observed *)
  p_obs_dims : list Z;                 (* observed [l; t; r; b; padded_w; padded_h] *)
}.

Definition dims_of (c : pcase) : Z * Z * Z * Z :=
  match p_kind c with
  | PAligned W H ha va =>
    let '(W', H') := resolve (p_tw c) (p_th c) W H in aligned_dims W' H' ha va (p_w c) (p_h c)
  | PExact l t r b => (l, t, r, b)
  | POld W H ha va =>
    let '(W', H') := old_resolve (p_tw c) (p_th c) W H in old_dims W' H' ha va (p_w c) (p_h c)
  end.

Fixpoint zl_eqb (a b : list Z) : bool :=
  match a, b with
  | [], [] => true
  | x :: a', y :: b' => (x =? y) && zl_eqb a' b'
  | _, _ => false
  end.

Definition cellview_eqb (a b : cellview) : bool :=
  match a, b with
  | VNone, VNone => true
  | VGlyph g1 a1, VGlyph g2 a2 => (if glyph_dec g1 g2 then true else false) && attrs_eqb a1 a2
  | VBlank a1, VBlank a2 => attrs_eqb a1 a2
  | _, _ => false
  end.

(** the property oracle on the observed padded output, drawn at (r0, lm):
    the padded box meets the contract; every cell outside the inner render shows the fill
    glyph with default attributes (or is untouched for the empty fill); every inner cell
    shows what the inner render alone shows when drawn at the offset (t, l) *)
Definition oracle (c : pcase) (r0 lm : Z) : bool :=
  let '(l, t, r, b) := dims_of c in
  let w := p_w c in let h := p_h c in
  let W' := l + w + r in let H' := t + h + b in
  let inner i j := (t <=? i) && (i <? t + h) && (l <=? j) && (j <? l + w) in
  let need i j := if inner i j then true else match p_fill c with Some _ => true | None => false end in
  let evs := log (exec lm (start r0 lm) (p_obs c)) in
  let ievs := log (exec (lm + l) (start (r0 + t) (lm + l)) (p_inner c)) in
  rect_checkb_need need W' H' lm r0 (p_obs c)
  && forallb (fun i => forallb (fun j =>
        if inner i j then
          cellview_eqb (view evs (r0 + i) (lm + j)) (view ievs (r0 + i) (lm + j))
          && Bool.eqb (covered evs (r0 + i) (lm + j)) (covered ievs (r0 + i) (lm + j))
        else match p_fill c with
             | Some g => cellview_eqb (view evs (r0 + i) (lm + j)) (VGlyph g adefault)
             | None => negb (covered evs (r0 + i) (lm + j))
             end) (zrange 0 W')) (zrange 0 H')
  && (0 <=? l) && (0 <=? t) && (0 <=? r) && (0 <=? b).

(** 0 = agrees; +1 differs from the model (tokens or dimensions); +2 the oracle fails *)
Definition check (c : pcase) : nat :=
  let '(l, t, r, b) := dims_of c in
  let '(pw, ph) := padded_size (l, t, r, b) (p_w c) (p_h c) in
  (if toks_eqb (pad (p_fill c) (l, t, r, b) (p_w c) (p_inner c)) (p_obs c)
      && (match p_obs_dims c with [] => true | d => zl_eqb [l; t; r; b; pw; ph] d end)
   then 0 else 1)
  + (if oracle c 0 0 && oracle c 2 3 then 0 else 2).

Fixpoint index_from {A} (n : nat) (l : list A) : list (nat * A) :=
  match l with [] => [] | x :: r => (n, x) :: index_from (S n) r end.
Definition bad (cases : list pcase) : list (nat * nat) :=
  filter (fun p => negb (Nat.eqb (snd p) 0)) (index_from 0 (map check cases)).

Definition explain (c : pcase) :=
  (dims_of c, first_diff (pad (p_fill c) (dims_of c) (p_w c) (p_inner c)) (p_obs c) 0,
   oracle c 0 0).
