(** Executable comparison used by the C20 correspondence for class hierarchies with MULTIPLE
    INHERITANCE rooted at the library's own base classes ([model/SettingsMro.v]).

    A case gives the bases of every class in creation order (library base classes, the
    style class = the root, image mix-ins, plain [object] mix-ins, style classes composed of
    them), which of them are image classes, the class of every instance, a value-level
    history, and what the implementation showed: the real [__mro__] of every class (as
    class numbers; empty when Python refused to create the class) and, per operation, the
    outcome (0 accepted, 1 TypeError, 2 ValueError, 3 AttributeError) followed by what every
    class and every instance reads afterwards ([ABSENT] for a class the setting does not
    exist on).

    [mcheck]: 0 = agrees with model and specification; 1 = differs from the model only
    (that includes: the C3 linearisation computed by [c3_all] is not Python's [__mro__], or
    the case is malformed); 2 = the observed behaviour contradicts the SPECIFICATION —
    [m_vspec_trace]: the documented meaning of every value and the documented rule "own
    value, else the first class of the MRO that has one, else the default" on the documented
    reading of the history; 3 = both. *)
From Coq Require Import List ZArith Bool Arith.
Import ListNotations.
From TI Require Import model.Settings model.SettingsTie model.SettingsVal model.SettingsMro.

Record mcase := {
  mc_set : setting;
  mc_bases : list (list nat);   (* the bases of each class, creation order *)
  mc_img : list bool;           (* an image class (metaclass [ImageMeta])?  false: [object] mix-in *)
  mc_root : nat;                (* the style class *)
  mc_icls : list nat;           (* class of each instance *)
  mc_ops : list vop;
  mc_pymro : list (list nat);   (* the real [__mro__] of each class; [[]]: creation refused *)
  mc_obs : list (list Z)        (* per op: outcome code :: class values ++ instance values *)
}.

Fixpoint nl_eqb (a b : list nat) : bool :=
  match a, b with
  | [], [] => true
  | x :: a', y :: b' => Nat.eqb x y && nl_eqb a' b'
  | _, _ => false
  end.

Fixpoint tbl_eqb (tbl : list (option (list nat))) (py : list (list nat)) : bool :=
  match tbl, py with
  | [], [] => true
  | Some l :: t, p :: q => nl_eqb l p && tbl_eqb t q
  | None :: t, p :: q => is_nil p && tbl_eqb t q
  | _, _ => false
  end.

(** a class-level operation targets a class the setting exists on (for the render method:
    any image class — a class without render methods rejects every name and accepts
    [None]); an instance-level one an existing instance of a class the setting exists on *)
Definition target_ok (st : setting) (H : hier) (img : nat -> bool) (icls : nat -> nat)
           (ni : nat) (o : vop) : bool :=
  match o with
  | VSet LCls t _ | VDel LCls t =>
    match st with SRm _ => img t && negb (is_nil (h_mro H t)) | _ => h_has H t end
  | VSet LInst t _ | VDel LInst t => Nat.ltb t ni && h_has H (icls t)
  end.

Definition mcheck (t : mcase) : nat :=
  let st := mc_set t in
  let tbl := c3_all (mc_bases t) in
  let img := fun c => nth c (mc_img t) false in
  let H := hier_c3 tbl img (mc_root t) st in
  let icls := parf (mc_icls t) in
  let nc := length (mc_bases t) in
  let ni := length (mc_icls t) in
  let ok_mro := tbl_eqb tbl (mc_pymro t) in
  let ok_case := forallb (target_ok st H img icls ni) (mc_ops t) in
  let ok_model := ok_mro && ok_case
                  && zll_eqb (m_vtrace st H icls nc ni (m_uinit st H) (mc_ops t)) (mc_obs t) in
  let ok_spec := zll_eqb (m_vspec_trace st H icls nc ni (mc_ops t)) (mc_obs t) in
  (if ok_model then 0 else 1) + (if ok_spec then 0 else 2).

Definition mbad (cases : list mcase) : list (nat * nat) :=
  filter (fun p => negb (Nat.eqb (snd p) 0)) (SettingsTie.index_from 0 (map mcheck cases)).
