(** * DrawQuery — what the SCREEN receives when [draw()] itself talks to the terminal (C06)

    [BaseImage.draw] renders after it has hidden the cursor; the first render in a process asks
    the terminal for its default colours and its name ([BlockImage._render_image],
    [block.py:98-99]: [get_fg_bg_colors()], [_is_on_kitty()]) or for the cell size
    ([get_cell_size()], [utils.py:447], when the window's pixel size is unknown); a new-API
    renderable's [_render_] may do the same inside [Renderable.draw].  Every such query is
    [utils.query_terminal] ([utils.py:589-628]):

        old = tcgetattr(); new = old with ECHO cleared
        try:     tcsetattr(TCSAFLUSH, new); write_tty(request); return read_tty(more, timeout)
        finally: tcsetattr(TCSANOW, old)

    with [write_tty] ([utils.py:736-746]) = [os.write] + [tcdrain], and [read_tty]
    ([utils.py:633-717]) = [old' = tcgetattr(); tcsetattr(old' without ICANON / ECHO); read ...;
    finally tcsetattr(old')].

    The terminal is another process: its reply ARRIVES at the tty at a moment the library does
    not control.  Whatever arrives while the tty's ECHO flag is on is echoed by the line
    discipline onto the screen (control characters in caret notation: ECHOCTL), at the cursor:
    into the region [draw()] is drawing.  The screen is what the terminal side of the tty
    receives: [draw()]'s own writes INTERLEAVED with the echoes.

    The ECHO flag and the replies are state of the model: a run is a list of events -- steps of
    the program, and arrivals placed by the environment -- and [screen] is the stream that
    reaches the terminal. *)
From Coq Require Import List ZArith Bool.
Import ListNotations.
From TI Require Import lib.Term.
Open Scope Z_scope.

(** ** the tty *)

(** the line discipline's echo of one input byte with ECHO and ECHOCTL set (the default of a
    tty) and output post-processing off: a control character [c] is echoed as [^] followed by
    [c xor 0x40] (ESC as [^[], BEL as [^G], DEL as [^?]), anything else as itself *)
Definition glyph_of (b : Z) : glyph := if b =? 32 then GSpace else GOther b.
Definition echo_byte (b : Z) : list tok :=
  if b <? 32 then [TChar (GOther 94); TChar (glyph_of (b + 64))]
  else if b =? 127 then [TChar (GOther 94); TChar (GOther 63)]
  else [TChar (glyph_of b)].
Definition echo_text (reply : list Z) : list tok := flat_map echo_byte reply.

(** ** runs *)

Inductive pstep :=
| POut (ts : list tok)     (* a write to standard output reaches the terminal *)
| PSet (echo : bool)       (* tcsetattr: the tty's ECHO flag becomes [echo] *)
| PSend                    (* write_tty(request): the request has been transmitted (requests draw nothing) *)
| PRecv.                   (* read_tty() has returned: the reply has been consumed *)

Inductive event :=
| Prog (p : pstep)
| Arrive (reply : list Z). (* (a piece of) the terminal's reply reaches the tty *)

(** what the screen receives, from a tty whose ECHO flag is [echo] *)
Fixpoint screen (echo : bool) (evs : list event) : list tok :=
  match evs with
  | [] => []
  | Prog (POut ts) :: r => ts ++ screen echo r
  | Prog (PSet b) :: r => screen b r
  | Prog PSend :: r | Prog PRecv :: r => screen echo r
  | Arrive reply :: r => (if echo then echo_text reply else []) ++ screen echo r
  end.

(** the program's part of a run, and its own writes *)
Fixpoint prog_of (evs : list event) : list pstep :=
  match evs with
  | [] => []
  | Prog p :: r => p :: prog_of r
  | Arrive _ :: r => prog_of r
  end.

Fixpoint own (p : list pstep) : list tok :=
  match p with
  | [] => []
  | POut ts :: r => ts ++ own r
  | _ :: r => own r
  end.

(** the environment's side: a reply arrives only while a request is outstanding -- after the
    request has been transmitted and before the read that waits for it has returned (a terminal
    that answers in time; [out]: a request is outstanding) *)
Fixpoint timely (out : bool) (evs : list event) : bool :=
  match evs with
  | [] => true
  | Prog PSend :: r => timely true r
  | Prog PRecv :: r => timely false r
  | Prog _ :: r => timely out r
  | Arrive _ :: r => out && timely out r
  end.

(** the program's side, a property of the program ALONE: ECHO is off when a request is sent and
    is not switched on again before the reply has been consumed *)
Fixpoint disciplined (echo out : bool) (p : list pstep) : bool :=
  match p with
  | [] => true
  | POut _ :: r => disciplined echo out r
  | PSet b :: r => (negb out || negb b) && disciplined b out r
  | PSend :: r => negb echo && disciplined echo true r
  | PRecv :: r => disciplined echo false r
  end.

(** the ECHO flag a program leaves behind *)
Fixpoint echo_after (echo : bool) (p : list pstep) : bool :=
  match p with
  | [] => echo
  | PSet b :: r => echo_after b r
  | _ :: r => echo_after echo r
  end.

(** ** the library *)

(** [read_tty], met with ECHO = [e] *)
Definition read_tty (e : bool) : list pstep := [PSet false; PRecv; PSet e].

(** [query_terminal], met with ECHO = [e]: the attribute change BRACKETS write + read *)
Definition query_terminal (e : bool) : list pstep :=
  [PSet false; PSend] ++ read_tty false ++ [PSet e].

(** the excluded variant: "read_tty() already handles the attributes" -- ECHO goes off only at
    the read *)
Definition query_terminal_late (e : bool) : list pstep := [PSend] ++ read_tty e.

(** a draw whose own writes are [s0 ++ s1 ++ ... ++ sn] and which queries the terminal (by
    [qt]) between them *)
Fixpoint draw_prog (qt : list pstep) (s0 : list tok) (segs : list (list tok)) : list pstep :=
  match segs with
  | [] => [POut s0]
  | s :: r => POut s0 :: qt ++ draw_prog qt s r
  end.

(** [Renderable.draw] with [echo_input = False] on a tty ([_renderable.py:554-598]): the draw
    itself keeps ECHO off from before its first write until after its last *)
Definition new_draw_prog (e : bool) (qt : list pstep) (s0 : list tok) (segs : list (list tok)) : list pstep :=
  PSet false :: draw_prog qt s0 segs ++ [PSet e].

(** ** a run of a draw under a reply schedule *)

(** one exchange with the pieces of the reply placed at the two points the environment can
    tell apart: [w] in the WINDOW between the transmission of the request and the next termios
    call, [r] while the program READS (after that call) *)
Definition exchange (e : bool) (w r : list (list Z)) : list event :=
  [Prog (PSet false); Prog PSend] ++ map Arrive w
  ++ [Prog (PSet false)] ++ map Arrive r ++ [Prog PRecv; Prog (PSet false); Prog (PSet e)].

Definition exchange_late (e : bool) (w r : list (list Z)) : list event :=
  [Prog PSend] ++ map Arrive w
  ++ [Prog (PSet false)] ++ map Arrive r ++ [Prog PRecv; Prog (PSet e)].

Definition xch := bool -> list (list Z) -> list (list Z) -> list event.

(** the own stream [st] cut at the (increasing) token counts [cuts], one exchange at every cut *)
Fixpoint weave (x : xch) (e : bool) (st : list tok) (done : nat) (cuts : list (nat * (list (list Z) * list (list Z))))
  : list event :=
  match cuts with
  | [] => [Prog (POut st)]
  | (k, (w, r)) :: cs =>
    Prog (POut (firstn (k - done)%nat st)) :: x e w r ++ weave x e (skipn (k - done)%nat st) k cs
  end.
