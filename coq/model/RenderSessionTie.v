(** Executable comparison for the C01 session correspondence: a session observed on the
    implementation (one instance, several render requests, some of them interrupted)
    against the session model (model/RenderSession.v), every completed render output being
    judged exactly like a single render ([RenderTie.check]: token model, render contract
    [rect_checkb] on the implementation's own tokens, pixel oracle). *)
From Coq Require Import List ZArith Bool Lia.
Import ListNotations.
From TI Require Import lib.Term lib.RectCheck model.Block model.GfxRender model.RenderTie
     model.RenderSession.
Open Scope Z_scope.

(** the request (parameters of the model render) behind an observed completed render; the
    payload / chunk structure is abstract in the model and is read off the observation *)
Definition params_of (w h : Z) (c : rcase) (obs : list tok) : rparams :=
  match c with
  | RBlock alpha kitty bgcol split rows => PBlock alpha kitty bgcol split (Z.to_nat w) rows
  | RKittyLines z mix blend => PKittyLines w z mix blend (map norm_lens (chunk_lens obs None))
  | RKittyWhole z mix blend => PKittyWhole w h z mix blend (norm_lens (hd [] (chunk_lens obs None)))
  | RItermLines k wz mix => PItermLines w k wz mix (iterm_sps obs)
  | RItermWhole k wz mix => PItermWhole w h k wz mix (hd (0, 0) (iterm_sps obs))
  end.

(** an observed step of a session: a completed render (judged as a [tcase]) or a render that
    was interrupted after [k] (unobservable, any) pieces and handed out nothing *)
Inductive sstep :=
| SDone (t : tcase)
| SCut (k : nat).

(** parameters of an interrupted request are irrelevant to every output of the session
    ([RenderSessionProofs.session_outputs_spec]); a placeholder stands for them *)
Definition cut_params : rparams := PKittyWhole 1 1 0 false true [].

Definition req_of (s : sstep) : req :=
  match s with
  | SDone t => {| r_par := params_of (t_w t) (t_h t) (t_case t) (t_obs t); r_cut := None |}
  | SCut k => {| r_par := cut_params; r_cut := Some k |}
  end.

Definition observed (s : sstep) : option (list tok) :=
  match s with SDone t => Some (t_obs t) | SCut _ => None end.

Definition yield_eqb (a b : option (list tok)) : bool :=
  match a, b with
  | Some x, Some y => toks_eqb x y
  | None, None => true
  | _, _ => false
  end.

Fixpoint yields_eqb (a b : list (option (list tok))) : bool :=
  match a, b with
  | [], [] => true
  | x :: a', y :: b' => yield_eqb x y && yields_eqb a' b'
  | _, _ => false
  end.

(** the model's precondition holds for the observed request and the advertised size is the
    request's size *)
Definition req_okb (s : sstep) : bool :=
  match s with
  | SDone t =>
    let p := params_of (t_w t) (t_h t) (t_case t) (t_obs t) in
    p_wfb p && (p_w p =? t_w t) && (p_h p =? t_h t)
  | SCut _ => true
  end.

Definition step_code (s : sstep) : nat :=
  match s with SDone t => check t | SCut _ => 0%nat end.

Fixpoint first_bad (codes : list nat) (i : nat) : nat :=
  match codes with
  | [] => 0%nat
  | c :: r => if Nat.eqb c 0 then first_bad r (S i) else i
  end.

(** bits: +1 the session model's yields differ from the observed ones; +2 some completed
    render output of the session violates the render contract; +4 ... the pixel oracle;
    + 8 * (index of the first step whose own check is non-zero) *)
Definition scheck (sc : list sstep) : nat :=
  let codes := map step_code sc in
  let bits := fold_right Nat.lor 0%nat codes in
  let m := if yields_eqb (session (map req_of sc)) (map observed sc) && forallb req_okb sc
           then 0%nat else 1%nat in
  (Nat.lor bits m + 8 * first_bad codes 0)%nat.

Definition sbad (cases : list (list sstep)) : list (nat * nat) :=
  filter (fun p => negb (Nat.eqb (snd p) 0)) (index_from 0 (map scheck cases)).

Definition sexplain (sc : list sstep) :=
  map (fun s => match s with SDone t => Some (explain t) | SCut _ => None end) sc.
