(** * ScreenCalls — call skeletons of UrwidImageScreen._start / _stop / clear (C18)

    Definitions only.  harness/tx/tx_screen.py translates the CURRENT source of the three
    methods into [sprog]s (gen/ScreenSkel.v: [sk_start], [sk_stop], [sk_clear]); what matters
    of them is which calls are made, in which order, along every path on which no call raises:

      [CBase]      super()._start(...) / super()._stop() / super().clear(): the base class'
                   method (urwid), which is what switches the screen buffers;
      [CClearAll]  self.clear_images() without arguments: every image is deleted;
      [CCall]      any other call (assumed to put no image on the terminal). *)
From Coq Require Import List Bool.
Import ListNotations.

Inductive scall := CBase | CClearAll | CCall.

Inductive sprog :=
| PSkip
| PCall (c : scall)
| PSeq (a b : sprog)
| PIf (a b : sprog)      (* condition on data the skeleton does not track (e.g. self._alternate_buffer) *)
| PRet.
Definition psq (l : list sprog) : sprog := fold_right PSeq PSkip l.

(** the runs in which no call raises: (the calls made, a [return] was executed) *)
Fixpoint paths (p : sprog) : list (list scall * bool) :=
  match p with
  | PSkip => [([], false)]
  | PCall c => [([c], false)]
  | PRet => [([], true)]
  | PSeq a b =>
    flat_map (fun ra : list scall * bool =>
                if snd ra then [ra]
                else map (fun rb : list scall * bool => (fst ra ++ fst rb, snd rb)) (paths b)) (paths a)
  | PIf a b => paths a ++ paths b
  end.
Definition traces (p : sprog) : list (list scall) := map fst (paths p).

(** _start: the base class' _start is called, and clear_images() is called AFTER its last
    call (the base class shows the buffer the screen will use: the images to clear are those
    of that buffer) — on every path, whatever the conditions *)
Fixpoint start_ok_from (seen_base cleared : bool) (t : list scall) : bool :=
  match t with
  | [] => seen_base && cleared
  | CBase :: r => start_ok_from true false r
  | CClearAll :: r => start_ok_from seen_base true r
  | CCall :: r => start_ok_from seen_base cleared r
  end.
Definition start_ok (t : list scall) : bool := start_ok_from false false t.

(** _stop: clear_images() is called BEFORE the base class' _stop (which leaves the buffer
    the screen ran on), and that call is the last one *)
Fixpoint stop_ok_from (cleared : bool) (t : list scall) : bool :=
  match t with
  | [] => false
  | CBase :: r => cleared && match r with [] => true | _ => false end
  | CClearAll :: r => stop_ok_from true r
  | CCall :: r => stop_ok_from cleared r
  end.
Definition stop_ok (t : list scall) : bool := stop_ok_from false t.

(** clear: clear_images() and the base class' clear() are both called *)
Definition is_clear_all (c : scall) : bool := match c with CClearAll => true | _ => false end.
Definition is_base (c : scall) : bool := match c with CBase => true | _ => false end.
Definition clear_ok (t : list scall) : bool := existsb is_clear_all t && existsb is_base t.

(** every path satisfies [ok], and there is a path *)
Definition all_paths (ok : list scall -> bool) (p : sprog) : bool :=
  forallb ok (traces p) && negb (match traces p with [] => true | _ => false end).
