(** Executable comparison for the C01 quirk correspondence (round 9): block renders judged
    under the default-background quirk of the terminal they were made for; kitty renders judged
    AS DISPLAYED (each transmission accepted or not on its own control data + decoded size). *)
From Coq Require Import List ZArith Bool Lia.
Import ListNotations.
From TI Require Import lib.Term lib.TermFacts lib.Rect lib.RectCheck lib.Lines model.Block model.GfxRender
     model.RenderTie model.KittyQuirk.
Open Scope Z_scope.

Inductive qrender :=
| QBlock (alpha kitty : bool) (bgcol : option rgb) (split : bool) (rows : list (list px))
  (* [lines]: LINES / WHOLE; [rgba]: mode of the render data; [s v]: pixel width, pixel height
     of one transmission; [ls]: per line "no transparency"; [txs]: observed control data +
     decoded payload size of each transmission *)
| QKitty (lines rgba : bool) (s v z : Z) (mix blend : bool) (ls : list bool) (txs : list tx).

Record qcase := { q_w : Z; q_h : Z; q_render : qrender; q_obs : list tok }.

Definition tx_eqb (a b : tx) : bool :=
  (tx_s a =? tx_s b) && (tx_v a =? tx_v b) && (tx_f a =? tx_f b) && (tx_bytes a =? tx_bytes b).
Fixpoint txs_eqb (a b : list tx) : bool :=
  match a, b with
  | [], [] => true
  | x :: a', y :: b' => tx_eqb x y && txs_eqb a' b'
  | _, _ => false
  end.

Definition qmodel_ok (c : qcase) : bool :=
  let w := q_w c in let h := q_h c in let obs := q_obs c in
  match q_render c with
  | QBlock alpha kitty bgcol split rows => toks_eqb (Block.render alpha kitty bgcol split rows) obs
  | QKitty lines rgba s v z mix blend ls txs =>
    txs_eqb txs (if lines then lines_txs rgba s v ls else whole_txs rgba s v)
    && toks_eqb (model_toks w h (if lines then RKittyLines z mix blend else RKittyWhole z mix blend) obs) obs
  end.

(** the specification side: the contract on the render AS THE TERMINAL IT IS MADE FOR SHOWS IT *)
Definition qspec_ok (c : qcase) : bool :=
  let w := q_w c in let h := q_h c in let obs := q_obs c in
  match q_render c with
  | QBlock _ kitty bgcol _ _ =>
    rect_checkb w h 0 0 obs && quirk_cover_checkb kitty bgcol w h 0 0 obs
    && quirk_cover_checkb kitty bgcol w h 5 3 obs
  | QKitty _ _ _ _ _ _ _ _ txs => gfx_shown_checkb txs w h obs
  end.

(** 0 = agrees; +1 differs from the model; +2 the observed render contradicts the specification *)
Definition qcheck (c : qcase) : nat :=
  (if qmodel_ok c then 0 else 1) + (if qspec_ok c then 0 else 2).

Definition qbad (cases : list qcase) : list (nat * nat) :=
  filter (fun p => negb (Nat.eqb (snd p) 0)) (index_from 0 (map qcheck cases)).

(** details for a report *)
Definition qexplain (c : qcase) :=
  let w := q_w c in let h := q_h c in let obs := q_obs c in
  match q_render c with
  | QBlock alpha kitty bgcol split rows =>
    (rect_check w h 0 0 obs, [quirk_cover_checkb kitty bgcol w h 0 0 obs],
     first_diff (Block.render alpha kitty bgcol split rows) obs 0)
  | QKitty lines rgba s v z mix blend ls txs =>
    (rect_check w h 0 0 (accept_view (map accepted txs) true obs), map accepted txs,
     first_diff (model_toks w h (if lines then RKittyLines z mix blend else RKittyWhole z mix blend) obs) obs 0)
  end.
