(** * SettingsProg — the attribute programs of [BaseImage.set_render_method] (C20, source tie)

    [harness/tx/tx_settings.py] translates the two bodies of [set_render_method]
    (image/common.py) into lists of [sstmt] ([gen/SettingsSrc.v], regenerated on every run).
    This file gives those programs their meaning over the dictionaries of [model/Settings.v]
    ([cd]: the class dictionaries, [idt]: the instance dictionaries): Python's attribute
    assignment / deletion on ONE object ([upd]), attribute lookup through the class chain
    ([cls_lookup], ending in [BaseImage._render_method = None]), [raise] = the operation is
    rejected and nothing is changed (every [raise] of the translated functions precedes
    their first write: [exec] returns [None] and the caller keeps the old state).
    [proofs/SettingsSrcTie.v] proves that running the translated programs IS
    [Settings.step] for the render-method kind.

    The argument [method] is [MNone], a non-string ([MNonStr]) or a string [MStr v] where
    [v] is the code of its lower-cased text ([0 <= v < n]: one of the style's [n] methods;
    [EMPTY]: the empty string, which is falsy).  Definitions only. *)
From Coq Require Import List ZArith Bool Arith.
Import ListNotations.
From TI Require Import model.Settings.

Inductive scond :=
| CBadType      (* [method is not None and not isinstance(method, str)] *)
| CUnknown      (* [method is not None and method.lower() not in X._render_methods] *)
| CFalsy        (* [not method] *)
| CHasMethods   (* [X._render_methods] *)
| CLookupNone.  (* [X._render_method is None] *)

Inductive sstmt :=
| SRaiseIf (c : scond)                    (* [if c: raise ...] *)
| SIf (c : scond) (t e : list sstmt)      (* [if c: t else: e] *)
| SDelOwn                                 (* [try: del X._render_method / except AttributeError: pass] *)
| SSetMethod                              (* [X._render_method = method] *)
| SSetDefault.                            (* [X._render_method = X._default_render_method] *)

Inductive marg := MNone | MNonStr | MStr (v : Z).

Definition EMPTY : Z := (-1)%Z.
Definition NONSTR : Z := (-2)%Z.

Definition valid_method (n v : Z) : bool := ((0 <=? v) && (v <? n))%Z.

(** conditions that depend on the argument only *)
Definition acond (n : Z) (m : marg) (q : scond) : option bool :=
  match q with
  | CBadType => Some (match m with MNonStr => true | _ => false end)
  | CUnknown => Some (match m with
                      | MNone => false
                      | MNonStr => true        (* [method.lower()] raises: rejected all the same *)
                      | MStr v => negb (valid_method n v)
                      end)
  | CFalsy => Some (match m with MNone => true | MNonStr => false | MStr v => (v =? EMPTY)%Z end)
  | CHasMethods => Some (0 <? n)%Z
  | CLookupNone => None
  end.

(** ** class level: [X = cls], the object is class [c], the store is [cd] *)
Section Cls.
  Variables (n : Z) (par : nat -> nat) (c : nat) (m : marg).

  Definition ccond (q : scond) (d : nat -> option Z) : bool :=
    match acond n m q with
    | Some b => b
    | None => match cls_lookup par d c c with None => true | Some _ => false end
    end.

  Fixpoint cexec (p : sstmt) (d : nat -> option Z) {struct p} : option (nat -> option Z) :=
    let go := fix go (l : list sstmt) (d : nat -> option Z) {struct l} : option (nat -> option Z) :=
                match l with
                | [] => Some d
                | x :: r => match cexec x d with Some d' => go r d' | None => None end
                end in
    match p with
    | SRaiseIf q => if ccond q d then None else Some d
    | SIf q t e => if ccond q d then go t d else go e d
    | SDelOwn => Some (upd d c None)
    | SSetMethod => match m with MStr v => Some (upd d c (Some v)) | _ => None end
    | SSetDefault => Some (upd d c (Some 0%Z))
    end.

  Fixpoint cexec_list (l : list sstmt) (d : nat -> option Z) : option (nat -> option Z) :=
    match l with
    | [] => Some d
    | x :: r => match cexec x d with Some d' => cexec_list r d' | None => None end
    end.
End Cls.

Definition cls_run (n : Z) (par : nat -> nat) (s : state) (c : nat) (m : marg) (prog : list sstmt)
  : state * out :=
  match cexec_list n par c m prog (cd s) with
  | Some d => ({| cd := d; idt := idt s |}, Ok)
  | None => (s, Rejected)
  end.

(** ** instance level: [X = self], the object is instance [i], the store is [idt];
    [type(self)] in the validation *)
Section Inst.
  Variables (n : Z) (par icls : nat -> nat) (cdict : nat -> option Z) (i : nat) (m : marg).

  Definition icond (q : scond) (d : nat -> option Z) : bool :=
    match acond n m q with
    | Some b => b
    | None => match d i with
              | Some _ => false
              | None => match cls_lookup par cdict (icls i) (icls i) with None => true | Some _ => false end
              end
    end.

  Fixpoint iexec (p : sstmt) (d : nat -> option Z) {struct p} : option (nat -> option Z) :=
    let go := fix go (l : list sstmt) (d : nat -> option Z) {struct l} : option (nat -> option Z) :=
                match l with
                | [] => Some d
                | x :: r => match iexec x d with Some d' => go r d' | None => None end
                end in
    match p with
    | SRaiseIf q => if icond q d then None else Some d
    | SIf q t e => if icond q d then go t d else go e d
    | SDelOwn => Some (upd d i None)
    | SSetMethod => match m with MStr v => Some (upd d i (Some v)) | _ => None end
    | SSetDefault => Some (upd d i (Some 0%Z))
    end.

  Fixpoint iexec_list (l : list sstmt) (d : nat -> option Z) : option (nat -> option Z) :=
    match l with
    | [] => Some d
    | x :: r => match iexec x d with Some d' => iexec_list r d' | None => None end
    end.
End Inst.

Definition inst_run (n : Z) (par icls : nat -> nat) (s : state) (i : nat) (m : marg) (prog : list sstmt)
  : state * out :=
  match iexec_list n par icls (cd s) i m prog (idt s) with
  | Some d => ({| cd := cd s; idt := d |}, Ok)
  | None => (s, Rejected)
  end.

(** the model operation a call stands for *)
Definition code (m : marg) : Z := match m with MNone => 0%Z | MNonStr => NONSTR | MStr v => v end.
Definition op_of_cls (c : nat) (m : marg) : op :=
  match m with
  | MNone => ClsUnset c
  | MStr v => if (v =? EMPTY)%Z then ClsSet c EMPTY else ClsSet c v
  | MNonStr => ClsSet c NONSTR
  end.
Definition op_of_inst (i : nat) (m : marg) : op :=
  match m with
  | MNone => InstUnset i
  | MStr v => InstSet i v
  | MNonStr => InstSet i NONSTR
  end.

(** ** the property setters / deleters of [ITerm2ImageMeta] ([jpeg_quality], [read_from_file]):
    one function serves the class level ([self] = the class, store [cd]) and the instance
    level ([self] = the instance, store [idt]) — [ITerm2Image] re-uses the metaclass
    property's [fget] / [fset] / [fdel] (checked by the translator) *)
Inductive pcond :=
| PNotInt          (* [not isinstance(x, int)] *)
| PGt (b : Z)      (* [x > b] *)
| PNotBool.        (* [not isinstance(x, bool)] *)

Inductive pstmt :=
| PRaiseIf (c : pcond)
| PSet             (* [self._attr = x] *)
| PDel.            (* [try: del self._attr / except AttributeError: pass] *)

(** the argument: something that is not an int, an int that is not a bool, or a bool
    ([isinstance(True, int)] holds in Python) *)
Inductive parg := PNonInt | PInt (v : Z) | PBool (b : bool).

Definition pval (a : parg) : Z :=
  match a with PNonInt => 1000%Z | PInt v => v | PBool b => if b then 1%Z else 0%Z end.

Definition pcond_holds (q : pcond) (a : parg) : bool :=
  match q with
  | PNotInt => match a with PNonInt => true | _ => false end
  | PGt b => match a with PNonInt => true (* the comparison itself raises *) | _ => (b <? pval a)%Z end
  | PNotBool => match a with PBool _ => false | _ => true end
  end.

(** the value the model's dictionaries hold for an argument of each setting *)
Definition jcode (a : parg) : Z := pval a.
Definition rcode (a : parg) : Z := match a with PBool b => if b then 1%Z else 0%Z | _ => 1000%Z end.

Fixpoint pexec (vcode : parg -> Z) (x : nat) (a : parg) (l : list pstmt) (d : nat -> option Z)
  : option (nat -> option Z) :=
  match l with
  | [] => Some d
  | PRaiseIf q :: r => if pcond_holds q a then None else pexec vcode x a r d
  | PSet :: r => pexec vcode x a r (upd d x (Some (vcode a)))
  | PDel :: r => pexec vcode x a r (upd d x None)
  end.

Definition pcls_run (vcode : parg -> Z) (s : state) (c : nat) (a : parg) (prog : list pstmt) : state * out :=
  match pexec vcode c a prog (cd s) with
  | Some d => ({| cd := d; idt := idt s |}, Ok)
  | None => (s, Rejected)
  end.

Definition pinst_run (vcode : parg -> Z) (s : state) (i : nat) (a : parg) (prog : list pstmt) : state * out :=
  match pexec vcode i a prog (idt s) with
  | Some d => ({| cd := cd s; idt := d |}, Ok)
  | None => (s, Rejected)
  end.
