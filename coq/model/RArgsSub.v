(** * RArgsSub — namespace SUBCLASSES with their own constructor (C16)

    A render-argument namespace class may be subclassed (the subclass inherits the fields and
    the associated render class) and the subclass may define its own constructor: the only
    rule ([ArgsDataNamespaceMeta.__new__], _types.py:190-215) is that it has no REQUIRED
    parameters.  Typical: a preset ([def __init__(self): super().__init__(quality=9)]), a
    constructor with friendlier parameter names, a constructor that forces some fields.

    The property says that [update], [RenderArgs.update], [|], unary [+], [convert] and
    [to_render_args] "return new objects that obey the same rule": the copy made by [update]
    has the class of the original and its FIELDS with just the given ones replaced; the
    other routes hold the very instance they were given.  None of them may go through the
    (user-defined, arbitrary) constructor of the instance's class.  Here:

    - a class of instances is [(c, d)]: the associated namespace class [c] of
      [model/RArgsVal.v] (its fields, its render class [R_c]) and a constructor descriptor
      [d]; [ctor_of d] is the optional user constructor, a map from ITS arguments to the
      arguments handed to the base initialiser ([ArgsNamespace.__init__], [nctor]);
    - construction ([SNew]) goes through that constructor; every copying route is defined on
      the FIELDS ([s_update] = [nupdate] of RArgsVal, _types.py:579-594: [type(self).__new__]
      + the base initialiser) and keeps the class;
    - [update_via_ctor] is the EXCLUDED design ([type(self)(all fields as keywords)]).

    Definitions only; proofs are in [proofs/RArgsSubProofs.v]. *)
From Coq Require Import List ZArith Bool Arith.
Import ListNotations.
From TI Require Import model.RArgsVal.

(** the arguments of a constructor call: positional values, keywords *)
Definition cargs := (list val * kwlist)%type.

(** a user-defined [__init__]: the arguments it hands to [super().__init__], or the error it
    raises itself (its signature does not bind the call: TypeError) *)
Definition uctor := cargs -> nres cargs.

Inductive sdesc :=
| DPlain                        (* no constructor of its own *)
| DPreset (pk : kwlist)         (* def __init__(self): super().__init__(pk...) *)
| DRenamed (perm : list nat)    (* def __init__(self, p0=MISSING, p1=MISSING, ...):
                                     super().__init__(field perm[j] = p_j for every p_j given);
                                   keyword [j] of a call names the OWN parameter p_j *)
| DForce (pk : kwlist).         (* def __init__(self, **fields): super().__init__(fields..., pk...)
                                   with pk overriding: some fields are forced *)

Definition ctor_of (d : sdesc) : option uctor :=
  match d with
  | DPlain => None
  | DPreset pk =>
    Some (fun a => match a with ([], []) => NOk ([], pk) | _ => NErr NEType end)
  | DRenamed perm =>
    Some (fun a =>
            let pos := fst a in
            let kw := snd a in
            let np := length perm in
            if np <? length pos then NErr NEType                         (* too many values *)
            else if existsb (fun p => np <=? fst p) kw then NErr NEType  (* unexpected keyword *)
            else if existsb (fun p => fst p <? length pos) kw then NErr NEType   (* given twice *)
            (* the body reads its parameters in PARAMETER order, whatever the order of the
               keywords in the call *)
            else NOk ([], flat_map (fun j =>
                                      match (if j <? length pos then Some (nth j pos VNone)
                                             else kw_last j kw) with
                                      | Some v => [(nth j perm 0, v)]
                                      | None => []
                                      end) (seq 0 np)))
  | DForce pk =>
    Some (fun a => match a with ([], kw) => NOk ([], kw ++ pk) | _ => NErr NEType end)
  end.

(** [K(args...)] for a class with default fields [dfl] and optional user constructor [u] *)
Definition sconstruct (dfl : list val) (u : option uctor) (a : cargs) : nres (list val) :=
  match u with
  | None => nctor dfl (fst a) (snd a)
  | Some g => match g a with
              | NErr e => NErr e
              | NOk b => nctor dfl (fst b) (snd b)
              end
  end.

(** the instantiable classes: [(associated namespace class, constructor descriptor)].  The
    first [length cl] entries are the associated classes themselves. *)
Definition scls := (nat * sdesc)%type.
Definition sl_full (cl : list (list val)) (subs : list scls) : list scls :=
  map (fun c => (c, DPlain)) (seq 0 (length cl)) ++ subs.

Definition base_of (sl : list scls) (s : nat) : nat := fst (nth s sl (0, DPlain)).
Definition sfields (cl : list (list val)) (sl : list scls) (s : nat) : nat :=
  nfields cl (base_of sl s).

(** routes that put an instance [x] (of render class [R_c]) into a set of render arguments
    and read the set's namespace for [R_c] back *)
Inductive hroute :=
| HPos                       (* (+x)[R_c] *)
| HOr (m : nat)              (* (x | RenderArgs(R_m))[R_c] *)
| HRor (m : nat)             (* (RenderArgs(R_m) | x)[R_c] *)
| HToRa (m : nat)            (* x.to_render_args(R_m)[R_c] *)
| HConvert (m m2 : nat).     (* RenderArgs(R_m, x).convert(R_m2)[R_c] *)

(** is the route defined for an instance of render class [R_c] in the chain of [ncl] classes *)
Definition hold_ok (ncl c : nat) (r : hroute) : nres unit :=
  match r with
  | HPos => NOk tt
  | HOr m | HRor m => if ncl <=? m then NErr NEBadOperand else NOk tt
  | HToRa m =>
    if ncl <=? m then NErr NEBadOperand
    else if m <? c then NErr NEIncompat else NOk tt                 (* _types.py:979-986 *)
  | HConvert m m2 =>
    if (ncl <=? m) || (ncl <=? m2) then NErr NEBadOperand
    else if m <? c then NErr NEIncompat
    else if m2 <? c then NErr NEBadOperand      (* the converted set has nothing for R_c *)
    else NOk tt
  end.

Inductive sop :=
| SNew (s : nat) (pos : list val) (kw : kwlist)      (* K_s(pos..., kw...) *)
| SUpdate (x : nat) (kw : kwlist)                    (* x.update(kw...) *)
| SRaUpdate (x m : nat) (kw : kwlist)                (* RenderArgs(R_m, x).update(R_c, kw...)[R_c] *)
| SHold (x : nat) (r : hroute).

(** how [update] makes the copy *)
Inductive copy_policy :=
| CopyFields        (* _types.py:589-592: [__new__] + the base initialiser on the fields *)
| CopyViaCtor.      (* excluded: [type(self)(all fields as keywords)] *)

(** the excluded design: every field (by NAME) and the given ones as keywords of the class's
    own constructor *)
Definition update_via_ctor (dfl : list val) (u : option uctor) (f : list val) (kw : kwlist)
  : nres (option (list val)) :=
  match kw with
  | [] => NOk None
  | _ => match sconstruct dfl u ([], combine (seq 0 (length f)) f ++ kw) with
         | NErr e => NErr e
         | NOk f' => NOk (Some f')
         end
  end.

Definition copy_fields (pol : copy_policy) (cl : list (list val)) (sl : list scls) (s : nat)
           (f : list val) (kw : kwlist) : nres (option (list val)) :=
  match pol with
  | CopyFields => nupdate (sfields cl sl s) f kw
  | CopyViaCtor =>
    update_via_ctor (nth (base_of sl s) cl []) (ctor_of (snd (nth s sl (0, DPlain)))) f kw
  end.

(** heap objects are [(s, fields)] with [s] an index of the class table [sl] *)
Definition s_update (pol : copy_policy) (cl : list (list val)) (sl : list scls) (h : list nobj)
           (i s : nat) (f : list val) (kw : kwlist) : list nobj * nres rv :=
  match copy_fields pol cl sl s f kw with
  | NErr e => (h, NErr e)
  | NOk None => (h, NOk (RObj i))                                   (* :579-580 *)
  | NOk (Some f') => (h ++ [(s, f')], NOk (RObj (length h)))
  end.

Definition sstep_pol (pol : copy_policy) (cl : list (list val)) (sl : list scls)
           (h : list nobj) (env : list (nres rv)) (o : sop) : list nobj * nres rv :=
  let bad := (h, NErr NEBadOperand) in
  match o with
  | SNew s pos kw =>
    match nth_error sl s with
    | None => bad
    | Some (c, d) =>
      match nth_error cl c with
      | None => bad
      | Some dfl =>
        match sconstruct dfl (ctor_of d) (pos, kw) with
        | NErr e => (h, NErr e)
        | NOk f => (h ++ [(s, f)], NOk (RObj (length h)))
        end
      end
    end
  | SUpdate x kw =>
    match nlookup h env x with
    | None => bad
    | Some (i, (s, f)) => s_update pol cl sl h i s f kw
    end
  | SRaUpdate x m kw =>
    match nlookup h env x with
    | None => bad
    | Some (i, (s, f)) =>
      if length cl <=? m then bad
      else if m <? base_of sl s then (h, NErr NEIncompat)
      else s_update pol cl sl h i s f kw
    end
  | SHold x r =>
    match nlookup h env x with
    | None => bad
    | Some (i, (s, _)) =>
      match hold_ok (length cl) (base_of sl s) r with
      | NErr e => (h, NErr e)
      | NOk _ => (h, NOk (RObj i))             (* the set holds the very instance *)
      end
    end
  end.

(** the code *)
Definition sstep_op := sstep_pol CopyFields.

Definition sstep (cl : list (list val)) (sl : list scls) (st : nstate) (o : sop) : nstate :=
  let '(h', r) := sstep_op cl sl (fst st) (snd st) o in (h', snd st ++ [r]).
Definition srun_from (cl : list (list val)) (sl : list scls) (st : nstate) (p : list sop) : nstate :=
  fold_left (sstep cl sl) p st.
(** the shared default instances are instances of the associated classes themselves: entry
    [c] of [sl_full] *)
Definition srun (cl : list (list val)) (subs : list scls) (p : list sop) : nstate :=
  srun_from cl (sl_full cl subs) (nstate0 cl) p.

(** ** The documented rule, on values (no heap, no identity, no constructor in the copying
    routes): the result of an operation is a class and a list of field values *)

Definition spec_sop (cl : list (list val)) (sl : list scls) (senv : list (nres sv)) (o : sop)
  : nres sv :=
  let look x := match nth_error senv x with Some (NOk (SObj s f)) => Some (s, f) | _ => None end in
  match o with
  | SNew s pos kw =>
    match nth_error sl s with
    | None => NErr NEBadOperand
    | Some (c, d) =>
      match nth_error cl c with
      | None => NErr NEBadOperand
      | Some dfl =>
        (* the user constructor is the definition of what the class is constructed from *)
        let a := match ctor_of d with None => NOk (pos, kw) | Some g => g (pos, kw) end in
        match a with
        | NErr e => NErr e
        | NOk b => match spec_nctor dfl (fst b) (snd b) with
                   | NOk f => NOk (SObj s f) | NErr e => NErr e
                   end
        end
      end
    end
  | SUpdate x kw =>
    match look x with
    | None => NErr NEBadOperand
    | Some (s, f) =>
      match spec_nupdate (sfields cl sl s) f kw with NOk f' => NOk (SObj s f') | NErr e => NErr e end
    end
  | SRaUpdate x m kw =>
    match look x with
    | None => NErr NEBadOperand
    | Some (s, f) =>
      if length cl <=? m then NErr NEBadOperand
      else if negb (base_of sl s <=? m) then NErr NEIncompat
      else match spec_nupdate (sfields cl sl s) f kw with
           | NOk f' => NOk (SObj s f') | NErr e => NErr e
           end
    end
  | SHold x r =>
    match look x with
    | None => NErr NEBadOperand
    | Some (s, f) =>
      match hold_ok (length cl) (base_of sl s) r with
      | NErr e => NErr e
      | NOk _ => NOk (SObj s f)
      end
    end
  end.

Definition spec_srun_from (cl : list (list val)) (sl : list scls) (senv : list (nres sv))
           (p : list sop) : list (nres sv) :=
  fold_left (fun e o => e ++ [spec_sop cl sl e o]) p senv.
Definition spec_srun (cl : list (list val)) (subs : list scls) (p : list sop) : list (nres sv) :=
  spec_srun_from cl (sl_full cl subs) (senv0 cl) p.
