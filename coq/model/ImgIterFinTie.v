(** C11, round 8: judge of the stream-fault correspondence (harness part "sfault").
    One case = one animated draw() scenario; one row per position k at which the output
    stream starts refusing write()/flush() calls (k = -1: never).  Independent of
    gen/Skeletons.v on purpose: the judge must still build when the source tie fails. *)
From Coq Require Import List Bool Arith ZArith.
Import ListNotations.
From TI Require Import model.ImgIterFin.

Record sfrun := mksfrun {
  sr_k : Z;              (* the stream accepts k calls, then refuses; -1 = never refuses *)
  sr_raised : bool;      (* draw() raised *)
  sr_exc_ok : bool;      (* ... the stream's own exception (or nothing when nothing raised) *)
  sr_tell : nat;         (* image.tell() after the call *)
  sr_unclosed : Z;       (* images the library opened and did not close() *)
  sr_fd_after : Z;       (* descriptors held on behalf of the library right after the call *)
  sr_fd_end : Z;         (* descriptor balance after the image objects are gone *)
  sr_size_kept : bool;
  sr_pil_alive : bool    (* the caller's PIL image is still usable *)
}.

Record sfcase := mksfcase {
  sc_nframes : nat;
  sc_passes : nat;
  sc_pos0 : nat;         (* image.tell() before the call *)
  sc_total : nat;        (* write()/flush() calls of the fault-free run *)
  sc_runs : list sfrun
}.

Definition stream_of (k : Z) : stream := if (k <? 0)%Z then None else Some (Z.to_nat k).

(** model side: the code's clean-up order after a plain body with the observed number of
    stream calls (the shape of the body is immaterial: anim_draw_restores holds for every body) *)
Definition model_run (c : sfcase) (k : Z) : ast * bool :=
  let per := sc_total c - stream_calls_cleanup code_cleanup in
  anim_draw code_cleanup (BRender 0 :: repeat BStream per ++ plain_body (sc_passes c) (sc_nframes c) 0)
            (sc_pos0 c) (stream_of k).

(** specification side, a function of the observation alone: the current frame is the one
    before the call, nothing the library opened is left open, the caller's image and the size
    setting are untouched -- whatever the stream did *)
Definition spec_ok (c : sfcase) (r : sfrun) : bool :=
  (sr_tell r =? sc_pos0 c) && (sr_unclosed r =? 0)%Z && (sr_fd_after r =? 0)%Z && (sr_fd_end r =? 0)%Z
  && sr_size_kept r && sr_pil_alive r.

Definition model_ok (c : sfcase) (r : sfrun) : bool :=
  let '(s, raised) := model_run c (sr_k r) in
  Bool.eqb raised (sr_raised r) && (a_pos s =? sr_tell r) && sr_exc_ok r.

Definition check_sfrun (c : sfcase) (r : sfrun) : nat :=
  (if model_ok c r then 0 else 1) + (if spec_ok c r then 0 else 2).

Definition check_sfault (c : sfcase) : nat :=
  fold_right Nat.max 0 (map (check_sfrun c) (sc_runs c)).
