(** * RArgsVal — namespace-level operations over a universe of Python VALUES (C16)

    [model/RArgs.v] models sets of render arguments with integer field values.  The
    rejection rules of the namespace classes ("unknown fields are rejected", "a field given
    a value takes it") are statements about field NAMES; they must hold for EVERY field
    value, in particular for the values that interact with Python idioms ([None] as the
    "absent" marker of [dict.get], falsy values [0] / [False] / [""] / [()] under [or] and
    [if value], values that compare equal across types ([0 == False == 0.0]), objects that
    are unequal to themselves (NaN) under "unchanged?" tests).  This layer models the
    namespace-level operations of [src/term_image/renderable/_types.py] over such a
    universe:

    - [ArgsNamespace.__init__(values..., fields...)]      _types.py:337-360   [nctor]
    - [ArgsNamespace.update(fields...)]                 _types.py:567-594   [nupdate]
    - [RenderArgs.update(render_cls, **fields)]        _types.py:1216-1236 ([NRaUpdate])
    - [ArgsNamespace.__getattr__] / field access       _types.py:374-378   ([NGet])
    - [ArgsNamespace.as_dict]                          _types.py:511-529   (the heap entry)
    - [ArgsNamespace.__eq__] / [__hash__]              _types.py:386-425   [nobj_eq], [nobj_hash]

    Namespace classes: class [c] of the list [cl] has the default field values [nth c cl]
    and is associated with render class [R_c] of a chain [R_0 <- R_1 <- ...] (what
    [RenderArgs.update] needs).  A field is named by its position; a position past the end
    is an unknown name.  Namespace instances live in a heap (identity = position; the
    first [length cl] objects are the shared default instances [R_c._ALL_DEFAULT_ARGS[R_c]]).

    Definitions only; proofs are in [proofs/RArgsValProofs.v]. *)
From Coq Require Import List ZArith Bool Arith.
Import ListNotations.

(** ** The value universe *)

Inductive val :=
| VInt (z : Z)          (* an [int] *)
| VBool (b : bool)      (* [False] / [True]: [False == 0], [True == 1] *)
| VFloat (z : Z)        (* the [float] of integral value [z]: [1.0 == 1 == True] *)
| VNone
| VEllipsis
| VStr (k : nat)        (* the [k]-th string of a fixed table of distinct strings; 0 = [""] *)
| VEmptyTuple
| VNan (i : nat).       (* the [i]-th NaN-like object: [x != x], hashable (by identity) *)

(** exactly the same Python value (same type, same value; the same OBJECT for NaN) *)
Definition val_eqb (a b : val) : bool :=
  match a, b with
  | VInt x, VInt y => Z.eqb x y
  | VBool x, VBool y => Bool.eqb x y
  | VFloat x, VFloat y => Z.eqb x y
  | VNone, VNone => true
  | VEllipsis, VEllipsis => true
  | VStr x, VStr y => Nat.eqb x y
  | VEmptyTuple, VEmptyTuple => true
  | VNan x, VNan y => Nat.eqb x y
  | _, _ => false
  end.

(** the numeric tower: [bool] is a subclass of [int], [int] and [float] compare by value *)
Definition num (v : val) : option Z :=
  match v with
  | VInt z => Some z
  | VBool b => Some (if b then 1 else 0)%Z
  | VFloat z => Some z
  | _ => None
  end.

(** Python's [a == b] (the operator: NO identity shortcut, so a NaN is unequal to itself) *)
Definition py_eq (a b : val) : bool :=
  match num a, num b with
  | Some x, Some y => Z.eqb x y
  | None, None =>
    match a, b with
    | VNone, VNone => true
    | VEllipsis, VEllipsis => true
    | VStr x, VStr y => Nat.eqb x y
    | VEmptyTuple, VEmptyTuple => true
    | _, _ => false                    (* in particular [VNan i] with anything, itself included *)
    end
  | _, _ => false
  end.

(** what [hash(v)] depends on: numbers hash by value ([hash(False) == hash(0) == hash(0.0)]),
    a NaN-like object by identity, the others by themselves *)
Definition hkey (v : val) : val :=
  match num v with Some z => VInt z | None => v end.

Definition is_nan (v : val) : bool := match v with VNan _ => true | _ => false end.

Fixpoint vl_eqb (a b : list val) : bool :=
  match a, b with
  | [], [] => true
  | x :: a', y :: b' => val_eqb x y && vl_eqb a' b'
  | _, _ => false
  end.

(** [all(getattr(self, name) == getattr(other, name) for name in type(self)._FIELDS)] for
    two instances with the same fields *)
Fixpoint vl_pyeq (a b : list val) : bool :=
  match a, b with
  | [], [] => true
  | x :: a', y :: b' => py_eq x y && vl_pyeq a' b'
  | _, _ => false
  end.

(** ** Constructor and field update on field lists *)

Definition kwlist := list (nat * val).       (* keyword arguments: (field position, value) *)

Inductive nerr :=
| NEType          (* TypeError *)
| NEUnknown       (* UnknownArgsFieldError *)
| NEIncompat      (* IncompatibleArgsNamespaceError *)
| NEBadOperand.   (* the operand is not a live namespace: cannot be written in Python *)

Inductive nres (A : Type) := NOk (a : A) | NErr (e : nerr).
Arguments NOk {A} a.
Arguments NErr {A} e.

Fixpoint vset (l : list val) (n : nat) (v : val) : list val :=
  match l, n with
  | [], _ => []
  | _ :: r, 0 => v :: r
  | x :: r, S m => x :: vset r m v
  end.

(** [d.update(kw)] on a dictionary whose keys are the field positions *)
Definition apply_kw (f : list val) (kw : kwlist) : list val :=
  fold_left (fun acc p => vset acc (fst p) (snd p)) kw f.

(** [fields.keys() - _FIELDS.keys()] is non-empty *)
Definition has_unknown (nf : nat) (kw : kwlist) : bool := existsb (fun p => nf <=? fst p) kw.

(** [ArgsNamespace.__init__], _types.py:337-360 *)
Definition nctor (dfl pos : list val) (kw : kwlist) : nres (list val) :=
  let nf := length dfl in
  if nf <? length pos then NErr NEType                               (* :340-344 *)
  else
    (* value_fields = dict(zip(default_fields, values))                 :345 *)
    let value_fields := combine (seq 0 (length pos)) pos in
    if has_unknown nf kw then NErr NEUnknown                         (* :347-352 *)
    else if existsb (fun p => fst p <? length pos) kw then NErr NEType   (* :353-358 *)
    else NOk (apply_kw (apply_kw dfl value_fields) kw).              (* :360 *)

(** [ArgsNamespace.update], _types.py:579-594; [None] = [self] is returned (:579-580) *)
Definition nupdate (nf : nat) (f : list val) (kw : kwlist) : nres (option (list val)) :=
  match kw with
  | [] => NOk None
  | _ => if has_unknown nf kw then NErr NEUnknown                    (* :582-587 *)
         else NOk (Some (apply_kw f kw))                             (* :589-592 *)
  end.

(** ** Programs on a heap of namespace instances *)

Definition nobj := (nat * list val)%type.      (* (namespace class, field values = as_dict) *)

Inductive rv := RObj (i : nat) | RVal (v : val).

Inductive nop :=
| NCtor (c : nat) (pos : list val) (kw : kwlist)      (* Args_c(pos..., kw...) *)
| NUpdate (x : nat) (kw : kwlist)                     (* x.update(kw...) *)
| NRaUpdate (x m : nat) (kw : kwlist)                 (* RenderArgs(R_m, x).update(R_c, kw...)[R_c] *)
| NGet (x j : nat).                                   (* getattr(x, name_j) *)

Definition nlookup (h : list nobj) (env : list (nres rv)) (x : nat) : option (nat * nobj) :=
  match nth_error env x with
  | Some (NOk (RObj i)) =>
    match nth_error h i with Some o => Some (i, o) | None => None end
  | _ => None
  end.

Definition nfields (cl : list (list val)) (c : nat) : nat := length (nth c cl []).

(** the result of [x.update(kw...)] for the live instance [i] = [(c, f)] *)
Definition do_update (cl : list (list val)) (h : list nobj) (i c : nat) (f : list val)
           (kw : kwlist) : list nobj * nres rv :=
  match nupdate (nfields cl c) f kw with
  | NErr e => (h, NErr e)
  | NOk None => (h, NOk (RObj i))
  | NOk (Some f') => (h ++ [(c, f')], NOk (RObj (length h)))
  end.

Definition nstep_op (cl : list (list val)) (h : list nobj) (env : list (nres rv)) (o : nop)
  : list nobj * nres rv :=
  let bad := (h, NErr NEBadOperand) in
  match o with
  | NCtor c pos kw =>
    match nth_error cl c with
    | None => bad
    | Some dfl =>
      match nctor dfl pos kw with
      | NErr e => (h, NErr e)
      | NOk f => (h ++ [(c, f)], NOk (RObj (length h)))
      end
    end
  | NUpdate x kw =>
    match nlookup h env x with
    | None => bad
    | Some (i, (c, f)) => do_update cl h i c f kw
    end
  | NRaUpdate x m kw =>
    match nlookup h env x with
    | None => bad
    | Some (i, (c, f)) =>
      if length cl <=? m then bad
      (* RenderArgs(R_m, x): x is compatible iff R_c is R_m or one of its ancestors
         (_types.py:979-986) *)
      else if m <? c then (h, NErr NEIncompat)
      (* self[R_c] is x; RenderArgs(R_m, self, x.update(kw...)) holds that very instance for
         R_c (_types.py:1232-1236, 979-986) *)
      else do_update cl h i c f kw
    end
  | NGet x j =>
    match nlookup h env x with
    | None => bad
    | Some (_, (c, f)) =>
      if j <? nfields cl c then (h, NOk (RVal (nth j f VNone)))
      else (h, NErr NEUnknown)                                       (* __getattr__ :374-378 *)
    end
  end.

Definition nstate := (list nobj * list (nres rv))%type.

(** the shared default instances: one per class, in class order *)
Fixpoint heap_of (c : nat) (cl : list (list val)) : list nobj :=
  match cl with [] => [] | d :: r => (c, d) :: heap_of (S c) r end.
Definition nstate0 (cl : list (list val)) : nstate :=
  (heap_of 0 cl, map (fun i => NOk (RObj i)) (seq 0 (length cl))).

Definition nstep (cl : list (list val)) (s : nstate) (o : nop) : nstate :=
  let '(h', r) := nstep_op cl (fst s) (snd s) o in (h', snd s ++ [r]).
Definition nrun_from (cl : list (list val)) (s : nstate) (p : list nop) : nstate :=
  fold_left (nstep cl) p s.
Definition nrun (cl : list (list val)) (p : list nop) : nstate := nrun_from cl (nstate0 cl) p.

(** [ArgsNamespace.__eq__], _types.py:386-402 (instances [i], [j] of the heap) *)
Definition nobj_eq (h : list nobj) (i j : nat) : bool :=
  match nth_error h i, nth_error h j with
  | Some (c, f), Some (c', f') => Nat.eqb i j || (Nat.eqb c c' && vl_pyeq f f')
  | _, _ => false
  end.

(** [ArgsNamespace.__hash__], _types.py:404-425: what the tuple handed to [hash()] depends on *)
Definition nobj_hash (h : list nobj) (i : nat) : option (nat * list val) :=
  match nth_error h i with Some (c, f) => Some (c, map hkey f) | None => None end.

(** ** The documented rule, on VALUES (no heap, no identity)

    "The keywords must be names of render argument fields"; "If no value is given for a
    field, its default value is used"; [update]: "a namespace with the given fields
    updated".  Stated field by field: the value of field [j] is the value given for it by
    keyword, else by position, else the default / the previous value. *)

Inductive sv := SObj (c : nat) (f : list val) | SVal (v : val).

(** the value given for field [j] by keyword (keywords are distinct in a Python call; for
    the sake of totality the last one wins) *)
Fixpoint kw_last (j : nat) (kw : kwlist) : option val :=
  match kw with
  | [] => None
  | (k, v) :: r => match kw_last j r with
                   | Some w => Some w
                   | None => if Nat.eqb k j then Some v else None
                   end
  end.

Definition fields_by_rule (nf : nat) (base : nat -> val) (kw : kwlist) : list val :=
  map (fun j => match kw_last j kw with Some v => v | None => base j end) (seq 0 nf).

Definition all_known (nf : nat) (kw : kwlist) : bool := forallb (fun p => fst p <? nf) kw.

Definition spec_nctor (dfl pos : list val) (kw : kwlist) : nres (list val) :=
  let nf := length dfl in
  let nv := length pos in
  if nf <? nv then NErr NEType                       (* more values than fields *)
  else if negb (all_known nf kw) then NErr NEUnknown (* unknown field name(s) *)
  else if negb (forallb (fun p => nv <=? fst p) kw) then NErr NEType   (* multiple values *)
  else NOk (fields_by_rule nf (fun j => if j <? nv then nth j pos VNone else nth j dfl VNone) kw).

Definition spec_nupdate (nf : nat) (f : list val) (kw : kwlist) : nres (list val) :=
  if negb (all_known nf kw) then NErr NEUnknown
  else NOk (fields_by_rule nf (fun j => nth j f VNone) kw).

Definition spec_nop (cl : list (list val)) (senv : list (nres sv)) (o : nop) : nres sv :=
  let look x := match nth_error senv x with Some (NOk (SObj c f)) => Some (c, f) | _ => None end in
  match o with
  | NCtor c pos kw =>
    match nth_error cl c with
    | None => NErr NEBadOperand
    | Some dfl => match spec_nctor dfl pos kw with NOk f => NOk (SObj c f) | NErr e => NErr e end
    end
  | NUpdate x kw =>
    match look x with
    | None => NErr NEBadOperand
    | Some (c, f) =>
      match spec_nupdate (nfields cl c) f kw with NOk f' => NOk (SObj c f') | NErr e => NErr e end
    end
  | NRaUpdate x m kw =>
    match look x with
    | None => NErr NEBadOperand
    | Some (c, f) =>
      if length cl <=? m then NErr NEBadOperand
      else if negb (c <=? m) then NErr NEIncompat
      else match spec_nupdate (nfields cl c) f kw with
           | NOk f' => NOk (SObj c f') | NErr e => NErr e
           end
    end
  | NGet x j =>
    match look x with
    | None => NErr NEBadOperand
    | Some (c, f) => if j <? nfields cl c then NOk (SVal (nth j f VNone)) else NErr NEUnknown
    end
  end.

Definition senv0 (cl : list (list val)) : list (nres sv) :=
  map (fun c => NOk (SObj c (nth c cl []))) (seq 0 (length cl)).
Definition spec_nrun_from (cl : list (list val)) (senv : list (nres sv)) (p : list nop)
  : list (nres sv) :=
  fold_left (fun e o => e ++ [spec_nop cl e o]) p senv.
Definition spec_nrun (cl : list (list val)) (p : list nop) : list (nres sv) :=
  spec_nrun_from cl (senv0 cl) p.

(** [==] by the documented rule, for two DISTINCT instances: "both operands are associated
    with the same render class and have equal field values" *)
Definition sv_eq (a b : sv) : bool :=
  match a, b with
  | SObj c f, SObj c' f' => Nat.eqb c c' && vl_pyeq f f'
  | _, _ => false
  end.

(** embedding of the integer field values of [model/RArgs.v] *)
Definition of_Z (z : Z) : val := VInt z.
Definition kw_of_Z (fields : list (nat * Z)) : kwlist := map (fun p => (fst p, VInt (snd p))) fields.
