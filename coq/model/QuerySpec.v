(** C12 — specification side: a terminal PROFILE (structured: which queries it answers,
    with what), the replies such a terminal writes (printers, following the grammars of
    XParseColor / XTVERSION / XTWINOPS / DA1 / the kitty graphics protocol), and what the
    library has to report for it according to the property and the documented rules.
    Nothing here looks at reply BYTES: expectations are functions of the profile. *)
From Coq Require Import Ascii String List ZArith Bool Arith.
Import ListNotations.
From TI Require Import model.Query.
Open Scope Z_scope.

(** one reply: well-formed (structured) or arbitrary bytes (outside the property's hypothesis) *)
Inductive reply (A : Type) := Wf (a : A) | Raw (b : list byte).
Arguments Wf {A} a.
Arguments Raw {A} b.

Record rgb_reply := {
  c_r : list byte; c_g : list byte; c_b : list byte;  (* hex digits of each component *)
  c_bel : bool                                         (* BEL instead of ST *)
}.
Record xtv_reply := {
  x_name : list byte; x_open : bool (* "(" or " " *); x_ver : list byte;
  x_close : bool (* ")" present *); x_bel : bool
}.
Record kitty_reply := { k_id : list byte; k_num : option (list byte); k_msg : list byte }.

Record profile := {
  p_xtv : option (reply xtv_reply);
  p_fg : option (reply rgb_reply);
  p_bg : option (reply rgb_reply);
  p_cell : option (reply (list byte * list byte));   (* height digits, width digits *)
  p_area : option (reply (list byte * list byte));
  p_kitty : option (reply kitty_reply);
  p_da1 : option (reply (list byte))                 (* parameter bytes after "?" *)
}.

(** ** printers *)
Definition terminator (bel : bool) : list byte := if bel then [BEL] else ST.

Definition print_rgb (n : list byte) (r : rgb_reply) : list byte :=
  OSC ++ n ++ bs ";rgb:" ++ c_r r ++ [47] ++ c_g r ++ [47] ++ c_b r ++ terminator (c_bel r).
Definition print_xtv (x : xtv_reply) : list byte :=
  DCS ++ bs ">|" ++ x_name x ++ [if x_open x then 40 else 32] ++ x_ver x
      ++ (if x_close x then [41] else []) ++ terminator (x_bel x).
Definition print_winops (n : byte) (hw : list byte * list byte) : list byte :=
  CSI ++ [n; 59] ++ fst hw ++ [59] ++ snd hw ++ [116].
Definition print_kitty (k : kitty_reply) : list byte :=
  APC ++ bs "Gi=" ++ k_id k ++ match k_num k with Some n => bs ",I=" ++ n | None => [] end
      ++ [59] ++ k_msg k ++ ST.
Definition print_da1 (ps : list byte) : list byte := CSI ++ [63] ++ ps ++ [99].

Definition print {A} (f : A -> list byte) (r : reply A) : list byte :=
  match r with Wf a => f a | Raw b => b end.

(** ** well-formedness (the property's "one well-formed reply") *)
Definition nonempty {A} (l : list A) : bool := negb (is_nil l).
Definition wf_comp (c : list byte) : bool :=
  nonempty c && (length c <=? 4)%nat && forallb is_hex c.
Definition wf_rgb (r : rgb_reply) : bool := wf_comp (c_r r) && wf_comp (c_g r) && wf_comp (c_b r).
Definition wf_xtv (x : xtv_reply) : bool :=
  nonempty (x_name x) && forallb is_word (x_name x) &&
  nonempty (x_ver x) && forallb ver_char (x_ver x).
Definition wf_digits (d : list byte) : bool := nonempty d && forallb is_digit d.
Definition wf_winops (hw : list byte * list byte) : bool := wf_digits (fst hw) && wf_digits (snd hw).
(** message: printable, i.e. no ESC and no newline *)
Definition wf_kitty (k : kitty_reply) : bool :=
  wf_digits (k_id k) && match k_num k with Some n => wf_digits n | None => true end &&
  nonempty (k_msg k) && forallb (fun b => negb (b =? 27) && negb (b =? 10)) (k_msg k).
Definition wf_da1 (ps : list byte) : bool := forallb (fun b => is_digit b || (b =? 59)) ps.

Definition wf_reply {A} (f : A -> bool) (r : option (reply A)) : bool :=
  match r with None => true | Some (Wf a) => f a | Some (Raw _) => false end.
Definition wf_profile (p : profile) : bool :=
  wf_reply wf_xtv (p_xtv p) && wf_reply wf_rgb (p_fg p) && wf_reply wf_rgb (p_bg p) &&
  wf_reply wf_winops (p_cell p) && wf_reply wf_winops (p_area p) &&
  wf_reply wf_kitty (p_kitty p) && wf_reply wf_da1 (p_da1 p).

(** ** the terminal of a profile: each query of the request answered in order *)
Inductive qkind := QXtv | QFg | QBg | QCell | QArea | QKitty | QDa1.
Definition queries : list (qkind * list byte) :=
  [ (QXtv, XTVERSION_q); (QDa1, DA1_q); (QFg, TEXT_FG_q); (QBg, TEXT_BG_q);
    (QCell, CELL_SIZE_PX_q); (QArea, TEXT_AREA_SIZE_PX_q); (QKitty, KITTY_SUPPORT_q) ].

Definition query_at (s : list byte) : option (qkind * nat) :=
  match filter (fun q => starts_with (snd q) s) queries with
  | (k, q) :: _ => Some (k, length q)
  | [] => None
  end.
Fixpoint tokenize (s : list byte) (skip : nat) : list qkind :=
  match s with
  | [] => []
  | _ :: r =>
      match skip with
      | S k => tokenize r k
      | O => match query_at s with
             | Some (q, len) => q :: tokenize r (Nat.pred len)
             | None => tokenize r 0
             end
      end
  end.

Definition opt_unit {A} (f : A -> list byte) (r : option (reply A)) : list (list byte) :=
  match r with Some x => [print f x] | None => [] end.
Definition answer (p : profile) (q : qkind) : list (list byte) :=
  match q with
  | QXtv => opt_unit print_xtv (p_xtv p)
  | QFg => opt_unit (print_rgb (bs "10")) (p_fg p)
  | QBg => opt_unit (print_rgb (bs "11")) (p_bg p)
  | QCell => opt_unit (print_winops 54) (p_cell p)
  | QArea => opt_unit (print_winops 52) (p_area p)
  | QKitty => opt_unit print_kitty (p_kitty p)
  | QDa1 => opt_unit print_da1 (p_da1 p)
  end.
(** the replies (one unit each) to a request *)
Definition units (p : profile) (request : list byte) : list (list byte) :=
  flat_map (answer p) (tokenize request 0).

(** a terminal that writes each reply as a unit, the j-th one [nth j delays 0] ticks after
    the request *)
Fixpoint zip_units (delays : list Z) (us : list (list byte)) : schedule :=
  match us with
  | [] => []
  | u :: r => (hd 0 delays, u) :: zip_units (tl delays) r
  end.
Definition profile_terminal (p : profile) (delays : list byte -> list Z) : terminal :=
  fun request => zip_units (delays request) (units p request).

(** ** what must be reported *)

(** value of a hexadecimal numeral, most significant digit first (positional definition) *)
Definition hex_digit (b : byte) : Z :=
  match find (fun p => fst p =? b)
             (combine (bs "0123456789abcdefABCDEF")
                      [0;1;2;3;4;5;6;7;8;9;10;11;12;13;14;15;10;11;12;13;14;15]) with
  | Some (_, v) => v
  | None => 0
  end.
Fixpoint hex_value (ds : list byte) : Z :=
  match ds with
  | [] => 0
  | d :: r => hex_digit d * 16 ^ Z.of_nat (length r) + hex_value r
  end.
(** an n-digit component v means the fraction v / (16^n - 1) of full intensity; reported on
    the 0..255 scale, rounded down *)
Definition exp_comp (ds : list byte) : Z := hex_value ds * 255 / (16 ^ Z.of_nat (length ds) - 1).
Definition exp_rgb (r : rgb_reply) : rgb := (exp_comp (c_r r), exp_comp (c_g r), exp_comp (c_b r)).

Definition wf_of {A} (r : option (reply A)) : option A :=
  match r with Some (Wf a) => Some a | _ => None end.

Definition exp_fg_bg (cfg : config) (p : profile) : option rgb * option rgb :=
  if enabled cfg
  then (option_map exp_rgb (wf_of (p_fg p)), option_map exp_rgb (wf_of (p_bg p)))
  else (None, None).

(** name lower-cased and version as replied; the environment's TERM_PROGRAM /
    TERM_PROGRAM_VERSION when the terminal does not answer or queries are disabled *)
Definition exp_name_version (cfg : config) (p : profile) : option (list byte) * option (list byte) :=
  match (if enabled cfg then wf_of (p_xtv p) else None) with
  | Some x => (Some (lower (x_name x)), Some (x_ver x))
  | None => (option_map lower (env_name cfg), env_version cfg)
  end.

(** cell size on a cache miss, for a window of at least 1x1 cells: the ioctl's pixel size if
    it has no zero, else the replied cell size (XTWINOPS reports height;width), else the
    replied text-area size divided by the window size in cells (swapped first when the
    window-size-swap workaround is on); undetermined when a dimension comes out as 0 *)
Definition exp_cell (cfg : config) (p : profile) : cell_result :=
  let div_cells (wh : Z * Z) :=
      let wh' := if swap cfg then (snd wh, fst wh) else wh in
      cell_ret (fst wh' / ws_cols cfg, snd wh' / ws_rows cfg) in
  if ioctl_ok cfg && negb (ws_xpix cfg =? 0) && negb (ws_ypix cfg =? 0)
  then div_cells (ws_xpix cfg, ws_ypix cfg)
  else if negb (enabled cfg) then CsNone
  else match wf_of (p_cell p) with
       | Some (h, w) => cell_ret (dec_int w, dec_int h)
       | None =>
           match wf_of (p_area p) with
           | Some (h, w) => div_cells (dec_int w, if termux cfg then dec_int h * 2 else dec_int h)
           | None => CsNone
           end
       end.

(** the documented rules (kitty.py:168-173 "Kitty >= 0.20.0, Konsole"; iterm2.py:246-252
    "iTerm2, Konsole >= 22.04.0, WezTerm"), on dotted decimal versions *)
Inductive lex_lt : list Z -> list Z -> Prop :=
| lex_nil : forall y b, lex_lt [] (y :: b)
| lex_head : forall x y a b, x < y -> lex_lt (x :: a) (y :: b)
| lex_tail : forall x a b, lex_lt a b -> lex_lt (x :: a) (x :: b).
Definition lex_ge (a b : list Z) : Prop := ~ lex_lt a b.

Definition dotted (v : list byte) (t : list Z) : Prop := version_tuple v = Some t.

Definition kitty_rule_prop (name version : option (list byte)) (graphics_ok : bool) : Prop :=
  graphics_ok = true /\
  ((name = Some (bs "kitty") /\ exists v t, version = Some v /\ dotted v t /\ lex_ge t [0; 20; 0])
   \/ name = Some (bs "konsole")).

Definition iterm2_rule_prop (name version : option (list byte)) : Prop :=
  name = Some (bs "iterm2") \/ name = Some (bs "wezterm") \/
  (name = Some (bs "konsole") /\ exists v t, version = Some v /\ dotted v t /\ lex_ge t [22; 4; 0]).

(** executable versions for the correspondence *)
Definition graphics_ok_of (cfg : config) (p : profile) : bool :=
  enabled cfg &&
  match wf_of (p_kitty p) with
  | Some k => beq (k_id k) (bs "31") && beq (k_msg k) (bs "OK")
  | None => false
  end.
Definition version_ge (version : option (list byte)) (min : list Z) : bool :=
  match version with
  | Some v => match version_tuple v with Some t => tuple_geb t min | None => false end
  | None => false
  end.
Definition exp_kitty (cfg : config) (p : profile) : bool :=
  let (name, version) := exp_name_version cfg p in
  graphics_ok_of cfg p &&
  ((name_is name "kitty" && version_ge version [0; 20; 0]) || name_is name "konsole").
Definition exp_iterm2 (cfg : config) (p : profile) : bool :=
  let (name, version) := exp_name_version cfg p in
  name_is name "iterm2" || name_is name "wezterm" ||
  (name_is name "konsole" && version_ge version [22; 4; 0]).
Definition exp_auto (cfg : config) (p : profile) : style :=
  if exp_kitty cfg p then Kitty else if exp_iterm2 cfg p then Iterm2 else Block.

(** ** one cache epoch: every call of the colour getter reports the profile's colours in the
    representation that THIS call asked for ("#rrggbb" when hex=True, an RGB triple
    otherwise), whatever was asked before; every call of the name/version getter reports the
    profile's identity.  Independent of the model's memo. *)
Definition lc_hex_digit (d : Z) : byte := nth (Z.to_nat d) (bs "0123456789abcdef") 63.
(** two hexadecimal digits of a value in 0..255, most significant first *)
Definition two_hex (v : Z) : list byte := [lc_hex_digit (v / 16); lc_hex_digit (v - 16 * (v / 16))].
Definition hash_rgb (c : rgb) : list byte :=
  let '(r, g, b) := c in bs "#" ++ two_hex r ++ two_hex g ++ two_hex b.
Definition exp_colours (cfg : config) (p : profile) (hex : bool) : colour_value :=
  let (fg, bg) := exp_fg_bg cfg p in
  if hex then VHex (option_map hash_rgb fg, option_map hash_rgb bg) else VRgb (fg, bg).
Definition exp_call (cfg : config) (p : profile) (call : scall) : sres :=
  match call with
  | SFg f => RFg (Some (exp_colours cfg p (match f with FDefault => false | FHex h => h end)))
  | SNv => let (n, v) := exp_name_version cfg p in RNv n v
  end.
