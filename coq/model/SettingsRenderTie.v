(** Executable comparison used by the C20 correspondence for histories with renders:
    runs [SettingsRender.rtrace] (model) and [SettingsRender.spec_rtrace] (the documented
    rule on the history alone) and compares both with what the real renders showed. *)
From Coq Require Import List ZArith Bool Arith.
Import ListNotations.
From TI Require Import model.Settings model.SettingsTie model.SettingsRender.

Record rcase := {
  r_n : Z;                (* number of render methods the style implements *)
  r_par : list nat;       (* parent of each class, creation order *)
  r_icls : list nat;      (* class of each instance *)
  r_anim : list bool;     (* per instance: the source is animated *)
  r_size : list Z;        (* per instance: size in bytes of the source's data *)
  r_ops : list rop;
  r_obs : list (list Z)   (* per render: [method used; warning issued] *)
}.

Definition rout_row (r : rout) : list Z := [used r; if warned r then 1 else 0]%Z.

(** 0 = agrees with model and spec; 1 = differs from the model only;
    2 = the observed renders contradict the specification (property fails); 3 = both *)
Definition rcheck (t : rcase) : nat :=
  let k := k_render_method (r_n t) in
  let par := parf (r_par t) in
  let icls := parf (r_icls t) in
  let src := {| s_animated := fun i => nth i (r_anim t) false;
                s_size := fun i => nth i (r_size t) 0%Z |} in
  let ok_model :=
      zll_eqb (map rout_row (rtrace k par icls src (rinit k) (r_ops t))) (r_obs t) in
  let ok_spec :=
      zll_eqb (map rout_row (spec_rtrace k par icls src [] (r_ops t))) (r_obs t) in
  (if ok_model then 0 else 1) + (if ok_spec then 0 else 2).

Definition rbad (cases : list rcase) : list (nat * nat) :=
  filter (fun p => negb (Nat.eqb (snd p) 0)) (index_from 0 (map rcheck cases)).
