(** * TrimIter — [UrwidImageCanvas.content] as a GENERATOR; several live requests on one canvas

    [content(trim_left, trim_top, cols, rows)] is a Python generator ([widget/_urwid.py:261-412]):
    nothing runs when it is called; at the first [next()] the prologue computes the request's
    own trim layout into LOCALS of that generator frame (:262-356) and the first row is
    yielded; every later [next()] resumes after the [yield] and produces the next row from
    those locals.  urwid keeps SEVERAL such generators of one canvas alive at once and
    advances them alternately: on every screen row where a widget is laid over an image,
    [CompositeCanvas.content] / [shard_body_row] call [next()] on the iterator of the part
    left of the overlay, on the overlay's, and on the iterator of the part right of it.

    [plan_of]   = the prologue: (horizontal layout, the row sources still to be emitted)
    [emit]      = the body of one loop iteration (padding row / image row / graphics row)
    [istate], [step]  = one generator: not started / suspended at a [yield] / finished
    [run]       = several generators of ONE (immutable) canvas advanced by a schedule
    [run_shared] = the EXCLUDED design in which the horizontal layout lives on the canvas
                  object and is overwritten by whichever request started last
                  (NOT what the code does; refuted in [proofs/TrimIterProofs.v]).

    Definitions only. *)
From Coq Require Import List ZArith Bool.
Import ListNotations.
From TI Require Import lib.Term model.Trim model.TrimCanvas.
Open Scope Z_scope.

(** a request: [content(trim_left, trim_top, cols, rows)] *)
Record req := { r_tl : Z; r_tt : Z; r_cols : option Z; r_rows : option Z }.

(** a yielded row: tokens and the number of disguise pairs appended (as [TrimCanvas.content]) *)
Definition row := (list tok * nat)%type.

(** the horizontal layout of a text request, :311-347: image width, [pad_left],
    [pad_right + 2], [new_pad_left], [trim_image_left], [trim_image_right], [new_pad_right] *)
Record hori := { h_w : Z; h_pl : Z; h_pr2 : Z; h_npl : Z; h_til : Z; h_tir : Z; h_npr : Z }.

Definition hori0 : hori := {| h_w := 0; h_pl := 0; h_pr2 := 0; h_npl := 0; h_til := 0; h_tir := 0; h_npr := 0 |}.

(** what one loop iteration works from: a row that is already complete (padding rows :359-360 /
    :395-396, untrimmed-width rows :281-282, graphics rows :398-400 / :411-412), or a line of the
    image that is still to be trimmed horizontally by the request's layout (:363-392) *)
Inductive src := SConst (r : row) | SImage (line : list tok).

Definition is_image (s : src) : bool := match s with SImage _ => true | SConst _ => false end.

Definition emit (hl : hori) (s : src) : row :=
  match s with
  | SConst r => r
  | SImage line =>
    (text_image_row (h_w hl) (h_pl hl) (h_pr2 hl) (h_npl hl) (h_til hl) (h_tir hl) (h_npr hl) line, O)
  end.

(** the prologue for a text image, :262-356 (same lets as [Trim.content_text]) *)
Definition plan_text (ha va : nat) (W H w h : Z) (lines : list (list tok))
           (trim_left trim_top : Z) (cols rows : option Z) : hori * list src :=
  let visible_rows := py_or rows H in
  let trim_bottom := H - trim_top - visible_rows in
  let visible_cols := py_or cols W in
  let trim_right := W - trim_left - visible_cols in
  if (trim_left =? 0) && (0 =? trim_right) then
    (hori0, map (fun line => SConst (strip_nul line ++ [TNul; TNul], O))
                (py_slice lines trim_top (neg_or_none trim_bottom)))
  else
    let '(pad_top, pad_bottom) := align_pads va (H - h) in
    let '(npt, tit, tib, npb) :=
        calc_trim H h trim_top pad_top trim_bottom pad_bottom in
    let image_is_empty := (h =? tit) || (h =? tib) in
    let image_is_partial := negb (tit =? h) && negb (h =? tib) in
    let padding_line := spaces visible_cols ++ [TNul; TNul] in
    let '(pad_left, pad_right) := align_pads ha (W - w) in
    let '(npl, til, tir, npr) :=
        calc_trim W w trim_left pad_left trim_right pad_right in
    let pad_right2 := pad_right + 2 in
    let image_lines :=
        if image_is_empty then []
        else
          let il := py_slice lines pad_top (neg_or_none pad_bottom) in
          if image_is_partial then py_slice il tit (neg_or_none tib) else il in
    ({| h_w := w; h_pl := pad_left; h_pr2 := pad_right2; h_npl := npl; h_til := til; h_tir := tir;
        h_npr := npr |},
     map SConst (repeat (padding_line, O) (Z.to_nat npt))
     ++ map SImage image_lines
     ++ map SConst (repeat (padding_line, O) (Z.to_nat npb))).

(** the prologue for any canvas; the disguise of graphics rows is read once, here (:402-410) *)
Definition plan_of (cv : canvas) (lv : live) (rq : req) : hori * list src :=
  let '(W, H) := cv_size cv in
  let '(w, h) := cv_image_size cv in
  let '(ha, va) := cv_align cv in
  if cv_gfx cv then
    (hori0, map SConst (content_gfx W H (cv_lines cv) (lv_disguise lv)
                                    (r_tl rq) (r_tt rq) (r_cols rq) (r_rows rq)))
  else plan_text ha va W H w h (cv_lines cv) (r_tl rq) (r_tt rq) (r_cols rq) (r_rows rq).

(** ** one generator *)
Inductive istate :=
| Fresh (rq : req)                         (* created, [next()] not yet called *)
| Running (hl : hori) (todo : list src)    (* suspended at a [yield]; its locals *)
| Done.                                    (* returned: every further [next()] raises StopIteration *)

(** [next()]: [None] = StopIteration *)
Definition step (cv : canvas) (lv : live) (s : istate) : option row * istate :=
  match s with
  | Fresh rq =>
    let '(hl, todo) := plan_of cv lv rq in
    match todo with [] => (None, Done) | x :: r => (Some (emit hl x), Running hl r) end
  | Running hl [] => (None, Done)
  | Running hl (x :: r) => (Some (emit hl x), Running hl r)
  | Done => (None, Done)
  end.

(** ** several generators of one canvas *)
Fixpoint upd {A} (i : nat) (x : A) (l : list A) : list A :=
  match l, i with
  | [], _ => []
  | _ :: r, O => x :: r
  | y :: r, S k => y :: upd k x r
  end.

(** [sched]: which generator each successive [next()] goes to; the result: (generator, what
    that [next()] returned) in order.  (A [next()] on a generator that does not exist is not a
    call.) *)
Fixpoint run (cv : canvas) (lv : live) (sts : list istate) (sched : list nat) : list (nat * option row) :=
  match sched with
  | [] => []
  | i :: rest =>
    match nth_error sts i with
    | None => run cv lv sts rest
    | Some s => let '(o, s') := step cv lv s in (i, o) :: run cv lv (upd i s' sts) rest
    end
  end.

(** what generator [i] received, in order *)
Definition received {A} (i : nat) (evs : list (nat * A)) : list A :=
  map snd (filter (fun e => Nat.eqb (fst e) i) evs).

(** what a generator yields when it is the only one and is run to the end: the [k]-th [next()] *)
Definition alone (cv : canvas) (lv : live) (rq : req) (k : nat) : option row :=
  nth_error (content cv lv (r_tl rq) (r_tt rq) (r_cols rq) (r_rows rq)) k.

(** ** the excluded design: the layout is an attribute of the canvas

    The prologue stores the request's horizontal layout ON THE CANVAS (when there are image
    lines to trim) and every image row is produced from whatever layout the canvas holds at
    that moment. *)
Definition step_shared (cv : canvas) (lv : live) (shared : hori) (s : istate)
  : option row * istate * hori :=
  match s with
  | Fresh rq =>
    let '(hl, todo) := plan_of cv lv rq in
    let shared' := if existsb is_image todo then hl else shared in
    match todo with
    | [] => (None, Done, shared')
    | x :: r => (Some (emit shared' x), Running hl r, shared')
    end
  | Running hl [] => (None, Done, shared)
  | Running hl (x :: r) => (Some (emit shared x), Running hl r, shared)
  | Done => (None, Done, shared)
  end.

Fixpoint run_shared (cv : canvas) (lv : live) (shared : hori) (sts : list istate) (sched : list nat)
  : list (nat * option row) :=
  match sched with
  | [] => []
  | i :: rest =>
    match nth_error sts i with
    | None => run_shared cv lv shared sts rest
    | Some s =>
      let '(o, s', shared') := step_shared cv lv shared s in
      (i, o) :: run_shared cv lv shared' (upd i s' sts) rest
    end
  end.
