(** Executable comparison used by the C15 correspondence for HAND-OVER SCHEDULES: real
    threads running programs of win-size-swap toggles (or [enable_queries()]) /
    [get_cell_size()] / [Process.start()] under the deterministic cooperative scheduler of
    harness/impl/impl_c15.py, replayed on [model/CachesHand.v].

    The real threads park at: the start of every command; every acquisition of a lock
    object from outside (about to acquire / just acquired) and every complete release
    (about to release); for [get_cell_size]: inside the ioctl (the computation has begun,
    the flag is not read yet) and at the write of the cache; for [Process.start]: at the
    creation of the shared array (about to copy / copied, the rebinding of the cache global
    ahead) and at the array's [get_lock()] (the cache global is rebound, the rebinding of
    the lock global ahead).  A PICK of thread [t] lets it run to its next parking point (a
    pick of a finished thread, or of one that finds its lock object taken, is a no-op):
    [xmacro] = the model's micro-steps up to the next parking program counter ([parks]).

    Observed per case: the final flag; what the cache the module global names holds
    (coded 0 = empty, 1 = the value for flag [false], 2 = the value for flag [true], 3 =
    anything else); whether the two module globals name the array / the array's lock; per
    thread, the same code for every [get_cell_size()] it made; the number of computations;
    and — raw — a [get_cell_size()] made AFTER all threads have finished, with the twin's
    fresh value for the final flag.

    [xcheck]: 1 = differs from the model under the same schedule; 2 = the call made
    afterwards does not answer with the fresh value (SPECIFICATION, on observations alone). *)
From Coq Require Import List ZArith Bool Arith.
Import ListNotations.
From TI Require Import lib.Sched model.CachesTie model.CachesHand.
Open Scope nat_scope.

Definition parks (p : xpc) : bool :=
  match p with
  | XTSet _ | XTEval => false
  | XGAcq2 l1 l2 | XGLook l1 l2 | XGRel2 l1 l2 _ => negb (xobj_eqb l1 l2)   (* a re-entrant acquisition / a partial release does not park *)
  | _ => true
  end.

Fixpoint xcont (fuel : nat) (s : xstate) (t : nat) : xstate :=
  match fuel with
  | 0 => s
  | S n => if parks (x_pc (x_th s t)) then s
           else match xstep s t with Some s' => xcont n s' t | None => s end
  end.

(** one pick of the cooperative scheduler *)
Definition xmacro (s : xstate) (t : nat) : xstate :=
  match xstep s t with None => s | Some s1 => xcont 6 s1 t end.

Definition xrun (s : xstate) (sch : list nat) : xstate := fold_left xmacro sch s.

Record xcase := {
  xc_f0 : bool; xc_warm : bool; xc_progs : list (list xcmd); xc_sched : list nat;
  xc_flag : bool; xc_cache : Z; xc_shared : bool; xc_lockshared : bool;
  xc_rets : list (list Z); xc_ncomp : nat;
  xc_after : list Z; xc_fresh : list Z
}.

Fixpoint codes_eqb (obs : list Z) (mdl : list bool) : bool :=
  match obs, mdl with
  | [], [] => true
  | o :: os, f :: fs => Z.eqb o (code_of (Some f)) && codes_eqb os fs
  | _, _ => false
  end.

Fixpoint xthreads_ok (s : xstate) (t : nat) (progs : list (list xcmd)) (rets : list (list Z)) : bool :=
  match progs, rets with
  | [], [] => true
  | _ :: ps, r :: rs =>
    match x_pc (x_th s t), x_todo (x_th s t) with
    | XIdle, [] => codes_eqb r (x_rets (x_th s t))
    | _, _ => false
    end && xthreads_ok s (S t) ps rs
  | _, _ => false
  end.

Definition is_new (o : xobj) : bool := match o with XNew => true | XOld => false end.

Definition xcheck (c : xcase) : nat :=
  let prog := fun t => nth t (xc_progs c) [] in
  let s := xrun (xinit (xc_f0 c) (xc_warm c) prog) (xc_sched c) in
  let ok_model :=
      xthreads_ok s 0 (xc_progs c) (xc_rets c)
      && Bool.eqb (x_flag s) (xc_flag c)
      && Z.eqb (code_of (x_cache s (x_curc s))) (xc_cache c)
      && Bool.eqb (is_new (x_curc s)) (xc_shared c)
      && Bool.eqb (is_new (x_curl s)) (xc_lockshared c)
      && Nat.eqb (x_ncomp s) (xc_ncomp c) in
  ((if ok_model then 0 else 1) + (if zl_eqb (xc_after c) (xc_fresh c) then 0 else 2))%nat.

Definition xreport (cases : list xcase) : list (nat * nat) := index_from 0 (map xcheck cases).
