(** Executable comparisons used by the C19 correspondence (harness/props/c19.py).

    [check]      one specifier run through format() on the real class: the observed
                 outcome (error class / arguments that reached _format_render and
                 _render_image / what draw() printed with the documented-equivalent
                 parameters) against the implementation model AND against the
                 documented grammar + documented meaning.
    [enum_check] all accepted strings up to a length bound, as class words, against the
                 accepted words of the model and of the documented grammar (enumerated
                 by derivatives, dead branches pruned); [count_check] the number of
                 strings per length that raised ValueError / StyleError.
    [witness]    BFS for a shortest word on which implementation model and documented
                 grammar differ.

    Return codes: 0 agrees; 1 differs from the implementation model only; 2 contradicts
    the documentation (property fails); 3 both. *)
From Coq Require Import List Bool Arith NArith ZArith.
Import ListNotations.
From TI Require Import lib.Re lib.CRe gen.Regexes model.FmtSpec.

Definition ab (r : cre) : re :=
  match abstract class_table r with Some a => a | None => Emp end.

(** everything the comparisons rely on about the generated table *)
Definition tie_ok : bool :=
  cover_ok class_table && classes_lt ncls class_table
  && forallb (fun r => is_some (abstract class_table r))
       [impl_main; doc_main; impl_accepts Block; impl_accepts Kitty; impl_accepts ITerm2;
        doc_grammar Block; doc_grammar Kitty; doc_grammar ITerm2].

(** abstractions, normalised once when this file is compiled *)
Definition A_impl_main : re := Eval vm_compute in ab impl_main.
Definition A_doc_main : re := Eval vm_compute in ab doc_main.
Definition A_impl_block : re := Eval vm_compute in ab (impl_accepts Block).
Definition A_impl_kitty : re := Eval vm_compute in ab (impl_accepts Kitty).
Definition A_impl_iterm2 : re := Eval vm_compute in ab (impl_accepts ITerm2).
Definition A_doc_block : re := Eval vm_compute in ab (doc_grammar Block).
Definition A_doc_kitty : re := Eval vm_compute in ab (doc_grammar Kitty).
Definition A_doc_iterm2 : re := Eval vm_compute in ab (doc_grammar ITerm2).

Definition A_impl (s : style) : re :=
  match s with Block => A_impl_block | Kitty => A_impl_kitty | ITerm2 => A_impl_iterm2 end.
Definition A_doc (s : style) : re :=
  match s with Block => A_doc_block | Kitty => A_doc_kitty | ITerm2 => A_doc_iterm2 end.

Definition cls (s : list N) : list nat := map (classify class_table) s.

(** * One specifier *)

Record ccase := {
  c_sty : style;
  c_spec : list N;
  c_cols : Z; c_lines : Z;     (* terminal size during the call *)
  c_kind : nat;                (* observed: 0 accepted, 1 ValueError, 2 StyleError *)
  c_fmt : list Z;              (* [h_align char | -1; width; v_align char | -1; height] given to _format_render *)
  c_alpha : list Z;            (* given to _render_image: [0; num; den] float | [1] None | [2; chars...] str *)
  c_sargs : list Z;            (* given to _render_image: [method 0-3; z given 0/1; z; mix -1/0/1; compress -1/n] *)
  c_draw : list Z;             (* what the driver passed to draw():
                                  [h 0 left 1 center 2 right; pad_width; v 0 top 1 middle 2 bottom; pad_height;
                                   alpha kind (0 float, 1 None, 2 "#", 3 "#rrggbb", 4 omitted); a; b;
                                   method 0-3 (0 omitted); z_index; mix 0/1; compress] *)
  c_draw_eq : nat              (* 1 draw() printed format()'s string; 0 it did not; 2 not drawn *)
}.

Fixpoint zl_eqb (a b : list Z) : bool :=
  match a, b with
  | [], [] => true
  | x :: a', y :: b' => Z.eqb x y && zl_eqb a' b'
  | _, _ => false
  end.

Definition kind_of (o : outcome) : nat :=
  match o with Accepted _ => 0 | ValueErr => 1 | StyleErr => 2 end.

Definition ochar (o : option N) : Z := match o with Some c => Z.of_N c | None => (-1)%Z end.

(** the double num/den is within 2^-54 of the decimal 0.ds *)
Definition close_to_decimal (num den : Z) (ds : list N) : bool :=
  let k := Z.of_nat (length ds) in
  let p := (10 ^ k)%Z in
  ((0 <? den) && (Z.abs (num * p - int_of ds * den) * 2 ^ 54 <=? den * p))%Z.

Definition alpha_matches (a : alpha_raw) (o : list Z) : bool :=
  match a, o with
  | RDefault, [0; n; d]%Z => (n =? ALPHA_THRESHOLD_num)%Z && (d =? ALPHA_THRESHOLD_den)%Z
  | RNone, [1]%Z => true
  | RStr u, (2 :: cs)%Z => zl_eqb (map Z.of_N u) cs
  | RFloat (_ :: ds), [0; n; d]%Z => close_to_decimal n d ds
  | _, _ => false
  end.

Definition sargs_list (a : sargs) : list Z :=
  [ match a_method a with Some m => Z.of_nat m | None => 0 end;
    match a_z a with Some _ => 1 | None => 0 end;
    match a_z a with Some z => z | None => 0 end;
    match a_mix a with Some true => 1 | Some false => 0 | None => -1 end;
    match a_comp a with Some c => c | None => -1 end ]%Z.

(** outcome predicted by the implementation model *)
Definition impl_outcome (ts : tsize) (sty : style) (s : list N) : option outcome :=
  if negb (matches A_impl_main (cls s)) then Some ValueErr
  else if negb (matches (A_impl sty) (cls s)) then Some StyleErr
  else
    match parse s with
    | None => None                                       (* scanner and regex disagree *)
    | Some f =>
        match f_style f with
        | None => Some (interp ts sty f None)
        | Some t => match parse_style sty t with
                    | Some sf => Some (interp ts sty f (Some sf))
                    | None => None
                    end
        end
    end.

(** outcome demanded by the documentation: 0 + meaning, 1 ValueError, 2 StyleError *)
Definition doc_outcome (ts : tsize) (sty : style) (s : list N) : option (nat * option meaning) :=
  if negb (matches A_doc_main (cls s)) then Some (1, None)
  else if negb (matches (A_doc sty) (cls s)) then Some (2, None)
  else
    match parse s with
    | None => None
    | Some f =>
        let sf := match f_style f with
                  | None => Some None
                  | Some t => option_map Some (parse_style sty t)
                  end in
        match sf with
        | None => None
        | Some sf =>
            match doc_interp ts sty f sf with
            | Some m => Some (0, Some m)
            | None => Some (1, None)      (* a value outside the documented range: ValueError *)
            end
        end
    end.

Definition h_code (h : halign) : Z := match h with HLeft => 0 | HCenter => 1 | HRight => 2 end.
Definition v_code (v : valign) : Z := match v with VTop => 0 | VMiddle => 1 | VBottom => 2 end.

(** the documented-equivalent parameters of draw(), minus alpha *)
Definition draw_params (sty : style) (m : meaning) : list Z * list Z :=
  ([h_code (m_h m); m_pw m; v_code (m_v m); m_ph m],
   match sty with
   | Block => [0; 0; 0; 4]
   | _ => [match m_method m with Some k => Z.of_nat k | None => 0 end; m_z m;
           if m_mix m then 1 else 0; m_comp m]
   end)%Z.

Definition draw_alpha_ok (t : transparency) (o : list Z) : bool :=
  match t, o with
  | TDefault, [4; _; _]%Z => true
  | TDisabled, [1; _; _]%Z => true
  | TThreshold ds, [0; n; d]%Z => close_to_decimal n d ds
  | TBgTerminal, [2; _; _]%Z => true
  | TBgColor rgb, [3; v; _]%Z => (v =? rgb)%Z
  | _, _ => false
  end.

(** the arguments that reached the renderer denote the documented meaning *)
Definition observed_denotes (m : meaning) (c : ccase) : bool :=
  match c_fmt c, c_sargs c with
  | [h; w; v; hh]%Z, [me; zp; z; mx; cp]%Z =>
      (h_code (m_h m) =? (if h =? 60 then 0 else if h =? 62 then 2 else 1))%Z
      && (w =? m_pw m)%Z
      && (v_code (m_v m) =? (if v =? 94 then 0 else if v =? 95 then 2 else 1))%Z
      && (hh =? m_ph m)%Z
      && match m_t m, c_alpha c with
         | TDefault, [0; n; d]%Z => (n =? ALPHA_THRESHOLD_num)%Z && (d =? ALPHA_THRESHOLD_den)%Z
         | TDisabled, [1]%Z => true
         | TThreshold ds, [0; n; d]%Z => close_to_decimal n d ds
         | TBgTerminal, [2; 35]%Z => true
         | TBgColor rgb, (2 :: 35 :: hs)%Z =>
             (length hs =? 6) && (hex_of (map Z.to_N hs) =? rgb)%Z
         | _, _ => false
         end
      && (me =? match m_method m with Some k => Z.of_nat k | None => 0 end)%Z
      && ((if zp =? 1 then z else 0) =? m_z m)%Z
      && ((if mx =? 1 then 1 else 0) =? (if m_mix m then 1 else 0))%Z
      && ((if cp =? -1 then 4 else cp) =? m_comp m)%Z
  | _, _ => false
  end.

Definition check (c : ccase) : nat :=
  let ts := {| cols := c_cols c; lines := c_lines c |} in
  let ok_model :=
    match impl_outcome ts (c_sty c) (c_spec c) with
    | None => false
    | Some o =>
        (kind_of o =? c_kind c)
        && match o with
           | Accepted r =>
               zl_eqb (c_fmt c) [ochar (r_halign r); r_width r; ochar (r_valign r); r_height r]
               && alpha_matches (r_alpha r) (c_alpha c)
               && zl_eqb (c_sargs c) (sargs_list (r_sargs r))
           | _ => true
           end
    end in
  let ok_spec :=
    match doc_outcome ts (c_sty c) (c_spec c) with
    | None => false
    | Some (k, om) =>
        (k =? c_kind c)
        && match om with
           | None => true
           | Some m =>
               let '(fmtp, stp) := draw_params (c_sty c) m in
               observed_denotes m c
               && match c_draw c with
                  | [h; pw; v; ph; ak; a; b; me; z; mx; cp]%Z =>
                      zl_eqb [h; pw; v; ph] fmtp && draw_alpha_ok (m_t m) [ak; a; b]
                      && zl_eqb [me; z; mx; cp] stp
                      && (if (c_cols c <? m_pw m)%Z then (c_draw_eq c =? 2) else (c_draw_eq c =? 1))
                  | _ => false
                  end
           end
    end in
  (if ok_model then 0 else 1) + (if ok_spec then 0 else 2).

Fixpoint index_from {A} (n : nat) (l : list A) : list (nat * A) :=
  match l with [] => [] | x :: r => (n, x) :: index_from (S n) r end.

Definition bad (cases : list ccase) : list (nat * nat) :=
  filter (fun p => negb (Nat.eqb (snd p) 0)) (index_from 0 (map check cases)).

(** * All strings up to a length bound *)

(** accepted words of length <= L, in prefix order; a branch is cut when the
    derivative is syntactically [Emp] (nothing below it is accepted) *)
Fixpoint enum (L : nat) (r : re) (pre : list nat) : list (list nat) :=
  (if nullable r then [rev pre] else [])
  ++ match L with
     | 0 => []
     | S k => flat_map (fun c => let d := deriv c r in
                                 if is_emp d then [] else enum k d (c :: pre)) (seq 0 ncls)
     end.

Fixpoint nl_eqb (a b : list nat) : bool :=
  match a, b with
  | [], [] => true
  | x :: a', y :: b' => Nat.eqb x y && nl_eqb a' b'
  | _, _ => false
  end.
Fixpoint nll_eqb (a b : list (list nat)) : bool :=
  match a, b with
  | [], [] => true
  | x :: a', y :: b' => nl_eqb x y && nll_eqb a' b'
  | _, _ => false
  end.

Definition mem_w (w : list nat) (l : list (list nat)) : bool := existsb (nl_eqb w) l.
Definition diff_w (a b : list (list nat)) : list (list nat) := filter (fun w => negb (mem_w w b)) a.

(** observed = the class words of the strings format() accepted (sorted in prefix order).
    Result: (code, accepted though not documented, documented though rejected,
             accepted though the model rejects, model accepts though rejected) — first 8 of each *)
Definition enum_check (sty : style) (L : nat) (observed : list (list nat))
  : nat * (list (list nat) * list (list nat)) * (list (list nat) * list (list nat)) :=
  let ei := enum L (A_impl sty) [] in
  let ed := enum L (A_doc sty) [] in
  let okm := nll_eqb observed ei in
  let oks := nll_eqb observed ed in
  ((if okm then 0 else 1) + (if oks then 0 else 2),
   if oks then ([], []) else (firstn 8 (diff_w observed ed), firstn 8 (diff_w ed observed)),
   if okm then ([], []) else (firstn 8 (diff_w observed ei), firstn 8 (diff_w ei observed))).

(** number of strings of each length 0..L over an alphabet with [weights c] letters of
    class c that are accepted / get StyleError (main grammar ok, style part not) /
    get ValueError: dynamic programming over derivative pairs *)
Definition wstate := (re * re * N)%type.

Fixpoint add_state (a b : re) (m : N) (l : list wstate) : list wstate :=
  match l with
  | [] => [(a, b, m)]
  | (a', b', m') :: r =>
      if re_eqb a a' && re_eqb b b' then (a', b', (m + m')%N) :: r
      else (a', b', m') :: add_state a b m r
  end.

Definition step_states (weights : list N) (l : list wstate) : list wstate :=
  fold_left
    (fun acc st =>
       let '(a, b, m) := st in
       fold_left (fun acc2 c =>
                    let w := nth c weights 0%N in
                    if (w =? 0)%N then acc2
                    else add_state (deriv c a) (deriv c b) (m * w)%N acc2)
                 (seq 0 ncls) acc)
    l [].

Definition tally (l : list wstate) : list N :=
  fold_left
    (fun t st =>
       let '(a, b, m) := st in
       match t with
       | [acc; se; ve] =>
           if nullable b then [(acc + m)%N; se; ve]
           else if nullable a then [acc; (se + m)%N; ve]
           else [acc; se; (ve + m)%N]
       | _ => t
       end)
    l [0%N; 0%N; 0%N].

Fixpoint counts (L : nat) (weights : list N) (l : list wstate) : list (list N) :=
  tally l :: match L with
             | 0 => []
             | S k => counts k weights (step_states weights l)
             end.

Fixpoint Nl_eqb (a b : list N) : bool :=
  match a, b with
  | [], [] => true
  | x :: a', y :: b' => N.eqb x y && Nl_eqb a' b'
  | _, _ => false
  end.
(** observed: (length, [accepted; StyleError; ValueError]) for the lengths enumerated
    over the alphabet described by [weights] *)
Definition count_check (sty : style) (L : nat) (weights : list N) (observed : list (nat * list N))
  : nat * list (list N) * list (list N) :=
  let ci := counts L weights [(A_impl_main, A_impl sty, 1%N)] in
  let cd := counts L weights [(A_doc_main, A_doc sty, 1%N)] in
  let ok c := forallb (fun p => Nl_eqb (snd p) (nth (fst p) c [])) observed in
  ((if ok ci then 0 else 1) + (if ok cd then 0 else 2), ci, cd).

(** * Shortest distinguishing word (used when an equivalence theorem no longer checks) *)
Definition witness (sty : style) : option (list nat) :=
  distinguish ncls 4000 (A_impl sty) (A_doc sty).
Definition witness_main : option (list nat) :=
  distinguish ncls 4000 A_impl_main A_doc_main.
