(** * IterClientTie — judge of the "client" family of the C10 correspondence

    One case = one history on a real [RenderIterator] over a renderable and a client [Padding]
    subclass whose methods ([_render_]; [pad], [get_padded_size], [_get_exact_dimensions_]) are
    instrumented: every top-level entry into client code made on behalf of the iterator is
    logged with what it did (returned a frame of which size / returned a non-Frame / raised
    StopIteration / raised another exception).  That log IS the oracle the model is run with
    ([scripted]).  Observed per operation: its outcome, the entries into the finalizer of the
    iterator's render data so far, the data's [finalized] flag, [_closed]; in the end (iterator
    dropped and collected, then the data's owner calls [finalize()] itself): the entries; the
    number of client calls that were entered with finalized data.

    [kcheck]: bit 1 = differs from [model/IterClient.v] run with that oracle; bit 2 = the
    observations ALONE contradict the property ([IterClient.spec_ok]: function of the history). *)
From Coq Require Import List Bool Arith.
Import ListNotations.
From TI Require Import model.IterClient.

(** one logged client call: kind (0 _render_, 1 pad, 2 get_padded_size), the padding object
    it was made on (pad / get_padded_size), what it did *)
Definition entry := (nat * nat * cres)%type.
Definition script := (list entry * bool)%type.      (* what is left; a call did not match *)

Definition matches (k a : nat) (c : call) : bool :=
  match c with
  | CRender _ => Nat.eqb k 0
  | CPad p _ => Nat.eqb k 1 && Nat.eqb a p
  | CSize p _ => Nat.eqb k 2 && Nat.eqb a p
  end.

Definition scripted (sc : script) (c : call) : cres * script :=
  match fst sc with
  | [] => (RRaise 999, ([], true))
  | (k, a, r) :: l => (r, (l, snd sc || negb (matches k a c)))
  end.

Record kcase := {
  k_n : option nat;              (* frame count; None = INDEFINITE *)
  k_owns : bool;                 (* RenderIterator(...) / finalize=True: true; finalize=False: false *)
  k_pid : nat; k_rsize : nat; k_padded : nat;   (* as constructed *)
  k_script : list entry;
  k_ops : list op;
  k_obs : list (out * nat * bool * bool);   (* outcome, finalizer entries, finalized, _closed *)
  k_fin_end : nat;               (* entries after collection + the owner's own finalize() *)
  k_bad_use : nat                (* client calls entered with finalized data *)
}.

Definition err_eqb (a b : err) : bool :=
  match a, b with
  | EFinalized, EFinalized | EValue, EValue | EStopDefinite, EStopDefinite | EAttr, EAttr
  | EGenStop, EGenStop => true
  | EClient x, EClient y => Nat.eqb x y
  | _, _ => false
  end.
Definition out_eqb (a b : out) : bool :=
  match a, b with
  | OFrame x, OFrame y => Bool.eqb x y
  | OStop, OStop | OOk, OOk => true
  | OErr x, OErr y => err_eqb x y
  | _, _ => false
  end.

Definition start (t : kcase) : state script :=
  mk script (k_owns t) (k_pid t) (k_rsize t) (k_padded t) (k_script t, false).

(** the model's run against the observations, operation by operation *)
Fixpoint agree (n : option nat) (s : state script) (ops : list op)
         (obs : list (out * nat * bool * bool)) : bool * state script :=
  match ops, obs with
  | [], [] => (true, s)
  | o :: ops', (x, fin, fz, cl) :: obs' =>
    let '(s', y) := step script scripted n false s o in
    if out_eqb x y && Nat.eqb fin (fin_calls (gh s')) && Bool.eqb fz (finalized (gh s'))
       && Bool.eqb cl (closed s')
    then agree n s' ops' obs' else (false, s')
  | _, _ => (false, s)
  end.

Definition model_ok (t : kcase) : bool :=
  let '(ok, s) := agree (k_n t) (start t) (k_ops t) (k_obs t) in
  ok && match cs s with ([], false) => true | _ => false end.

Fixpoint history (ops : list op) (obs : list (out * nat * bool * bool)) : list (op * snap) :=
  match ops, obs with
  | o :: ops', (x, fin, fz, _) :: obs' => (o, {| o_out := x; o_fin := fin; o_fz := fz |}) :: history ops' obs'
  | _, _ => []
  end.

(** the property on the observations alone: the history, exactly one finalizer entry in the
    end whoever owned the data, no client code entered with finalized data *)
Definition prop_ok (t : kcase) : bool :=
  Nat.eqb (length (k_ops t)) (length (k_obs t))
  && spec_ok (k_owns t) false (history (k_ops t) (k_obs t))
  && Nat.eqb (k_fin_end t) 1 && Nat.eqb (k_bad_use t) 0.

Definition kcheck (t : kcase) : nat :=
  (if model_ok t then 0 else 1) + (if prop_ok t then 0 else 2).

Fixpoint index_from {A} (i : nat) (l : list A) : list (nat * A) :=
  match l with [] => [] | x :: r => (i, x) :: index_from (S i) r end.
Definition kbad (cases : list kcase) : list (nat * nat) :=
  filter (fun p => negb (Nat.eqb (snd p) 0)) (index_from 0 (map kcheck cases)).
