(** Specification-side vocabulary of the C04 theorems: the exact (rational) quantities
    the property speaks about, and the domain on which the theorems are stated.
    Definitions only.  [SM : StandardModel FA] gives floats their exact values
    ([val SM]); nothing here computes with floats. *)
From Coq Require Import ZArith QArith.
From TI Require Import lib.FArith model.Sizing.
Open Scope Q_scope.

Notation QZ := inject_Z.
Definition two (k : Z) : Q := inject_Z (2 ^ k).          (* 2^k,  k >= 0 *)
Definition itwo (k : positive) : Q := 1 # (2 ^ k).       (* 2^-k *)

(** "differs from the exact value by less than one cell, never dropping below 1":
    [obs] is the computed dimension in cells, [x] the exact aspect-preserving value *)
Definition nearP (obs : Z) (x : Q) : Prop :=
  (x < 1 -> obs = 1%Z) /\ (1 <= x -> QZ obs - x < 1 /\ x - QZ obs < 1).

(** "dimensions < 2^30" *)
Definition dim30 (z : Z) : Prop := (1 <= z < 2 ^ 30)%Z.

(** where the Size member is passed (as width or as height); [None, None] means FIT *)
Definition auto_mode (w h : dim) : option smode :=
  match w, h with
  | DSize s, DNone | DNone, DSize s => Some s
  | DNone, DNone => Some FIT
  | _, _ => None
  end.

Section Spec.
Context {FA : FloatArith} (SM : StandardModel FA).

(** pixels per cell: text 1x2, graphics the cell size *)
Definition cwp (fam : family) (e : env FA) : Z :=
  match fam with Text => 1 | Graphics => fst (cell_or_default e) end.
Definition chp (fam : family) (e : env FA) : Z :=
  match fam with Text => 2 | Graphics => snd (cell_or_default e) end.

(** the pixel ratio in force (a float; its exact value is [val SM (pr_of fam e)]) *)
Definition pr_of (fam : family) (e : env FA) : F FA := pixel_ratio fam e.

(** exact aspect-preserving pixel values: the height that goes with a width of [w]
    pixels, the width that goes with a height of [h] pixels *)
Definition HX (pr : F FA) (ow oh w : Z) : Q := QZ w * QZ oh / QZ ow * val SM pr.
Definition WX (pr : F FA) (ow oh h : Z) : Q := QZ h * QZ ow / (QZ oh * val SM pr).

(** the frame, in cells and in pixels *)
Definition columns (e : env FA) (frame : Z * Z) : Z := resolve (fst frame) (e_cols e).
Definition lines (e : env FA) (frame : Z * Z) : Z := resolve (snd frame) (e_lines e).
Definition fwpx (fam : family) (e : env FA) (frame : Z * Z) : Z :=
  px_of_cols fam e (columns e frame).
Definition fhpx (fam : family) (e : env FA) (frame : Z * Z) : Z :=
  px_of_lines fam e (lines e frame).

(** "the source, scaled for the pixel ratio, fits the frame's pixel area": ORIGINAL's own
    pixel size -- the source width and the ROUNDED scaled height
    [round(ori_height * pixel_ratio)] -- is within the frame's pixel size *)
Definition fits (fam : family) (e : env FA) (ow oh : Z) (frame : Z * Z) : bool :=
  ((ow <=? fwpx fam e frame) && (original_hpx fam e oh <=? fhpx fam e frame))%Z.

(** the domain of the theorems: cell size in [1, 2^12] when known, a fixed cell ratio
    finite and in [2^-30, 2^30] (a dynamic one is cw/ch), ... *)
Definition cell_ok (e : env FA) : Prop :=
  match e_cell e with
  | Some (cw, ch) => (1 <= cw <= 2 ^ 12 /\ 1 <= ch <= 2 ^ 12)%Z
  | None => True
  end.
Definition ratio_ok (e : env FA) : Prop :=
  match e_ratio e with
  | Some r => finite SM r /\ itwo 30 <= val SM r /\ val SM r <= two 30
  | None => True
  end.
(** ... source dimensions in [1, 2^30) ... *)
Record Dom0 (e : env FA) (ow oh : Z) : Prop := {
  d_ow : dim30 ow; d_oh : dim30 oh; d_cell : cell_ok e; d_ratio : ratio_ok e
}.
(** ... and a frame whose pixel dimensions are in [1, 2^30) *)
Record Dom (fam : family) (e : env FA) (ow oh : Z) (frame : Z * Z) : Prop := {
  d_0 : Dom0 e ow oh;
  d_fw : dim30 (fwpx fam e frame);
  d_fh : dim30 (fhpx fam e frame)
}.

(** the hypotheses under which each argument shape of the API is covered: the frame
    matters only for the frame-relative modes; where the free dimension is not bounded
    by the frame, its exact pixel value must not exceed 2^40 (beyond ~2^52 binary64
    rounding alone exceeds a pixel) *)
Definition claimed (fam : family) (e : env FA) (ow oh : Z) (w h : dim) (frame : Z * Z) : Prop :=
  match w, h with
  | DInt wi, DInt hi => (0 < wi /\ 0 < hi)%Z
  | DInt wi, DNone =>
      Dom0 e ow oh /\ dim30 (px_of_cols fam e wi) /\ (0 < wi)%Z /\
      HX (pr_of fam e) ow oh (px_of_cols fam e wi) <= two 40
  | DNone, DInt hi =>
      Dom0 e ow oh /\ dim30 (px_of_lines fam e hi) /\ (0 < hi)%Z /\
      WX (pr_of fam e) ow oh (px_of_lines fam e hi) <= two 40
  | _, _ =>
      match auto_mode w h with
      | Some FIT | Some AUTO => Dom fam e ow oh frame
      | Some ORIGINAL => Dom0 e ow oh /\ QZ oh * val SM (pr_of fam e) <= two 40
      | Some FIT_TO_WIDTH =>
          Dom fam e ow oh frame /\ HX (pr_of fam e) ow oh (fwpx fam e frame) <= two 40
      | None => False
      end
  end.

End Spec.
