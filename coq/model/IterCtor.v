(** * IterCtor — the CONSTRUCTION of a [RenderIterator], step by step, with a fault at any step (C10)

    [Iter.mk] builds an iterator in one piece.  The code does not: both constructors

    - [RenderIterator.__init__]                               [_iterator.py:130-143]
          self._init(...)                                     validation; [_closed = False]
          self._iterator, self._padding = renderable._init_render_(self._iterate, ..., finalize=False)
                                                              [_get_render_data_], generator created
          self._finalize_data = True
          next(self._iterator)                                priming: the set-up part of [_iterate]
    - [RenderIterator._from_render_data_(..., finalize=f)]    [_iterator.py:448-506]
          new = cls.__new__(cls); new._init(...)
          <checks of the data, RenderArgs, padding.resolve>
          new._iterator = new._iterate(render_data, render_args)
          new._finalize_data = finalize
          next(new._iterator)

    assemble the object attribute by attribute, and the priming [next()] runs the set-up part of
    the generator [_iterate] [_iterator.py:543-575]:

          self._render_data = render_data; ...
          self._padded_size = self._padding.get_padded_size(size)    <- code of the padding (a client class)
          cache = [(None,) * 4] * frame_count if self._cached ...    <- an allocation
          yield DUMMY_FRAME

    Every step can fail: [_get_render_data_] / the padding's methods are renderable / client code,
    an allocation can raise MemoryError, a KeyboardInterrupt can arrive between any two lines.  The
    constructor then propagates the exception and the HALF-BUILT object becomes garbage:
    [__del__] -> [close()] runs on whatever attributes exist by then
    ([_iterator.py:145-149,180-200]; a missing attribute is an AttributeError, which [__del__] -
    and only it - swallows).

    The model: the object is a record of OPTIONAL attributes; a constructor is a PROGRAM (list of
    [instr]); [exec p k] runs it with a fault at position [k] (k >= length p: no fault); [drop] is
    [__del__] on the result; [collect] is the garbage collection of the render data itself
    ([RenderData.__del__] -> [finalize()], _types.py:1286-1290) once nobody references it.
    The order of the instructions is a parameter, so that other designs (the ownership flag given a
    default early and the caller's value late) can be stated and refuted.

    Definitions only. *)
From Coq Require Import List Bool Arith.
Import ListNotations.

(** the generator object of [_iterate] *)
Inductive gen :=
| GCreated      (* made, not started: [close()] on it runs nothing *)
| GRunning      (* inside the priming [next()] *)
| GSuspended    (* at [yield DUMMY_FRAME] *)
| GFinished.    (* raised: its frame (and the references it held) is gone *)

(** the iterator object: which attributes exist, and their values *)
Record obj := {
  a_closed : option bool;     (* _closed *)
  a_iter : option gen;        (* _iterator *)
  a_rdata : bool;             (* _render_data is bound (to THE render data) *)
  a_flag : option bool        (* _finalize_data *)
}.

(** the render data object: ghost *)
Record data := { d_exists : bool; d_finalized : bool; d_calls : nat }.

Record cstate := { c_obj : option obj; c_data : data }.

Definition blank : obj := {| a_closed := None; a_iter := None; a_rdata := false; a_flag := None |}.
Definition no_data : data := {| d_exists := false; d_finalized := false; d_calls := 0 |}.
Definition fresh_data : data := {| d_exists := true; d_finalized := false; d_calls := 0 |}.

(** [RenderData.finalize()], _types.py:1378-1382 *)
Definition finalize (d : data) : data :=
  if d_finalized d then d
  else {| d_exists := d_exists d; d_finalized := true; d_calls := S (d_calls d) |}.

Inductive instr :=
| IAlloc                 (* the object comes into being ([cls.__new__(cls)]) *)
| IInit                  (* [_init]: validation, then [_closed = False] *)
| IGetData               (* [_init_render_]: [render_data = self._get_render_data_(iteration=True)] *)
| ICheckData             (* [_from_render_data_]: class / finalized / iteration checks, RenderArgs, resolve *)
| IMakeGen               (* [_iterator = _iterate(render_data, render_args)]: generator made and bound *)
| ISetFlag (v : bool)    (* [_finalize_data = v] *)
| IPrimeStart            (* [next(_iterator)]: the generator starts running *)
| IPrimeBind             (* [_iterate]: [self._render_data = render_data] ... *)
| IPrimeSetup            (* [_iterate]: [get_padded_size] (padding code), frame cache allocation *)
| IPrimeYield            (* [_iterate]: reaches [yield DUMMY_FRAME] *)
| IReturn.               (* the constructor hands the finished object back ([return new]) *)

Definition set_closed (o : obj) v := {| a_closed := v; a_iter := a_iter o; a_rdata := a_rdata o; a_flag := a_flag o |}.
Definition set_iter (o : obj) v := {| a_closed := a_closed o; a_iter := v; a_rdata := a_rdata o; a_flag := a_flag o |}.
Definition set_rdata (o : obj) v := {| a_closed := a_closed o; a_iter := a_iter o; a_rdata := v; a_flag := a_flag o |}.
Definition set_flag (o : obj) v := {| a_closed := a_closed o; a_iter := a_iter o; a_rdata := a_rdata o; a_flag := v |}.

Definition with_obj (s : cstate) (f : obj -> option obj) : option cstate :=
  match c_obj s with
  | None => None                                   (* NameError / AttributeError: the instruction raises *)
  | Some o => match f o with
              | Some o' => Some {| c_obj := Some o'; c_data := c_data s |}
              | None => None
              end
  end.

(** one instruction; [None]: it raises because something it needs is missing (a program in a
    senseless order simply faults there) *)
Definition exec1 (s : cstate) (i : instr) : option cstate :=
  match i with
  | IAlloc => Some {| c_obj := Some blank; c_data := c_data s |}
  | IInit => with_obj s (fun o => Some (set_closed o (Some false)))
  | IGetData => match c_obj s with
                | Some _ => Some {| c_obj := c_obj s; c_data := fresh_data |}
                | None => None
                end
  | ICheckData => if d_exists (c_data s) && negb (d_finalized (c_data s)) then with_obj s Some else None
  | IMakeGen => if d_exists (c_data s) then with_obj s (fun o => Some (set_iter o (Some GCreated))) else None
  | ISetFlag v => with_obj s (fun o => Some (set_flag o (Some v)))
  | IPrimeStart => with_obj s (fun o => match a_iter o with
                                        | Some GCreated => Some (set_iter o (Some GRunning))
                                        | _ => None
                                        end)
  | IPrimeBind => with_obj s (fun o => match a_iter o with
                                       | Some GRunning => Some (set_rdata o true)
                                       | _ => None
                                       end)
  | IPrimeSetup => with_obj s (fun o => match a_iter o with Some GRunning => Some o | _ => None end)
  | IPrimeYield => with_obj s (fun o => match a_iter o with
                                        | Some GRunning => Some (set_iter o (Some GSuspended))
                                        | _ => None
                                        end)
  | IReturn => with_obj s Some
  end.

(** an exception leaves the constructor: a generator that was running has raised *)
Definition abort (s : cstate) : cstate :=
  match c_obj s with
  | Some o => match a_iter o with
              | Some GRunning => {| c_obj := Some (set_iter o (Some GFinished)); c_data := c_data s |}
              | _ => s
              end
  | None => s
  end.

(** run [p] with a fault at position [k] (the instruction at index [k] raises before doing
    anything); the flag: did the constructor return *)
Fixpoint exec (p : list instr) (k : nat) (s : cstate) : cstate * bool :=
  match p with
  | [] => (s, true)
  | i :: r =>
    match k with
    | O => (abort s, false)
    | S k' => match exec1 s i with
              | Some s' => exec r k' s'
              | None => (abort s, false)
              end
    end
  end.

(** [close()] on an object with attributes possibly missing, _iterator.py:191-200

      if not self._closed:                      AttributeError
          self._iterator.close()                AttributeError
          del self._iterator
          try:
              if self._finalize_data:           AttributeError
                  self._render_data.finalize()  AttributeError
          finally:
              del self._render_data             AttributeError (replaces the one in flight)
              self._closed = True

    result: the object, the data, [true] = returned / [false] = AttributeError *)
Definition close_obj (o : obj) (d : data) : obj * data * bool :=
  match a_closed o with
  | None => (o, d, false)
  | Some true => (o, d, true)
  | Some false =>
    match a_iter o with
    | None => (o, d, false)
    | Some _ =>                          (* generator.close(): nothing runs in any of the states a drop can see *)
      let o1 := set_iter o None in
      let '(d1, ok) := match a_flag o1 with
                       | None => (d, false)
                       | Some false => (d, true)
                       | Some true => if a_rdata o1 then (finalize d, true) else (d, false)
                       end in
      if a_rdata o1 then (set_closed (set_rdata o1 false) (Some true), d1, ok)
      else (o1, d1, false)
    end
  end.

(** the (half-built or complete) object loses its last reference: [__del__] -> [close()],
    AttributeError swallowed; then its memory, and every reference it held, is gone *)
Definition drop (s : cstate) : cstate :=
  match c_obj s with
  | None => s
  | Some o => let '(_, d, _) := close_obj o (c_data s) in {| c_obj := None; c_data := d |}
  end.

(** nobody references the render data any more: [RenderData.__del__] -> [finalize()] *)
Definition collect (s : cstate) : cstate :=
  {| c_obj := c_obj s; c_data := if d_exists (c_data s) then finalize (c_data s) else c_data s |}.

(** ** the three ways to make an iterator *)
Inductive kind := KInit | KKeep | KGive.

Definition owns_of (kd : kind) : bool := match kd with KKeep => false | _ => true end.

(** the caller of [_from_render_data_] made the data itself and holds a reference to it *)
Definition start (kd : kind) : cstate :=
  {| c_obj := None; c_data := match kd with KInit => no_data | _ => fresh_data end |}.

(** the code, _iterator.py:130-143 / 448-506 *)
Definition prog_init : list instr :=
  [IAlloc; IInit; IGetData; IMakeGen; ISetFlag true; IPrimeStart; IPrimeBind; IPrimeSetup; IPrimeYield; IReturn].
Definition prog_frd (f : bool) : list instr :=
  [IAlloc; IInit; ICheckData; IMakeGen; ISetFlag f; IPrimeStart; IPrimeBind; IPrimeSetup; IPrimeYield; IReturn].
Definition prog_of (kd : kind) : list instr :=
  match kd with KInit => prog_init | KKeep => prog_frd false | KGive => prog_frd true end.

(** an excluded design: the flag gets a default in the part of the initialisation common to all
    constructors, the caller's choice is recorded once the iterator is set up *)
Definition prog_frd_default_first (f : bool) : list instr :=
  [IAlloc; IInit; ISetFlag true; ICheckData; IMakeGen; IPrimeStart; IPrimeBind; IPrimeSetup; IPrimeYield;
   ISetFlag f; IReturn].

(** the life of one construction: run it with a fault at [k], drop the object; [after_drop]: the
    iterator is gone, the caller of [_from_render_data_] still holds its data; [the_end]: the
    owner of kept data has finalized it itself, and everybody has let go of the data *)
Definition after_drop (kd : kind) (p : list instr) (k : nat) : cstate := drop (fst (exec p k (start kd))).
Definition the_end (kd : kind) (p : list instr) (k : nat) : cstate :=
  let s := after_drop kd p k in
  collect (match kd with KKeep => {| c_obj := c_obj s; c_data := finalize (c_data s) |} | _ => s end).

(** the ownership flag is only ever given the value the caller asked for *)
Definition flags_faithful (kd : kind) (p : list instr) : Prop :=
  forall v, In (ISetFlag v) p -> v = owns_of kd.

Fixpoint flags_faithfulb (kd : kind) (p : list instr) : bool :=
  match p with
  | [] => true
  | ISetFlag v :: r => Bool.eqb v (owns_of kd) && flags_faithfulb kd r
  | _ :: r => flags_faithfulb kd r
  end.

(** what the property demands of [after_drop] / [the_end] *)
Definition kept_untouched (d : data) : Prop := d_finalized d = false /\ d_calls d = 0.
Definition once_if_exists (d : data) : Prop :=
  if d_exists d then d_finalized d = true /\ d_calls d = 1 else d_calls d = 0.
