(** C03 — CONCURRENT renders of one image: the per-line encode protocol of the iterm2 LINES
    method as small steps, any number of renders in progress, any schedule.

    src/term_image/image/iterm2.py, ITerm2Image._render_image, LINES branch:

      711   raw_image = io.BytesIO(img.tobytes())
      712   compressed_image = io.BytesIO()              <- a NEW buffer for every render
      737   with io.StringIO() as buffer, raw_image, compressed_image:
      738     for line in range(1, r_height + 1):
      739       compressed_image.seek(0)                                        [LSeek]
      740-748   PIL.Image.frombytes(..., raw_image.read(bytes_per_line)).save(
                    compressed_image, format, ...)                              [LSave]
      749       compressed_image.truncate()                                     [LTrunc]
      753       buffer.write(f"size={compressed_image.tell()}")                 [LTell]
      755-757   buffer.write(standard_b64encode(compressed_image.getvalue()))   [LGet]

    A buffer is a byte string with a position (io.BytesIO: [write] overwrites from the
    position and moves it, [truncate()] cuts at the position, [tell()] is the position,
    [getvalue()] the whole content).  Each render owns: the strips still to send, where it is
    in the line protocol, what it has emitted ([size=] value, payload bytes) so far.  WHICH
    buffer a render encodes into is the parameter [bo] (render -> buffer): the code's renders
    each have their own ([bo] injective); an encode buffer kept on the INSTANCE is
    [fun _ => 0] (every render of the image uses buffer 0) — the variant the theorems exclude.
    The model is not specific to iterm2: it is "a render works on state of its own" with the
    iterm2 line protocol as the concrete instance (kitty's LINES loop keeps no buffer between
    lines at all).

    Definitions only (proofs: proofs/GfxConcProofs.v). *)
From Coq Require Import List Arith Bool.
Import ListNotations.

(** [n] applications of [f] *)
Fixpoint iterate {A} (n : nat) (f : A -> A) (x : A) : A :=
  match n with 0 => x | S k => f (iterate k f x) end.

Section Conc.
Variable B : Type.                       (* bytes *)
Variable enc : list B -> list B.         (* PNG / JPEG encoding of one strip (PIL's save) *)

(* ------------------------------------------------------------------ io.BytesIO *)
Record buf := { b_data : list B; b_pos : nat }.
Definition b_seek0 (b : buf) : buf := {| b_data := b_data b; b_pos := 0 |}.
Definition b_write (b : buf) (d : list B) : buf :=
  {| b_data := firstn (b_pos b) (b_data b) ++ d ++ skipn (b_pos b + length d) (b_data b);
     b_pos := b_pos b + length d |}.
Definition b_truncate (b : buf) : buf := {| b_data := firstn (b_pos b) (b_data b); b_pos := b_pos b |}.

(* ------------------------------------------------------------------ one render *)
Inductive lpc := LSeek | LSave | LTrunc | LTell | LGet (size : nat).

Record tstate := {
  t_todo : list (list B);              (* strips not sent yet (head: the line in progress) *)
  t_pc : lpc;
  t_out : list (nat * list B)          (* emitted so far: (the size= value, the payload bytes) per line *)
}.

Definition render_start (strips : list (list B)) : tstate :=
  {| t_todo := strips; t_pc := LSeek; t_out := [] |}.

(** one step of a render on the buffer it encodes into *)
Definition lstep (tb : tstate * buf) : tstate * buf :=
  let '(t, b) := tb in
  match t_todo t with
  | [] => (t, b)                                                          (* the loop has ended *)
  | s :: rest =>
      match t_pc t with
      | LSeek => ({| t_todo := t_todo t; t_pc := LSave; t_out := t_out t |}, b_seek0 b)
      | LSave => ({| t_todo := t_todo t; t_pc := LTrunc; t_out := t_out t |}, b_write b (enc s))
      | LTrunc => ({| t_todo := t_todo t; t_pc := LTell; t_out := t_out t |}, b_truncate b)
      | LTell => ({| t_todo := t_todo t; t_pc := LGet (b_pos b); t_out := t_out t |}, b)
      | LGet size => ({| t_todo := rest; t_pc := LSeek; t_out := t_out t ++ [(size, b_data b)] |}, b)
      end
  end.

(** what the property demands of a LINES render: per strip, [size=] is the length of the
    encoded strip and the payload is the encoded strip *)
Definition line_out (s : list B) : nat * list B := (length (enc s), enc s).
Definition render_spec (strips : list (list B)) : list (nat * list B) := map line_out strips.

(* ------------------------------------------------------------------ many renders *)
Record cstate := {
  c_ts : nat -> tstate;                (* render i *)
  c_buf : nat -> buf                   (* buffer k *)
}.

Definition fupd {A} (f : nat -> A) (i : nat) (x : A) : nat -> A :=
  fun j => if Nat.eqb j i then x else f j.

(** render [i] makes its next step, on buffer [bo i] *)
Definition cstep (bo : nat -> nat) (st : cstate) (i : nat) : cstate :=
  let '(t', b') := lstep (c_ts st i, c_buf st (bo i)) in
  {| c_ts := fupd (c_ts st) i t'; c_buf := fupd (c_buf st) (bo i) b' |}.

(** a schedule: the list of renders in the order they make their steps *)
Definition crun (bo : nat -> nat) (st : cstate) (sched : list nat) : cstate :=
  fold_left (cstep bo) sched st.

Definition cstart (inputs : nat -> list (list B)) (bufs : nat -> buf) : cstate :=
  {| c_ts := fun i => render_start (inputs i); c_buf := bufs |}.

Definition render_local (bo : nat -> nat) : Prop := forall i j, bo i = bo j -> i = j.
Definition own_buffer : nat -> nat := fun i => i.          (* the code: a new BytesIO per render *)
Definition instance_buffer : nat -> nat := fun _ => 0.     (* one buffer kept on the image *)

End Conc.

Arguments b_data {B}. Arguments b_pos {B}. Arguments t_todo {B}. Arguments t_pc {B}.
Arguments t_out {B}. Arguments c_ts {B}. Arguments c_buf {B}.
