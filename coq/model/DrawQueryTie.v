(** Executable comparison for the C06 correspondence of draws that talk to the terminal
    ([harness/impl/impl_c06_tty.py]): the harness plays a terminal that ANSWERS the queries
    [draw()] makes, at controlled points of each exchange; what the SCREEN received (the bytes on
    the terminal side of the pty, which contain whatever the line discipline echoed, with the
    query requests -- which draw nothing -- taken out) is
    (1) compared with [DrawQuery.screen] of the model's run: the model's own stream
        ([DrawTie.model_stream]) cut where the requests were seen, one [DrawQuery.exchange]
        (= [query_terminal]) per request with the reply's pieces arriving where the harness
        wrote them, and
    (2) judged by [DrawTie.spec_holds]: the documented size rule and, from every start row, the
        final-state predicate -- on the screen's stream, echoes included. *)
From Coq Require Import List ZArith Bool.
Import ListNotations.
From TI Require Import lib.Term lib.RectCheck model.Padding model.Draw model.DrawTie model.DrawQuery.
Open Scope Z_scope.

Record qcase := {
  q_c : dcase;        (* the draw; [d_obs] = what the screen received *)
  q_e0 : bool;        (* the tty's ECHO flag when draw() is called *)
  q_self : bool;      (* the draw keeps ECHO off itself (new API, echo_input = False, on a tty) *)
  q_cuts : list (nat * (list (list Z) * list (list Z)));
                      (* per exchange: own tokens written before it; the reply's pieces that
                         arrived in the window / during the read *)
  q_redirected : bool;(* standard output is not the terminal (a pipe): [d_obs] is what the pipe
                         received; the active terminal is still asked *)
  q_term : list tok   (* redirected: what the TERMINAL's screen received *)
}.

Definition q_run (c : qcase) (st : list tok) : list event :=
  if q_self c then
    Prog (PSet false) :: weave exchange false st 0 (q_cuts c) ++ [Prog (PSet (q_e0 c))]
  else weave exchange (q_e0 c) st 0 (q_cuts c).

Definition q_model (c : qcase) : option (list tok) :=
  match model_stream (q_c c) with
  | None => None
  | Some st => Some (screen (q_e0 c) (q_run c st))
  end.

Definition qmodel_agrees (c : qcase) : bool :=
  match q_model c with
  | None => d_raised (q_c c) && is_nil (d_obs (q_c c))
  | Some st => negb (d_raised (q_c c)) && toks_eqb st (d_obs (q_c c))
  end
  && (if d_kitty (q_c c) && d_anim (q_c c) then forallb kitty_anim_frame_ok (d_frames (q_c c)) else true).

(** standard output redirected: the draw writes nothing to the terminal; the terminal's screen
    receives the (empty) own stream interleaved with the echoes of the exchanges *)
Definition q_term_model (c : qcase) : list tok :=
  screen (q_e0 c) (weave exchange (q_e0 c) [] 0 (q_cuts c)).

(** 0 = agrees; +1 differs from the model; +2 the observed behaviour contradicts the
    specification (redirected: ... or the terminal's screen -- on which there is no region --
    received anything at all: "every screen cell outside the padded region is as it was") *)
Definition qcheck (c : qcase) : nat :=
  if q_redirected c then
    (if model_agrees (q_c c) && toks_eqb (q_term_model c) (q_term c) then 0 else 1)
    + (if spec_holds (q_c c) && is_nil (q_term c) then 0 else 2)
  else (if qmodel_agrees c then 0 else 1) + (if spec_holds (q_c c) then 0 else 2).

Definition qbad (cases : list qcase) : list (nat * nat) :=
  filter (fun p => negb (Nat.eqb (snd p) 0)) (index_from 0 (map qcheck cases)).

Definition qexplain (c : qcase) :=
  (explain (q_c c), q_redirected c, length (q_term c),
   match q_model c with
   | Some st => (Some (first_diff st (d_obs (q_c c)) 0), length st)
   | None => (None, 0%nat)
   end).
