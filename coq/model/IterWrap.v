(** * IterWrap — what the size fields of a yielded frame must be, as a function of the
      operation history alone (specification side of C09's [wrap] invariance)

    [RenderIterator] keeps a DERIVED piece of state, [_padded_size], beside the two
    settings it is derived from ([_padding] and the render size in the render data).  A
    yielded frame is wrapped with it ([_iterator.py:614-620]) whether the frame was
    rendered just now or taken from the cache.  Frame caching is invisible only if that
    derived state is a function of the CURRENT padding and the CURRENT render size — never
    of which frames happened to be rendered (and when) or served from the cache.

    The oracle below needs neither the iterator's state nor a cache nor the renderable:
    it walks the history, keeps the padding / render size / frame duration / render
    arguments that the LATEST accepted setter established (a setter on a finalized
    iterator is never followed by a frame, so finalisation needs no tracking), and says
    what the size fields of a frame yielded at that point are.

    Definitions only; proofs in [proofs/IterWrapProofs.v]. *)
From Coq Require Import List ZArith Bool Lia.
Import ListNotations.
From TI Require Import model.Iter.
Open Scope Z_scope.

(** the settings a history has established *)
Record settings := { h_pad : padding; h_size : size; h_dur : dur; h_args : Z }.

(** the settings after one more operation (accepted setters only: an invalid duration
    and incompatible arguments are rejected without effect; [set_padding] resolves
    terminal-relative dimensions on reception) *)
Definition settings_step (term : size) (h : settings) (o : op) : settings :=
  match o with
  | SetPadding p => {| h_pad := resolve term p; h_size := h_size h; h_dur := h_dur h; h_args := h_args h |}
  | SetSize sz => {| h_pad := h_pad h; h_size := sz; h_dur := h_dur h; h_args := h_args h |}
  | SetDuration d =>
    if match d with DStatic ms => ms <=? 0 | DDynamic => false end then h
    else {| h_pad := h_pad h; h_size := h_size h; h_dur := d; h_args := h_args h |}
  | SetArgs (Some a) => {| h_pad := h_pad h; h_size := h_size h; h_dur := h_dur h; h_args := a |}
  | _ => h
  end.

Definition settings_of (term : size) (h : settings) (ops : list op) : settings :=
  fold_left (settings_step term) ops h.

(** the settings the constructor establishes *)
Definition settings0 (term : size) (c : config) : settings :=
  {| h_pad := resolve term (c_pad c); h_size := c_size c; h_dur := c_dur c;
     h_args := match c_args c with Some a => a | None => 0 end |}.

(** the padding dimensions of a frame wrapped under padding [p] at render size [sz] *)
Definition wrap_dims (p : padding) (sz : size) : option (Z * Z * Z * Z) :=
  if size_eqb (padded_size p sz) sz then None else Some (pad_dims p sz).

Definition odims_eqb (a b : option (Z * Z * Z * Z)) : bool :=
  match a, b with
  | None, None => true
  | Some (l, t, r, b0), Some (l', t', r', b') => (l =? l') && (t =? t') && (r =? r') && (b0 =? b')
  | _, _ => false
  end.

(** one yielded frame against the settings current when it was asked for *)
Definition frame_wrapped_for (h : settings) (f : frame) : bool :=
  size_eqb (f_size f) (padded_size (h_pad h) (h_size h))
  && odims_eqb (f_pad f) (wrap_dims (h_pad h) (h_size h)).

(** the whole history: every frame yielded by a [next] has the padded size (and the
    padding dimensions) of the padding and the render size in force at that [next] *)
Fixpoint wrap_okb (term : size) (h : settings) (ops : list op) (obs : list (out * Z)) : bool :=
  match ops, obs with
  | o :: ops', (x, _) :: obs' =>
    (match o, x with
     | Next, OFrame f => frame_wrapped_for h f
     | _, _ => true
     end)
    && wrap_okb term (settings_step term h o) ops' obs'
  | _, _ => true
  end.
