(** * MemoShape — the ORDER of micro-steps of the cache decorators and toggles (C15, source tie)

    The concurrency theorems of C15 are about two micro-step machines:
    [CachesInval.qstep_gen] (a memoised call against [_invalidate_cache()] /
    [enable_queries()] / [disable_queries()]) and [Caches.wstep_gen] (the win-size-swap
    toggles against [get_cell_size()]).  What those theorems say about the code depends on the
    machines performing the code's steps IN THE CODE'S ORDER (flag write before the clear;
    the clear inside the lock region; lookup, body and store inside one lock region).

    This file gives every micro-step of both machines a LABEL ([qlabel], [wlabel]: which
    step of the source the transition stands for, as in the comments of the step functions)
    and computes, from the step functions themselves, the label trace of ONE thread running
    ONE command alone ([qsolo], [wsolo]).  [harness/tx/tx_memo.py] translates the source of
    the decorators and toggles into lists of the same labels ([gen/MemoSrc.v]);
    [proofs/MemoSrcTie.v] proves the two equal.

    Definitions only. *)
From Coq Require Import List Bool Arith String.
Import ListNotations.
From TI Require Import lib.Sched model.Caches model.CachesInval.

Inductive mlabel :=
| LTest         (* a toggle's test of its flag *)
| LFlagWrite    (* the flag is written *)
| LAcquire      (* a [with <lock>:] block is entered *)
| LRelease      (* ... and left *)
| LLookup       (* [cache[arguments]] / the comparison with the cache key *)
| LBody         (* the wrapped function starts *)
| LStore        (* [cache.setdefault(arguments, <result>)] / the cache is written *)
| LClear        (* [cache.clear()] / the cache is zeroed *)
| LGetSize      (* [get_terminal_size()] *)
| LTestSlot     (* [not cache or ts != cache[1]] *)
| LStoreSlot    (* [cache = (<result>, ts)] *)
| LClearSlot    (* [cache = None] *)
| LReturnSlot.  (* [return cache[0]] *)

(** the statements of a library toggle, as [tx_memo.py] reads them *)
Inductive tlabel :=
| TTest (flag : string) (expect : bool)   (* [if utils.<flag>:] ([expect = true]) / [if not utils.<flag>:] *)
| TWrite (flag : string) (v : bool)       (* [utils.<flag> = v] *)
| TInval (memo : string)                  (* [utils.<memo>._invalidate_cache()] *)
| TCellAcquire | TCellClear | TCellRelease.  (* [with utils._cell_size_lock: utils._cell_size_cache[:] = (0,) * 4] *)

Definition mlabel_eqb (a b : mlabel) : bool :=
  match a, b with
  | LTest, LTest | LFlagWrite, LFlagWrite | LAcquire, LAcquire | LRelease, LRelease
  | LLookup, LLookup | LBody, LBody | LStore, LStore | LClear, LClear | LGetSize, LGetSize
  | LTestSlot, LTestSlot | LStoreSlot, LStoreSlot | LClearSlot, LClearSlot
  | LReturnSlot, LReturnSlot => true
  | _, _ => false
  end.

(** ** the memo machine *)

(** which step of the source the next transition of thread [t] stands for ([None]: a
    transition that is not a step of the wrapper / toggle itself — the end of the body, the
    return to the caller; with [locked = false], the VARIANT's skipped acquisition) *)
Definition qlabel (locked : bool) (s : qstate) (t : nat) : option mlabel :=
  let th := q_th s t in
  match q_pc th with
  | QIdle =>
    match q_todo th with
    | [] => None
    | QCall _ :: _ => Some LAcquire
    | QInval :: _ => if locked then Some LAcquire else None
    | QEnable :: _ => Some LTest
    | QDisable :: _ => Some LFlagWrite
    end
  | QSet => Some LFlagWrite
  | QAcq => if locked then Some LAcquire else None
  | QClear _ => Some LClear
  | QRelI => Some LRelease
  | QOutI => None
  | QLook _ _ => Some LLookup
  | QBody _ _ => Some LBody
  | QRun _ _ _ => None
  | QStore _ _ _ => Some LStore
  | QRelC _ _ _ => Some LRelease
  | QOutC _ _ _ => None
  end.

Fixpoint qtrace (locked : bool) (fuel : nat) (s : qstate) : list mlabel :=
  match fuel with
  | O => []
  | S f =>
    match qstep_gen locked s 0 with
    | None => []
    | Some s' => (match qlabel locked s 0 with Some l => [l] | None => [] end) ++ qtrace locked f s'
    end
  end.

(** thread 0 runs the single command [c] alone from empty caches with the flag [f0] *)
Definition qsolo (locked f0 : bool) (c : qcmd) : list mlabel :=
  qtrace locked 32 (qinit f0 (fun _ => None) (fun t => if Nat.eqb t 0 then [c] else [])).

(** ** the toggle machine *)
Definition wlabel (s : wstate) (t : nat) : option mlabel :=
  let th := w_th s t in
  match w_pc th with
  | WIdle =>
    match w_todo th with
    | [] => None
    | WToggle _ :: _ => Some LTest
    | WGet :: _ => Some LAcquire
    end
  | WSetFlag _ => Some LFlagWrite
  | WAcq _ => Some LAcquire
  | WClear _ => Some LClear
  | WRel _ => Some LRelease
  | GLook => Some LLookup
  | GRead => Some LBody
  | GWrite _ => Some LStore
  | GRel _ => Some LRelease
  end.

Fixpoint wtrace (late : bool) (fuel : nat) (s : wstate) : list mlabel :=
  match fuel with
  | O => []
  | S f =>
    match wstep_gen late s 0 with
    | None => []
    | Some s' => (match wlabel s 0 with Some l => [l] | None => [] end) ++ wtrace late f s'
    end
  end.

Definition wsolo (late f0 : bool) (c : wcmd) : list mlabel :=
  wtrace late 32 (winit f0 None (fun t => if Nat.eqb t 0 then [c] else [])).

(** ** a toggle's statement list seen from one cache *)

(** from the memo [m] whose invalidator performs [inval] *)
Definition proj_memo (inval : list mlabel) (m : string) (l : tlabel) : list mlabel :=
  match l with
  | TTest _ _ => [LTest]
  | TWrite _ _ => [LFlagWrite]
  | TInval m' => if String.eqb m m' then inval else []
  | TCellAcquire | TCellClear | TCellRelease => []
  end.

(** from the cell-size cache *)
Definition proj_cell (l : tlabel) : list mlabel :=
  match l with
  | TTest _ _ => [LTest]
  | TWrite _ _ => [LFlagWrite]
  | TInval _ => []
  | TCellAcquire => [LAcquire]
  | TCellClear => [LClear]
  | TCellRelease => [LRelease]
  end.

(** the toggle [set <flag> to b]: tests the flag for [negb b], writes [b], and never touches
    another flag *)
Definition toggle_head (flag : string) (b : bool) (l : list tlabel) : bool :=
  match l with
  | TTest f e :: TWrite f' v :: rest =>
    String.eqb f flag && String.eqb f' flag && Bool.eqb e (negb b) && Bool.eqb v b
    && forallb (fun x => match x with TTest _ _ | TWrite _ _ => false | _ => true end) rest
  | _ => false
  end.

(** position of the first occurrence *)
Fixpoint index_of (x : mlabel) (l : list mlabel) : option nat :=
  match l with
  | [] => None
  | y :: r => if mlabel_eqb x y then Some 0 else option_map S (index_of x r)
  end.

Definition count_of (x : mlabel) (l : list mlabel) : nat := List.length (filter (mlabel_eqb x) l).

(** [a] occurs exactly once, [b] exactly once, [a] before [b] *)
Definition once_before (a b : mlabel) (l : list mlabel) : bool :=
  Nat.eqb (count_of a l) 1 && Nat.eqb (count_of b l) 1 &&
  match index_of a l, index_of b l with
  | Some i, Some j => Nat.ltb i j
  | _, _ => false
  end.

(** the one-slot wrapper of [terminal_size_cached]: the key is read once, inside the lock
    region, before the test and the body; the slot is written after the body, inside the
    same region *)
Definition tsc_shape_ok (l : list mlabel) : bool :=
  once_before LAcquire LGetSize l && once_before LGetSize LTestSlot l
  && once_before LTestSlot LBody l && once_before LBody LStoreSlot l
  && once_before LStoreSlot LRelease l.
