(** * IterFin — [Iter] with a finalizer that may raise (C10)

    A thin wrapper around the code model [Iter] (which is shared and left untouched):
    the renderable's [_finalize_render_data_] is no longer assumed to return normally.
    [fr : nat -> bool] is an oracle: the invocation number [k] (0-based, per render data
    object) of the finalizer raises iff [fr k = true].

    Mirrors
    - [RenderData.finalize()]                               [_types.py:1378-1382]
          if not self.finalized:
              try:     self.render_cls._finalize_render_data_(self)
              finally: self.finalized = True
      the once-flag is set whether or not the finalizer raises; the exception propagates;
    - [RenderIterator.close()]                              [_iterator.py:191-200]
      as REPAIRED by pending_fixes/C10_close_finalizer_raises.diff: the render data is
      dropped and [_closed] set in a [finally], so the finalizer's exception propagates out
      of [close()] and leaves a closed iterator.  (The unrepaired code set [_closed] after
      the call: a raising finalizer left [_closed = False] with [_iterator] deleted for
      good — see [fclose_unrepaired].)
    - [__next__]'s arms [_iterator.py:157-168]: each calls [self.close()] and then raises;
      an exception out of [close()] propagates instead (the original one is its context);
    - [__del__] [_iterator.py:145-149]: only [AttributeError] is swallowed, so an explicit
      call propagates the finalizer's exception (at garbage collection the interpreter
      reports it as unraisable and goes on);
    - [_init_render_(finalize=True)] [_renderable.py:1140-1142] and [draw()]'s [finally]
      [_renderable.py:584-591]: [try: ... finally: render_data.finalize()];
    - [RenderData.__del__] [_types.py:1286-1290]: [finalize()], [AttributeError] swallowed.

    Definitions only. *)
From Coq Require Import List ZArith Bool Arith.
Import ListNotations.
From TI Require Import model.Iter.
Open Scope Z_scope.

(** an operation's outcome: what [Iter] says, or the finalizer's exception propagating in
    its place *)
Inductive fout := FO (x : out) | FRaised (x : out).

Definition unraise (y : fout) : out := match y with FO x | FRaised x => x end.
Definition raisedb (y : fout) : bool := match y with FRaised _ => true | FO _ => false end.

Section IterFin.
  Variable RS : Type.
  Variable render : RS -> Z -> whence -> size -> dur -> Z -> rres * RS.
  Variable n : option Z.
  Variable term : size.
  Variable fr : nat -> bool.

  Notation state := (state RS).

  (** [RenderData.finalize()]: (ghost afterwards, did the finalizer's exception propagate) *)
  Definition fdata_finalize (g : ghost) : ghost * bool :=
    if finalized g then (g, false)
    else ({| owns := owns g; finalized := true (* finally *); fin_calls := S (fin_calls g); log := log g |},
          fr (fin_calls g)).

  (** [close()], repaired *)
  Definition fclose (s : state) : state * bool :=
    if closed s then (s, false)
    else if owns (gh s)
         then let '(g, r) := fdata_finalize (gh s) in (set_closed RS (set_gh RS s g) true, r)
         else (set_closed RS (set_gh RS s (gh s)) true, false).

  (** [close()] as it was: [_closed] is only set when [finalize()] returned *)
  Definition fclose_unrepaired (s : state) : state * bool :=
    if closed s then (s, false)
    else if owns (gh s)
         then let '(g, r) := fdata_finalize (gh s) in
              (if r then set_gh RS s g else set_closed RS (set_gh RS s g) true, r)
         else (set_closed RS (set_gh RS s (gh s)) true, false).

  (** [__next__]: [Iter.next] calls [close] as the last action of exactly those branches
      that end the iteration (generator returned, StopIteration, exception); the state it
      closes differs from [s] at most in [log] / [rd] / the loop counters
      (proofs/IterFinalProofs.next_shape), none of which [finalize()] looks at — so
      whether that [close()] raised can be read off [s] *)
  Definition fnext (s : state) : state * fout :=
    let '(s', x) := next RS render n s in
    if negb (closed s) && closed s' && snd (fclose s) then (s', FRaised x) else (s', FO x).

  Definition fstep (s : state) (o : op) : state * fout :=
    match o with
    | Next => fnext s
    | Close | Drop => let '(s', r) := fclose s in (s', if r then FRaised OOk else FO OOk)
    | _ => let '(s', x) := step RS render n term s o in (s', FO x)
    end.

  Definition frun (s : state) (ops : list op) : state :=
    fold_left (fun s o => fst (fstep s o)) ops s.

  Fixpoint ftrace (s : state) (ops : list op) : list (fout * Z) :=
    match ops with
    | [] => []
    | o :: r => let '(s', y) := fstep s o in (y, pub_loop s') :: ftrace s' r
    end.

  (** ** one-shot operations: [try: <render / draw body> finally: render_data.finalize()],
      then the garbage collection of the data ([RenderData.__del__]) *)
  Inductive oneshot_out := Returned | BodyRaised | FinalizerRaised.

  Definition fresh_data : ghost := {| owns := true; finalized := false; fin_calls := 0; log := [] |}.

  Definition try_finally_finalize (body_raises : bool) (g : ghost) : ghost * oneshot_out :=
    let '(g', r) := fdata_finalize g in
    (g', if r then FinalizerRaised else if body_raises then BodyRaised else Returned).

  (** [RenderData.__del__]: the exception, if any, is reported as unraisable *)
  Definition del_data (g : ghost) : ghost * bool := fdata_finalize g.
End IterFin.

(** the seeded variant of [RenderData.finalize()] (flag set only when the finalizer
    returns), for the refutation example in proofs/IterFinRaiseProofs.v *)
Definition fdata_finalize_flag_after (fr : nat -> bool) (g : ghost) : ghost * bool :=
  if finalized g then (g, false)
  else ({| owns := owns g; finalized := negb (fr (fin_calls g)); fin_calls := S (fin_calls g); log := log g |},
        fr (fin_calls g)).
