(** Comparison used by the correspondence for interleaved requests for the default set of
    one class (case type "intern"; model/RArgsIntern.v).

    One case: thread 0's first-time request is parked at some point inside the constructor;
    thread 1 (the main thread) then performs a COMPLETE request; thread 0 is released and
    finishes; thread 2 asks once more afterwards.  Observed: at the park point whether the
    class is in [_interned] and whether the object being initialised is built; of each of
    the three returned sets whether it is usable and which classes' default namespaces it
    holds; which of the three are the same object; ==/hash of all pairs.

    Rule side ([ispec], independent of the model): every returned set is usable and holds
    exactly the default namespace of every class of the hierarchy that owns one, and all
    are equal and hash equal.  Identity is NOT demanded.
    Model side ([imodel]): there are a number [k] of steps of thread 0 before the park that
    shows the observed shared state ([_interned] / built) at the park point and for which the
    run of [code_proto] on the schedule 0^k 1* 0* 2* gives the observed results AND the
    observed identities. *)
From Coq Require Import List Arith Bool.
Import ListNotations.
From TI Require Import model.RArgsIntern.

Record icase := {
  ic_dflt : list nat;                   (* classes of the hierarchy that own a namespace *)
  ic_pub : bool;                        (* park point: the class is in _interned *)
  ic_built : bool;                      (* park point: the object being initialised is built *)
  ic_res : list (option (list nat));    (* per request 0,1,2: None = unusable, else what it holds *)
  ic_same : list bool;                  (* same object: (0,1), (0,2), (1,2) *)
  ic_eq : bool }.                       (* all usable results pairwise == and hash equal *)

Fixpoint nl_eqb (a b : list nat) : bool :=
  match a, b with
  | [], [] => true
  | x :: a', y :: b' => Nat.eqb x y && nl_eqb a' b'
  | _, _ => false
  end.

Definition onl_eqb (a b : option (list nat)) : bool :=
  match a, b with
  | None, None => true
  | Some x, Some y => nl_eqb x y
  | _, _ => false
  end.

Fixpoint all2b {A B} (f : A -> B -> bool) (a : list A) (b : list B) : bool :=
  match a, b with
  | [], [] => true
  | x :: a', y :: b' => f x y && all2b f a' b'
  | _, _ => false
  end.

Definition obj_of (p : pc) : option nat :=
  match p with
  | PNew => None
  | PInit o | PBuild o | PData o | PPub o | PDone o => Some o
  end.

Definition isched (k : nat) : list nat := repeat 0 k ++ repeat 1 6 ++ repeat 0 6 ++ repeat 2 6.

Definition content (s : st (list nat)) (t : nat) : option (list nat) :=
  match result_of s t with Some o => heap s o | None => None end.

Definition same (s : st (list nat)) (a b : nat) : bool :=
  match result_of s a, result_of s b with
  | Some x, Some y => Nat.eqb x y
  | _, _ => false
  end.

(** the shared state the model shows when thread 0 has made [k] steps *)
Definition park_view (P : proto) (d : list nat) (k : nat) : bool * bool :=
  let s := run d P (repeat 0 k) in
  match obj_of (pcs s 0) with
  | None => (false, false)
  | Some o =>
    ((match interned s with Some o' => Nat.eqb o' o | None => false end),
     (match heap s o with Some _ => true | None => false end))
  end.

Definition imatch (P : proto) (c : icase) (k : nat) : bool :=
  let d := ic_dflt c in
  let '(p, b) := park_view P d k in
  Bool.eqb p (ic_pub c) && Bool.eqb b (ic_built c) &&
  (let s := run d P (isched k) in
   all2b onl_eqb (ic_res c) [content s 0; content s 1; content s 2] &&
   all2b Bool.eqb (ic_same c) [same s 0 1; same s 0 2; same s 1 2]).

Definition imodel_of (P : proto) (c : icase) : bool := existsb (imatch P c) (seq 0 6).
Definition imodel : icase -> bool := imodel_of code_proto.

Definition ispec (c : icase) : bool :=
  Nat.eqb (length (ic_res c)) 3 &&
  forallb (fun r => onl_eqb r (Some (ic_dflt c))) (ic_res c) && ic_eq c.

(** 0 = agrees with model and rule; 1 = differs from the model only; 2 = the observed
    behaviour contradicts the rule (property fails); 3 = both *)
Definition icheck (c : icase) : nat :=
  (if imodel c then 0 else 1) + (if ispec c then 0 else 2).

(** which protocols of the model would show the observed behaviour (diagnosis only):
    1 = the code, 2 = presence test, 4 = publish first, 8 = presence test + publish first *)
Definition idiag (c : icase) : nat :=
  (if imodel_of code_proto c then 1 else 0) +
  (if imodel_of {| p_chk := ChkPresent; p_pub := PubLast |} c then 2 else 0) +
  (if imodel_of {| p_chk := ChkSelf; p_pub := PubFirst |} c then 4 else 0) +
  (if imodel_of {| p_chk := ChkPresent; p_pub := PubFirst |} c then 8 else 0).

Fixpoint iindex_from {A} (n : nat) (l : list A) : list (nat * A) :=
  match l with [] => [] | x :: r => (n, x) :: iindex_from (S n) r end.

Definition ibad (cases : list icase) : list (nat * nat) :=
  filter (fun p => negb (Nat.eqb (snd p) 0)) (iindex_from 0 (map icheck cases)).
