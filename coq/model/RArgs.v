(** * RArgs — model of render-argument sets (C16)

    Mirrors [src/term_image/renderable/_types.py] ([RenderArgs], [ArgsNamespace], the
    namespace metaclasses) and [RenderableMeta.__new__]
    ([src/term_image/renderable/_renderable.py:62-104]).

    - Render classes are numbered in creation order; class 0 is [Renderable];
      [par c < c] is the (single) base class of class [c > 0].  [issubclass(c, a)] is
      [anc F a c].
    - [nsd c = Some fs]: class [c] has an associated [Args] namespace class whose
      default field values are [fs] (associated before [c] is subclassed or used, as the
      documentation requires, so [_ALL_DEFAULT_ARGS] never changes afterwards).
    - A namespace instance is the value [(class, field values)]; namespaces are
      immutable values in Python too ([__setattr__]/[__delattr__] raise), their identity
      is only used as a shortcut of [==].
    - [RenderArgs] objects live in a HEAP with identity ([id] = allocation index);
      [o_kind] is the Python type of the object ([0] = [RenderArgs] itself, [k > 0] a
      subclass; every subclass owns its own [_interned] table,
      [__init_subclass__], _types.py:993-995); [itn k c] is [kind_k._interned.get(c)].
    - [BASE_RENDER_ARGS] is object 0 (created by [__new__] at _types.py:1387,
      initialised by [RenderArgs.__init__(BASE_RENDER_ARGS, Renderable)],
      _renderable.py:1210, which interns it for [Renderable]).

    Definitions only; proofs are in [proofs/RArgsProofs.v]. *)

From Coq Require Import List ZArith Bool Arith Lia.
Import ListNotations.

Definition fupd {A} (f : nat -> A) (i : nat) (x : A) : nat -> A :=
  fun j => if Nat.eqb j i then x else f j.

(** ** Class forest *)

Record forest := { par : nat -> nat; nsd : nat -> option (list Z) }.

Definition hasns (F : forest) (c : nat) : bool :=
  match nsd F c with Some _ => true | None => false end.
Definition dflt (F : forest) (c : nat) : list Z :=
  match nsd F c with Some f => f | None => [] end.

Definition wf_forest (F : forest) : Prop :=
  (forall c, 0 < c -> par F c < c) /\ nsd F 0 = None.

(** the part of [c.__mro__] made of render classes: [c], its base, ..., [Renderable]
    ([fuel = c] suffices since [par c < c]) *)
Fixpoint chain_f (p : nat -> nat) (fuel c : nat) : list nat :=
  c :: match fuel with
       | 0 => []
       | S f => if Nat.eqb c 0 then [] else chain_f p f (p c)
       end.
Definition chain (F : forest) (c : nat) : list nat := chain_f (par F) c c.

(** [issubclass(c, a)] *)
Definition anc (F : forest) (a c : nat) : bool := existsb (Nat.eqb a) (chain F c).

(** ** Namespaces and the ordered dictionaries [_namespaces] / [_ALL_DEFAULT_ARGS] *)

Definition nsv := (nat * list Z)%type.      (* (_RENDER_CLS, field values) *)
Definition dict := list nsv.                (* insertion-ordered; key = fst *)

Fixpoint zl_eqb (a b : list Z) : bool :=
  match a, b with
  | [], [] => true
  | x :: a', y :: b' => Z.eqb x y && zl_eqb a' b'
  | _, _ => false
  end.

Fixpoint dget (d : dict) (c : nat) : option (list Z) :=
  match d with
  | [] => None
  | (k, v) :: r => if Nat.eqb k c then Some v else dget r c
  end.
Definition dmem (d : dict) (c : nat) : bool :=
  match dget d c with Some _ => true | None => false end.
(** [d[c] = v]: an existing key keeps its position, a new key goes last *)
Fixpoint dset (d : dict) (c : nat) (v : list Z) : dict :=
  match d with
  | [] => [(c, v)]
  | (k, w) :: r => if Nat.eqb k c then (k, v) :: r else (k, w) :: dset r c v
  end.
(** [d.update(e)] *)
Definition dupdate (d e : dict) : dict :=
  fold_left (fun acc kv => dset acc (fst kv) (snd kv)) e d.

(** [cls._ALL_DEFAULT_ARGS]: [RenderableMeta.__new__] collects, over the MRO without
    the class itself, the default namespace of every class that has [Args]
    (_renderable.py:81-87,97); associating an [Args] class with [cls] later puts
    [{cls: args_cls(), **old}] (_types.py:296-298).  Both give: own first, then nearest
    ancestor first. *)
Definition keys (F : forest) (c : nat) : list nat := filter (hasns F) (chain F c).
Definition defaults (F : forest) (c : nat) : dict := map (fun k => (k, dflt F k)) (keys F c).

(** ** Heap *)

Record obj := { o_kind : nat; o_body : option (nat * dict) }.  (* body: render_cls, _namespaces *)
Record heap := {
  hp : nat -> option obj;            (* objects by identity *)
  nxt : nat;                         (* next identity *)
  itn : nat -> nat -> option nat     (* kind -> render class -> interned object *)
}.

Definition BASE : nat := 0.

Definition heap0 : heap :=
  {| hp := fupd (fun _ => None) BASE (Some {| o_kind := 0; o_body := Some (0, []) |});
     nxt := 1;
     itn := fun k c => if Nat.eqb k 0 && Nat.eqb c 0 then Some BASE else None |}.

Inductive err :=
| EIncompatRA      (* IncompatibleRenderArgsError *)
| EIncompatNS      (* IncompatibleArgsNamespaceError *)
| ENoArgsNS        (* NoArgsNamespaceError *)
| EValue           (* ValueError *)
| EUnknownField    (* UnknownArgsFieldError *)
| EType            (* TypeError *)
| EBadOperand.     (* the operand is not an initialised object: cannot be written in Python *)

Inductive res (A : Type) := Ok (a : A) | Err (e : err).
Arguments Ok {A} a.
Arguments Err {A} e.

(** an initialised object: (kind, render_cls, _namespaces) *)
Definition getobj (h : heap) (i : nat) : option (nat * nat * dict) :=
  match hp h i with
  | Some o => match o_body o with Some (c, d) => Some (o_kind o, c, d) | None => None end
  | None => None
  end.

Definition oeqb (o : option nat) (i : nat) : bool :=
  match o with Some j => Nat.eqb j i | None => false end.
Definition is_some {A} (o : option A) : bool := match o with Some _ => true | None => false end.

(** resolution of the [init_render_args] argument: [None] = not an initialised object;
    [Some None] = no init; [Some (Some (i, kind, cls, namespaces))] *)
Definition init_info (h : heap) (init : option nat)
  : option (option (nat * nat * nat * dict)) :=
  match init with
  | None => Some None
  | Some i => match getobj h i with
              | Some (k, c, d) => Some (Some (i, k, c, d))
              | None => None
              end
  end.

(** [not init_render_args or init_render_args is BASE_RENDER_ARGS
     or K._interned.get(init_render_args.render_cls) is init_render_args]
    (_types.py:920-924 with [K = cls], 955-960 with [K = type(self)]) *)
Definition default_like (h : heap) (k : nat) (ii : option (nat * nat * nat * dict)) : bool :=
  match ii with
  | None => true
  | Some (i, _, ci, _) => Nat.eqb i BASE || oeqb (itn h k ci) i
  end.

Definition alloc (h : heap) (k : nat) : heap * nat :=
  ({| hp := fupd (hp h) (nxt h) (Some {| o_kind := k; o_body := None |});
      nxt := S (nxt h); itn := itn h |}, nxt h).

(** [RenderArgs.__new__], _types.py:897-937 ([k] = the class being instantiated) *)
Definition rnew (F : forest) (h : heap) (k cls : nat) (init : option nat) (nss : list nsv)
  : res (heap * nat) :=
  match init_info h init with
  | None => Err EBadOperand
  | Some ii =>
    (* :911 *)
    if match ii with Some (_, _, ci, _) => negb (anc F ci cls) | None => false end
    then Err EIncompatRA
    else
      let fresh := Ok (alloc h k) in                       (* :937 *)
      match nss with
      | [] =>                                              (* :918 *)
        let second :=                                      (* :930-935 *)
            match ii with
            | Some (i, ki, ci, _) =>
              if Nat.eqb ki k && Nat.eqb ci cls then Ok (h, i) else fresh
            | None => fresh
            end in
        if default_like h k ii then                        (* :920-924 *)
          match itn h k cls with                           (* :925-928 *)
          | Some j => Ok (h, j)
          | None => second
          end
        else second
      | _ :: _ => fresh
      end
  end.

(** the loop of _types.py:979-986 *)
Fixpoint assign_all (d : dict) (nss : list nsv) : option dict :=
  match nss with
  | [] => Some d
  | (c, v) :: r => if dmem d c then assign_all (dset d c v) r else None
  end.

Definition write (h : heap) (i : nat) (k : nat) (c : nat) (d : dict) : heap :=
  {| hp := fupd (hp h) i (Some {| o_kind := k; o_body := Some (c, d) |});
     nxt := nxt h; itn := itn h |}.
Definition set_itn (h : heap) (k c i : nat) : heap :=
  {| hp := hp h; nxt := nxt h; itn := fupd (itn h) k (fupd (itn h k) c (Some i)) |}.

(** [RenderArgs.__init__], _types.py:939-991, run on [self] = whatever [__new__]
    returned, with the same arguments *)
Definition rinit (F : forest) (h : heap) (self cls : nat) (init : option nat) (nss : list nsv)
  : res heap :=
  match hp h self with
  | None => Err EBadOperand
  | Some so =>
    let k := o_kind so in                                  (* type(self) *)
    match init_info h init with
    | None => Err EBadOperand
    | Some ii =>
      let cond := match nss with [] => default_like h k ii | _ => false end in  (* :954-961 *)
      if cond && is_some (itn h k cls) then Ok h           (* :962-963 *)
      else
        let intern := cond in                              (* :964-966 *)
        if match ii with Some (i, _, _, _) => Nat.eqb i self | None => false end
        then Ok h                                          (* :968-969 *)
        else
          let d0 := defaults F cls in                      (* :971 *)
          let d1 :=                                        (* :974-977 *)
              match ii with
              | Some (i, _, ci, di) =>
                if negb (Nat.eqb i BASE) && negb (oeqb (itn h k ci) i)
                then dupdate d0 di else d0
              | None => d0
              end in
          match assign_all d1 nss with                     (* :979-986 *)
          | None => Err EIncompatNS
          | Some d2 =>
            let h' := write h self k cls d2 in             (* :988 *)
            Ok (if intern then set_itn h' k cls self else h')   (* :990-991 *)
          end
    end
  end.

(** [K(render_cls, init, *namespaces)]: [type.__call__] = [__new__] then [__init__] on the
    result (always an instance of [K] here).  When [__init__] raises, the object
    [__new__] allocated stays uninitialised and unreachable. *)
Definition construct (F : forest) (h : heap) (k cls : nat) (init : option nat)
           (nss : list nsv) : heap * res nat :=
  match rnew F h k cls init nss with
  | Err e => (h, Err e)
  | Ok (h1, self) =>
    match rinit F h1 self cls init nss with
    | Err e => (h1, Err e)
    | Ok h2 => (h2, Ok self)
    end
  end.

(** ** [RenderArgs] methods *)

(** [__getitem__], _types.py:1029-1075 (for an argument that is a render class) *)
Definition getitem (F : forest) (cls : nat) (d : dict) (rc : nat) : res (list Z) :=
  match dget d rc with
  | Some f => Ok f
  | None => if anc F rc cls then Err ENoArgsNS else Err EValue
  end.

Fixpoint set_nth (l : list Z) (n : nat) (v : Z) : list Z :=
  match l, n with
  | [], _ => []
  | _ :: r, 0 => v :: r
  | x :: r, S m => x :: set_nth r m v
  end.

(** [ArgsNamespace.update] (keyword fields), _types.py:567-594; a field is named by its
    position in the class's field list, a position past the end is an unknown name *)
Definition ns_update (F : forest) (c : nat) (f : list Z) (fields : list (nat * Z))
  : res (list Z) :=
  match fields with
  | [] => Ok f
  | _ => if existsb (fun p => length (dflt F c) <=? fst p) fields then Err EUnknownField
         else Ok (fold_left (fun acc p => set_nth acc (fst p) (snd p)) fields f)
  end.

(** [update(namespace, *namespaces)], _types.py:1223-1236 *)
Definition update_ns (F : forest) (h : heap) (x : nat) (nss : list nsv) : heap * res nat :=
  match getobj h x with
  | None => (h, Err EBadOperand)
  | Some (_, cx, _) => construct F h 0 cx (Some x) nss
  end.

(** [update] (render_cls, keyword fields), _types.py:1216-1222,1232-1236 *)
Definition update_fields (F : forest) (h : heap) (x rc : nat) (fields : list (nat * Z))
  : heap * res nat :=
  match getobj h x with
  | None => (h, Err EBadOperand)
  | Some (_, cx, dx) =>
    match getitem F cx dx rc with
    | Err e => (h, Err e)
    | Ok f =>
      match ns_update F rc f fields with
      | Err e => (h, Err e)
      | Ok f' => construct F h 0 cx (Some x) [(rc, f')]
      end
    end
  end.

(** [convert(render_cls)], _types.py:1120-1155 *)
Definition convert (F : forest) (h : heap) (x rc : nat) : heap * res nat :=
  match getobj h x with
  | None => (h, Err EBadOperand)
  | Some (_, cx, dx) =>
    if Nat.eqb rc cx then (h, Ok x)                                    (* :1135 *)
    else if anc F cx rc then construct F h 0 rc (Some x) []            (* :1138 *)
    else if anc F rc cx then                                           (* :1141-1150 *)
      construct F h 0 rc None (filter (fun kv => dmem (defaults F rc) (fst kv)) dx)
    else (h, Err EValue)
  end.

(** [__contains__], _types.py:1008 *)
Definition contains (h : heap) (x : nat) (n : nsv) : bool :=
  match getobj h x with
  | Some (_, _, d) => match dget d (fst n) with Some f => zl_eqb f (snd n) | None => false end
  | None => false
  end.

(** dictionary equality as Python computes it *)
Definition deq (a b : dict) : bool :=
  Nat.eqb (length a) (length b) &&
  forallb (fun kv => match dget b (fst kv) with Some v => zl_eqb (snd kv) v | None => false end) a.

(** [__eq__], _types.py:1010-1027 *)
Definition req (h : heap) (x y : nat) : bool :=
  match getobj h x, getobj h y with
  | Some (_, cx, dx), Some (_, cy, dy) => Nat.eqb x y || (Nat.eqb cx cy && deq dx dy)
  | _, _ => false
  end.

(** [__hash__], _types.py:1089: the value handed to [hash()], i.e.
    [(render_cls, tuple(namespaces))] where a namespace hashes as
    [(_RENDER_CLS, tuple(field values))] (_types.py:420-425) *)
Definition rhash (h : heap) (x : nat) : option (nat * dict) :=
  match getobj h x with Some (_, c, d) => Some (c, d) | None => None end.

(** [ArgsNamespace.__eq__] / [__hash__], _types.py:386-425 *)
Definition ns_eq (a b : nsv) : bool := Nat.eqb (fst a) (fst b) && zl_eqb (snd a) (snd b).
Definition ns_hash (a : nsv) : nsv := a.

(** ** [ArgsNamespace] operators (they all build a plain [RenderArgs], kind 0) *)

Inductive operand := ONs (n : nsv) | ORa (x : nat).

(** [__or__], _types.py:427-480 *)
Definition ns_or (F : forest) (h : heap) (a : nsv) (b : operand) : heap * res nat :=
  let ca := fst a in
  match b with
  | ONs n =>
    let cb := fst n in
    if Nat.eqb ca cb then construct F h 0 cb None [n]                  (* :456 *)
    else if anc F cb ca then construct F h 0 ca None [a; n]            (* :458 *)
    else if anc F ca cb then construct F h 0 cb None [a; n]            (* :460 *)
    else (h, Err EIncompatNS)
  | ORa x =>
    match getobj h x with
    | None => (h, Err EBadOperand)
    | Some (_, cb, _) =>
      if anc F cb ca then construct F h 0 ca (Some x) [a]              (* :470 *)
      else if anc F ca cb then construct F h 0 cb (Some x) [a]         (* :472 *)
      else (h, Err EIncompatRA)
    end
  end.

(** [__ror__], _types.py:495-509 *)
Definition ns_ror (F : forest) (h : heap) (a : nsv) (b : operand) : heap * res nat :=
  match b with
  | ONs n => if Nat.eqb (fst a) (fst n) then construct F h 0 (fst a) None [a]
             else ns_or F h a b
  | ORa _ => ns_or F h a b
  end.

(** [__pos__] (:482-493) and [to_render_args] (:548-565) *)
Definition ns_pos (F : forest) (h : heap) (a : nsv) : heap * res nat :=
  construct F h 0 (fst a) None [a].
Definition ns_to (F : forest) (h : heap) (a : nsv) (rc : nat) : heap * res nat :=
  construct F h 0 rc None [a].

(** ** Programs: operations whose operands are results of earlier operations *)

Inductive op :=
| OConstruct (k cls : nat) (init : option nat) (nss : list nsv)
| OUpdateNs (x : nat) (nss : list nsv)
| OUpdateFields (x rc : nat) (fields : list (nat * Z))
| OConvert (x rc : nat)
| OOr (a : nsv) (b : nsv + nat)      (* a | b          (a.__or__(b)) *)
| ORor (a : nsv) (b : nsv + nat)     (* b | a resolved by a.__ror__(b) *)
| OPos (a : nsv)
| OTo (a : nsv) (rc : nat).

(** variables: [env] holds the result of every earlier operation *)
Definition lookup (env : list (res nat)) (v : nat) : option nat :=
  match nth_error env v with Some (Ok i) => Some i | _ => None end.

Definition step_op (F : forest) (h : heap) (env : list (res nat)) (o : op) : heap * res nat :=
  let bad := (h, Err EBadOperand) in
  let opd (b : nsv + nat) (k : operand -> heap * res nat) :=
      match b with
      | inl n => k (ONs n)
      | inr v => match lookup env v with Some i => k (ORa i) | None => bad end
      end in
  match o with
  | OConstruct k cls None nss => construct F h k cls None nss
  | OConstruct k cls (Some v) nss =>
    match lookup env v with Some i => construct F h k cls (Some i) nss | None => bad end
  | OUpdateNs v nss =>
    match nss with
    | [] => (h, Err EType)     (* update() without a positional argument *)
    | _ => match lookup env v with Some i => update_ns F h i nss | None => bad end
    end
  | OUpdateFields v rc fields =>
    match lookup env v with Some i => update_fields F h i rc fields | None => bad end
  | OConvert v rc =>
    match lookup env v with Some i => convert F h i rc | None => bad end
  | OOr a b => opd b (ns_or F h a)
  | ORor a b => opd b (ns_ror F h a)
  | OPos a => ns_pos F h a
  | OTo a rc => ns_to F h a rc
  end.

Definition state := (heap * list (res nat))%type.
Definition step (F : forest) (s : state) (o : op) : state :=
  let '(h', r) := step_op F (fst s) (snd s) o in (h', snd s ++ [r]).
Definition run_from (F : forest) (s : state) (p : list op) : state := fold_left (step F) p s.
Definition run (F : forest) (p : list op) : state := run_from F (heap0, []) p.

(** ** The documented rule, stated on VALUES (no heap, no identity, no interning)

    A set of render arguments denotes its class and, for every render class, the
    field values it holds for it (or nothing). *)

Record sval := { s_cls : nat; s_ns : nat -> option (list Z) }.

(** the last namespace given for class [c] *)
Fixpoint last_for (c : nat) (nss : list nsv) : option (list Z) :=
  match nss with
  | [] => None
  | (k, v) :: r => match last_for c r with
                   | Some w => Some w
                   | None => if Nat.eqb k c then Some v else None
                   end
  end.

(** "compatible": associated with the target class or one of its ancestors *)
Definition ns_compatible (F : forest) (t : nat) (n : nsv) : bool :=
  anc F (fst n) t && hasns F (fst n).

(** RenderArgs(t, init, *nss): docstring _types.py:840-871 *)
Definition spec_construct (F : forest) (t : nat) (init : option sval) (nss : list nsv)
  : res sval :=
  if match init with Some iv => negb (anc F (s_cls iv) t) | None => false end
  then Err EIncompatRA
  else if negb (forallb (ns_compatible F t) nss) then Err EIncompatNS
  else Ok {| s_cls := t;
             s_ns := fun c =>
               if anc F c t && hasns F c then
                 Some (match last_for c nss with
                       | Some f => f
                       | None =>
                         match init with
                         | Some iv => match s_ns iv c with Some f => f | None => dflt F c end
                         | None => dflt F c
                         end
                       end)
               else None |}.

Definition spec_getitem (F : forest) (v : sval) (rc : nat) : res (list Z) :=
  if negb (anc F rc (s_cls v)) then Err EValue
  else match s_ns v rc with Some f => Ok f | None => Err ENoArgsNS end.

(** the last value given for field [j] *)
Fixpoint last_val (j : nat) (fields : list (nat * Z)) : option Z :=
  match fields with
  | [] => None
  | (k, v) :: r => match last_val j r with
                   | Some w => Some w
                   | None => if Nat.eqb k j then Some v else None
                   end
  end.

(** documented field update: named fields replaced, the others kept *)
Definition spec_fields (F : forest) (c : nat) (f : list Z) (fields : list (nat * Z))
  : res (list Z) :=
  if existsb (fun p => length (dflt F c) <=? fst p) fields then Err EUnknownField
  else Ok (map (fun j => match last_val j fields with
                         | Some z => z
                         | None => nth j f 0%Z
                         end) (seq 0 (length f))).

Definition spec_op (F : forest) (senv : list (res sval)) (o : op) : res sval :=
  let look v := match nth_error senv v with Some (Ok s) => Some s | _ => None end in
  let related a b := anc F a b || anc F b a in
  let most_derived a b := if anc F b a then a else b in
  let orspec (a : nsv) (b : nsv + nat) (same_class_winner_is_other : bool) :=
      match b with
      | inl n =>
        if negb (related (fst a) (fst n)) then Err EIncompatNS
        else spec_construct F (most_derived (fst a) (fst n)) None
                            (if same_class_winner_is_other then [a; n] else [n; a])
      | inr v =>
        match look v with
        | None => Err EBadOperand
        | Some s =>
          if negb (related (fst a) (s_cls s)) then Err EIncompatRA
          else spec_construct F (most_derived (fst a) (s_cls s)) (Some s) [a]
        end
      end in
  match o with
  | OConstruct _ cls None nss => spec_construct F cls None nss
  | OConstruct _ cls (Some v) nss =>
    match look v with Some s => spec_construct F cls (Some s) nss | None => Err EBadOperand end
  | OUpdateNs v nss =>
    match nss with
    | [] => Err EType
    | _ => match look v with
           | Some s => spec_construct F (s_cls s) (Some s) nss
           | None => Err EBadOperand
           end
    end
  | OUpdateFields v rc fields =>
    match look v with
    | None => Err EBadOperand
    | Some s =>
      match spec_getitem F s rc with
      | Err e => Err e
      | Ok f =>
        match spec_fields F rc f fields with
        | Err e => Err e
        | Ok f' => Ok {| s_cls := s_cls s;
                         s_ns := fun c => if Nat.eqb c rc then Some f' else s_ns s c |}
        end
      end
    end
  | OConvert v rc =>
    match look v with
    | None => Err EBadOperand
    | Some s =>
      if anc F (s_cls s) rc then spec_construct F rc (Some s) []      (* to a descendant *)
      else if anc F rc (s_cls s) then                                  (* to an ancestor *)
        Ok {| s_cls := rc; s_ns := fun c => if anc F c rc then s_ns s c else None |}
      else Err EValue
    end
  | OOr a b => orspec a b true
  | ORor a b => orspec a b false
  | OPos a => spec_construct F (fst a) None [a]
  | OTo a rc => spec_construct F rc None [a]
  end.

Definition spec_run_from (F : forest) (senv : list (res sval)) (p : list op) : list (res sval) :=
  fold_left (fun e o => e ++ [spec_op F e o]) p senv.
Definition spec_run (F : forest) (p : list op) : list (res sval) := spec_run_from F [] p.

(** ** Namespace class statements: the metaclass decision rules *)

Inductive nkind := KArgs | KData.

Inductive merr :=
| MNoDefault          (* RenderArgsError: field has no default value        _types.py:273-281 *)
| MMultipleBases      (* RenderArgsDataError: multiple base classes         :158-159 *)
| MInheritAndDefine   (* RenderArgsDataError: both inherit and define       :164-166 *)
| MReassociate        (* RenderArgsDataError: cannot reassociate a subclass :175-179 *)
| MNoFields           (* RenderArgsDataError: associate without fields      :180-183 *)
| MNotRenderCls       (* TypeError: render_cls is not a render class        :184-185 *)
| MUnassociatedFields (* RenderArgsDataError: unassociated with fields      :190-191 *)
| MRequiredParam      (* TypeError: constructor has a required parameter    :195-210 *)
| MAlreadyHas.        (* RenderArgsError / RenderDataError: the render class
                         already has a namespace class                      :289-294, 613-618 *)

Inductive mres := MAccept | MReject (e : merr).

(** what the metaclass looks at in [class N(B1, ..., render_cls=R): fields...; ctor] *)
Record nstmt := {
  n_kind : nkind;
  n_extra_bases : nat;              (* number of bases beyond the first *)
  n_base_fields : bool;             (* the (first) base has fields: [base._FIELDS] non-empty *)
  n_base_assoc : bool;              (* [base._associated] *)
  n_fields : list bool;             (* one entry per annotated field: has a default value *)
  n_rc : option (option bool);      (* [None]: no / falsy [render_cls];
                                       [Some None]: not a render class;
                                       [Some (Some taken)]: a render class whose
                                       [Args] / [_Data_] slot is already [taken] *)
  n_required : bool                 (* [__new__]/[__init__] has a required parameter *)
}.

Definition ns_meta (s : nstmt) : mres :=
  (* ArgsNamespaceMeta.__new__ :272-281 (before anything else) *)
  if (match n_kind s with KArgs => true | KData => false end)
     && negb (forallb (fun b => b) (n_fields s)) then MReject MNoDefault
  (* ArgsDataNamespaceMeta.__new__ :158-191 *)
  else if negb (Nat.eqb (n_extra_bases s) 0) then MReject MMultipleBases
  else
    let fields := negb (Nat.eqb (length (n_fields s)) 0) in
    if n_base_fields s && fields then MReject MInheritAndDefine
    else
      match n_rc s with
      | Some r =>
        if n_base_assoc s then MReject MReassociate
        else if negb fields then MReject MNoFields
        else match r with
             | None => MReject MNotRenderCls
             | Some taken =>
               (* :195-210: the new class has fields here *)
               if n_required s then MReject MRequiredParam
               (* :289-294 / :613-618 *)
               else if taken then MReject MAlreadyHas
               else MAccept
             end
      | None =>
        if fields then MReject MUnassociatedFields
        else if n_base_fields s && n_required s then MReject MRequiredParam
        else MAccept
      end.

(** [ArgsNamespace.__init__] (positional values, keyword fields), _types.py:337-360: [nf] fields,
    [nv] positional values, keywords named by field position (past the end = unknown) *)
Inductive cerr := CTooMany | CUnknown | CMultiple.
Definition ns_ctor (nf nv : nat) (kw : list nat) : option cerr :=
  if nf <? nv then Some CTooMany                                  (* TypeError :340-344 *)
  else if existsb (fun j => nf <=? j) kw then Some CUnknown       (* UnknownArgsFieldError :347-352 *)
  else if existsb (fun j => j <? nv) kw then Some CMultiple       (* TypeError :353-358 *)
  else None.

(** value built by an accepted constructor call *)
Definition ns_ctor_value (dfl : list Z) (vals : list Z) (kw : list (nat * Z)) : list Z :=
  fold_left (fun acc p => set_nth acc (fst p) (snd p)) kw
            (vals ++ skipn (length vals) dfl).

(** [RenderableMeta.__new__], _renderable.py:71-72: one flag per base, "is a subclass
    of Renderable" *)
Definition renderable_meta (bases : list bool) : bool := existsb (fun b => b) bases.

(** ** Forests given by lists (what the correspondence and the examples use) *)

Definition mkF (pl : list nat) (nl : list (option (list Z))) : forest :=
  {| par := fun c => nth c pl 0; nsd := fun c => nth c nl None |}.

Definition wf_lists (pl : list nat) (nl : list (option (list Z))) : bool :=
  forallb (fun c => nth c pl 0 <? c) (seq 1 (length pl - 1)) &&
  match nth 0 nl None with None => true | Some _ => false end.
