(** * SettingsGeom — the GEOMETRY of a render request and the PAYLOAD it transmits (C20)

    "The render method actually used for a render is the effective one unless overridden
    for that call" — for every geometry of the render: any number of lines (exactly ONE
    line included), any number of columns, any cell size, any original pixel size.

    For a render exactly one line high the escape-sequence FRAMING of LINES and WHOLE
    coincides (one transmission, no cursor movement in between), so the number of
    transmissions cannot tell which method was used.  What the methods document differs in
    the PAYLOAD:

    - LINES: the image is resampled to the render's pixel size
      ([_get_render_size()] = columns x cell width, lines x cell height;
      [common.py:1916-1917]) and every line is transmitted as its own image of
      (columns x cell width) x (cell height) pixels ([iterm2.py:722-753],
      [kitty.py:464-484]: [cell_height = height // r_height]);
    - WHOLE: ONE image of the MINIMAL render size ([_get_minimal_render_size()],
      [common.py:1896-1914]: the render size if its area is less than the original's,
      else the ORIGINAL size); on iterm2, with [read_from_file] in effect, a non-animated
      readable file source whose area is not above the render's is transmitted VERBATIM
      ([iterm2.py:673-698]);
    - ANIM (iterm2, native animation): the whole animated file, verbatim
      ([iterm2.py:607-660]).

    A transmission is described by (pixel width, pixel height, verbatim).  Definitions
    only; proofs are in [proofs/SettingsGeomProofs.v]. *)

From Coq Require Import List ZArith Bool Arith.
Import ListNotations.
From TI Require Import model.Settings model.SettingsRender model.SettingsRoute.
Open Scope Z_scope.

(** the geometry of a render request: rendered size in cells, cell size in pixels,
    original size of the source in pixels *)
Record geom := {
  height_lines : nat;
  width_cols : Z;
  cell_w : Z;
  cell_h : Z;
  ori_w : Z;
  ori_h : Z
}.

(** one transmitted image: pixel width, pixel height, "the bytes are the source file's" *)
Definition tx := (Z * Z * bool)%type.

Definition area (p : Z * Z) : Z := fst p * snd p.
Definition ori_size (g : geom) : Z * Z := (ori_w g, ori_h g).

(** [_get_render_size()] *)
Definition render_size (g : geom) : Z * Z :=
  (width_cols g * cell_w g, Z.of_nat (height_lines g) * cell_h g).

(** [_get_minimal_render_size()] (without [adjust]) *)
Definition minimal_size (g : geom) : Z * Z :=
  if area (render_size g) <? area (ori_size g) then render_size g else ori_size g.

(** facts about the source and the settings the payload depends on: the source is
    animated; [read_from_file] as the instance sees it; the source is a readable file
    whose mode allows the verbatim read *)
Record pfacts := { p_animated : bool; p_rff : bool; p_readable : bool }.

(** What [_render_image] transmits once the method [m] is resolved ([m] = ANIM only for a
    native animation), branch for branch. *)
Definition render_payload (s : rstyle) (m : Z) (f : pfacts) (g : geom) : list tx :=
  if m =? ANIM then [(ori_w g, ori_h g, true)]
  else
    let wh := if m =? WHOLE then minimal_size g else render_size g in
    let verbatim :=
        match s with
        | SITerm2 => p_rff f && negb (p_animated f) && p_readable f && (m =? WHOLE)
                     && (area (ori_size g) <=? area (render_size g))
        | SKitty => false
        end in
    if verbatim then [(ori_w g, ori_h g, true)]
    else if m =? LINES then
           repeat (fst wh, snd wh / Z.of_nat (height_lines g), false) (height_lines g)
         else [(fst wh, snd wh, false)].

(** the render of one request: the decision [SettingsRender.render_used] (which is not
    given the geometry) and the payload *)
Definition render_geom (s : rstyle) (eff : Z) (ov : option Z) (animated frame : bool)
           (size limit : Z) (f : pfacts) (g : geom) : rout * list tx :=
  let r := render_used eff ov animated frame size limit in
  (r, render_payload s (used r) f g).

(** ** histories whose render requests carry their geometry *)

Inductive geop :=
| GMeth (o : op)
| GLim (l : gop)
| GRender (i : nat) (override : option Z) (frame : bool) (g : geom).

Definition to_rop (o : geop) : rop :=
  match o with
  | GMeth o' => RMeth o'
  | GLim l => RLim l
  | GRender i ov fr _ => RRender i ov fr
  end.

Definition render_geoms (h : list geop) : list (nat * geom) :=
  flat_map (fun o => match o with GRender i _ _ g => [(i, g)] | _ => [] end) h.

Definition with_payload (pay : rstyle -> Z -> pfacts -> geom -> list tx) (s : rstyle)
           (facts : nat -> pfacts) (x : rout * (nat * geom)) : rout * list tx :=
  (fst x, pay s (used (fst x)) (facts (fst (snd x))) (snd (snd x))).

(** what the renders of a history report and transmit, in order (model) *)
Definition gtrace (s : rstyle) (k : kind) (par icls : nat -> nat) (src : sources)
           (facts : nat -> pfacts) (h : list geop) : list (rout * list tx) :=
  map (with_payload render_payload s facts)
      (combine (rtrace k par icls src (rinit k) (map to_rop h)) (render_geoms h)).

(** ** the documented payload of each method *)

Definition doc_whole_size (g : geom) : Z * Z :=
  if area (ori_size g) <=? area (render_size g) then ori_size g else render_size g.

Definition doc_whole_verbatim (s : rstyle) (f : pfacts) (g : geom) : bool :=
  match s with
  | SITerm2 => p_rff f && negb (p_animated f) && p_readable f
               && (area (ori_size g) <=? area (render_size g))
  | SKitty => false
  end.

Definition doc_payload (s : rstyle) (m : Z) (f : pfacts) (g : geom) : list tx :=
  if m =? LINES then
    repeat (width_cols g * cell_w g, cell_h g, false) (height_lines g)
  else if m =? ANIM then [(ori_w g, ori_h g, true)]
  else [(fst (doc_whole_size g), snd (doc_whole_size g), doc_whole_verbatim s f g)].

(** the documented rule on the history alone, with the documented payload of the method *)
Definition spec_gtrace (s : rstyle) (k : kind) (par icls : nat -> nat) (src : sources)
           (facts : nat -> pfacts) (h : list geop) : list (rout * list tx) :=
  map (with_payload doc_payload s facts)
      (combine (spec_rtrace k par icls src [] (map to_rop h)) (render_geoms h)).

Definition valid_method (m : Z) : Prop := m = LINES \/ m = WHOLE \/ m = ANIM.

(** ** an excluded design: "a render exactly one line high is made up of one image either
       way", so it takes the WHOLE path *)
Definition render_geom_oneline (s : rstyle) (eff : Z) (ov : option Z) (animated frame : bool)
           (size limit : Z) (f : pfacts) (g : geom) : rout * list tx :=
  let r := render_used eff ov animated frame size limit in
  let m := if negb (used r =? ANIM) && Nat.eqb (height_lines g) 1 then WHOLE else used r in
  ({| used := m; warned := warned r |}, render_payload s m f g).
