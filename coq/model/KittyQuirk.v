(** * KittyQuirk — C01: what "covers every cell" means on a terminal with kitty's quirks

    (a) kitty does not paint a cell background whose colour equals the terminal's DEFAULT
        background colour (it treats it as "default background": see-through).  Coverage is
        therefore judged per terminal: an event written with attributes whose background is
        [Some d], [d] the default background of a kitty terminal, paints nothing there.
        [covered_on] is C01's coverage under that quirk (lib/Term.v's [covered] is the one of
        a terminal without it); [tok_safe] is the code's discipline ("every emitted background
        colour differs from the default background whenever the terminal is kitty and the
        colour is known", [block.py:83-88]).
    (b) a kitty graphics transmission is displayed only if it is ACCEPTED: its (decoded)
        payload has exactly [s * v * f/8] bytes for the [f] of ITS OWN control data.  A
        rejected transmission places nothing: [accept_view] is the token stream as such a
        terminal acts on it; [img_cover_checkb] demands that every cell of the rectangle is
        under a placement.  The control data of each line of a LINES render is a function
        of that line only ([policy_tx]; the code: [line_tx], [kitty.py:455-480]). *)
From Coq Require Import List ZArith Bool Lia.
Import ListNotations.
From TI Require Import lib.Term lib.TermFacts lib.Rect lib.RectCheck lib.Lines model.Block model.GfxRender.
Open Scope Z_scope.

(** ** (a) default-background quirk *)
Section Quirk.
Variable kitty : bool.            (* the terminal is kitty *)
Variable dbg : option rgb.        (* its default background colour, when known *)

Definition unpainted (c : rgb) : bool :=
  kitty && match dbg with Some d => rgb_eqb c d | None => false end.
Definition attrs_painted (a : attrs) : bool :=
  match bg a with Some c => negb (unpainted c) | None => true end.
(** an event that asks for an explicit background which the terminal does not paint *)
Definition ev_painted (e : ev) : bool :=
  match e with
  | EText _ _ _ a | EErase _ _ a => attrs_painted a
  | _ => true
  end.
Definition covered_on (evs : list ev) (r c : Z) : bool :=
  existsb (fun e => ev_covers r c e && ev_painted e) evs.

Definition tok_safe (x : tok) : bool :=
  match x with TBg c => negb (unpainted c) | _ => true end.

(** every cell of the [h x w] rectangle drawn at (r0, lm) is covered on that terminal *)
Definition quirk_cover_checkb (w h lm r0 : Z) (R : list tok) : bool :=
  let evs := log (exec lm (start r0 lm) R) in
  forallb (fun r => forallb (fun c => covered_on evs r c) (zrange lm w)) (zrange r0 h).
End Quirk.

(** the excluded design: the work-around applied to SOLID cells only (half-block cells emit
    the lower colour unchanged) *)
Definition update_buffer_solid_only (alpha kitty : bool) (bgcol : option rgb) (split : bool)
           (c1 c2 : rgb) (ac1 ac2 : Z) (n : nat) : list tok :=
  if alpha && (ac1 =? 0) && (ac2 =? 0) then TSgr0 :: glyphs split GSpace n
  else if alpha && (ac1 =? 0) then TSgr0 :: TFg c2 :: glyphs split GLower n
  else if alpha && (ac2 =? 0) then TSgr0 :: TFg c1 :: glyphs split GUpper n
  else if rgb_eqb c1 c2 then
    TBg (if kitty && is_bg bgcol c2 then nudge c2 else c2) :: glyphs split GSpace n
  else TBg c2 :: TFg c1 :: glyphs split GUpper n.
(** a one-cell render with that [update_buffer] *)
Definition render1_solid_only alpha kitty bgcol split (p : px) : list tok :=
  update_buffer_solid_only alpha kitty bgcol split (p1 p) (p2 p) (a1 p) (a2 p) 1 ++ [TSgr0].

(** ** (b) acceptance of a transmission *)
Record tx := { tx_s : Z; tx_v : Z; tx_f : Z; tx_bytes : Z }.

Definition accepted (t : tx) : bool :=
  ((tx_f t =? 24) || (tx_f t =? 32)) && (tx_bytes t =? tx_s t * tx_v t * (tx_f t / 8)).

Definition fmt_bits (rgba : bool) : Z := if rgba then 32 else 24.

(** control data + payload of one line as a function of THAT line ([opaque]: the line has no
    transparency) under a per-line policy giving the bits per pixel *)
Definition policy_tx (pol : bool -> Z) (s v : Z) (opaque : bool) : tx :=
  {| tx_s := s; tx_v := v; tx_f := pol opaque; tx_bytes := s * v * (pol opaque / 8) |}.

(** the code ([kitty.py:452-480]): [f = format] of the render for every line,
    [raw_image.read(width * cell_height * (format // 8))] *)
Definition line_tx (rgba : bool) (s v : Z) (opaque : bool) : tx := policy_tx (fun _ => fmt_bits rgba) s v opaque.
Definition lines_txs (rgba : bool) (s v : Z) (ls : list bool) : list tx := map (line_tx rgba s v) ls.
(** WHOLE: one transmission, [v = height] *)
Definition whole_txs (rgba : bool) (s v : Z) : list tx := [line_tx rgba s v false].

(** the correct per-line optimisation (opaque lines as 24-bit RGB) is a per-line policy too *)
Definition pol_drop_alpha (opaque : bool) : Z := if opaque then 24 else 32.

(** the excluded design: ONE control-data object shared by the lines of an RGBA render whose
    [f] is set to 24 for an opaque line (payload stripped to 3 bytes per pixel) and never put
    back: later lines with transparency carry 4 bytes per pixel under the sticky label *)
Fixpoint sticky_txs (s v cur : Z) (ls : list bool) : list tx :=
  match ls with
  | [] => []
  | true :: rest => {| tx_s := s; tx_v := v; tx_f := 24; tx_bytes := s * v * 3 |} :: sticky_txs s v 24 rest
  | false :: rest => {| tx_s := s; tx_v := v; tx_f := cur; tx_bytes := s * v * 4 |} :: sticky_txs s v cur rest
  end.

(** the token stream as a terminal acts on it: the chunks of a rejected transmission place
    nothing ([acc]: verdict per transmission, in order; [cur]: verdict of the one in progress) *)
Fixpoint accept_view (acc : list bool) (cur : bool) (ts : list tok) : list tok :=
  match ts with
  | [] => []
  | TKittyFirst k m p :: rest =>
    match acc with
    | a :: acc' => (if a then [TKittyFirst k m p] else []) ++ accept_view acc' a rest
    | [] => TKittyFirst k m p :: accept_view [] true rest
    end
  | TKittyCont m p :: rest => (if cur then [TKittyCont m p] else []) ++ accept_view acc cur rest
  | x :: rest => x :: accept_view acc cur rest
  end.

Definition img_covers (r c : Z) (e : ev) : bool :=
  match e with EImg _ _ _ _ _ => ev_covers r c e | _ => false end.
(** every cell of the rectangle is under an image placement *)
Definition img_cover_checkb (w h lm r0 : Z) (R : list tok) : bool :=
  let evs := log (exec lm (start r0 lm) R) in
  forallb (fun r => forallb (fun c => existsb (img_covers r c) evs) (zrange lm w)) (zrange r0 h).

(** the graphics render as displayed: contract + image coverage on the accepted view *)
Definition gfx_shown_checkb (txs : list tx) (w h : Z) (R : list tok) : bool :=
  let V := accept_view (map accepted txs) true R in
  rect_checkb w h 0 0 V && img_cover_checkb w h 0 0 V && img_cover_checkb w h 5 3 V.
