(** * ScreenBlend — terminal identity, the [blend] style argument and placements COUNTED (C18)

    Definitions only (proofs: proofs/ScreenBlendProofs.v; statements: props/C18.v).

    The property says "after each redraw the graphics placements present on the terminal are
    exactly those of the images in the canvas just drawn".  A terminal implementing the kitty
    graphics protocol keeps a LIST of placements: transmitting-and-displaying the same image line
    at the same cell with the same z-index a second time ADDS a placement (the two are blended /
    stacked; kitty's protocol documentation: a placement stays until it is deleted) - so
    "exactly those" is an equality of MULTISETS ([pcount]).  model/Screen.v [pstep] already keeps
    every placement (it conses); what it could not express is the identity of the terminal:

      - a terminal IDENTIFIED as kitty (any version >= 0.20.0, the versions the library supports:
        kitty.py:321-331; [_KITTY_VERSION] is set only then), Konsole (kitty.py:333-335), or an
        UNIDENTIFIED terminal implementing the protocol for which the application forces support
        ([KittyImage.forced_support = True]: WezTerm, Ghostty, ...);
      - Konsole "doesn't blend images placed at the same location and z-index" (_urwid.py:102-104):
        there a placement REPLACES a placement with the same rectangle and z-index ([place_id]);
        everywhere else it is added.

    The library's part: a kitty widget's image lines are rendered with [blend=False] on every
    terminal but Konsole (_urwid.py:105-108: "to clear directly overlapped images when urwid
    redraws a line without a change in image position"); with [blend=False] every image line
    starts with "delete the placements intersecting the cursor's cell" (kitty.py:468,476).  urwid
    re-sends a row whenever its bytes changed - also when only the TEXT beside an image changed,
    the image's canvas view being the same: then the screen sends no delete (no view vanished)
    and the line's own [d=C] is all that removes the placement already there ([repaint]). *)
From Coq Require Import List ZArith Bool Lia Arith.
Import ListNotations.
From TI Require Import lib.Term model.Screen.

(** ** terminal identities *)
Inductive tident :=
| IdKitty (major minor patch : nat)    (* identified as kitty, with its version *)
| IdKonsole
| IdForced.                            (* unidentified; support forced by the application *)

Definition ver := (nat * nat * nat)%type.
Definition ver_ltb (a b : ver) : bool :=
  let '(a1, a2, a3) := a in
  let '(b1, b2, b3) := b in
  (a1 <? b1) || ((a1 =? b1) && ((a2 <? b2) || ((a2 =? b2) && (a3 <? b3)))).
Definition ver_leb (a b : ver) : bool := negb (ver_ltb b a).

Definition is_konsole (id : tident) : bool := match id with IdKonsole => true | _ => false end.
(** the identities for which the library claims support of the kitty protocol
    (kitty.py:321-335; [forced_support]) *)
Definition claims_support (id : tident) : bool :=
  match id with
  | IdKitty a b c => ver_leb (0, 20, 0) (a, b, c)
  | IdKonsole | IdForced => true
  end.
(** [KittyImage._KITTY_VERSION]: [()] unless the terminal was identified as kitty *)
Definition kitty_version (id : tident) : option ver :=
  match id with IdKitty a b c => Some (a, b, c) | _ => None end.

(** ** the terminal, by identity *)

(** a new placement replaces one with the same rectangle and z-index (Konsole) / is added *)
Definition replaces_same (id : tident) : bool := is_konsole id.
Definition place_id (id : tident) (p : plc) (l : list plc) : list plc :=
  if replaces_same id then p :: filter (fun q => negb (plc_eqb p q)) l else p :: l.

Open Scope Z_scope.
Definition pstep_id (id : tident) (t : pterm) (x : stok) : pterm :=
  match x with
  | KPlace w h z stay =>
    let t' := set_plcs t (place_id id (mk_plc (t_r t) (t_c t) w h z) (t_plcs t)) in
    if stay then t' else set_cur t' (t_r t + h - 1) (t_c t + w)
  | KIterm w h dnmc =>
    let t' := if is_konsole id then set_plcs t (place_id id (mk_plc (t_r t) (t_c t) w h 0) (t_plcs t)) else t in
    if dnmc then t' else set_cur t' (t_r t + h - 1) (t_c t + w)
  | _ => pstep (is_konsole id) t x
  end.
Close Scope Z_scope.
Definition pexec_id (id : tident) (t : pterm) (ts : list stok) : pterm := fold_left (pstep_id id) ts t.

(** ** placements as a multiset *)
Fixpoint pcount (p : plc) (l : list plc) : nat :=
  match l with
  | [] => 0
  | q :: t => (if plc_eqb p q then 1 else 0) + pcount p t
  end.
Definition plcs_msame (a b : list plc) : bool :=
  forallb (fun p => Nat.eqb (pcount p a) (pcount p b)) (a ++ b).
Fixpoint pdedup (l : list plc) : list plc :=
  match l with
  | [] => []
  | p :: t => if plc_mem p t then pdedup t else p :: pdedup t
  end.
(** what the stacking terminal of model/Screen.v ([pstep]: every placement is added) shows on a
    terminal of identity [id]: on Konsole equal placements are one placement
    (proofs/ScreenBlendProofs.v [konsole_is_dedup]: [pexec_id IdKonsole] = [pexec true] up to that) *)
Definition norm (id : tident) (l : list plc) : list plc := if replaces_same id then pdedup l else l.
(** the comparison the correspondence uses: EXACTLY the canvas' placements, counted *)
Definition plcs_exact (id : tident) (term canvas : list plc) : bool :=
  plcs_msame (norm id term) (norm id canvas).

(** ** the library: the widget's [blend] argument (true = the line does not delete first) *)
(** the code (_urwid.py:105-108): [blend] stays True only on Konsole *)
Definition code_blend (id : tident) : bool := is_konsole id.
(** NOT the code: [blend=False] only on a terminal identified as kitty > 0.25.0 (the test that
    [KittyImage._display_animated] uses for ITS purposes) - every other identity blends *)
Definition blend_unless_new_kitty (id : tident) : bool :=
  match kitty_version id with
  | Some v => negb (ver_ltb (0, 25, 0) v)
  | None => true
  end.

(** an image line (strip) written at its cell (cf. ScreenUrwid.item_toks) *)
Definition strip_toks (blend : bool) (p : plc) : list stok :=
  KCup (p_r p) (p_c p) :: (if blend then [] else [KDel DelCursor]) ++ [KPlace (p_w p) (p_h p) (p_z p) true].
(** urwid re-sends the rows holding the strips [R] (text beside the image changed); the
    image's canvas views are unchanged, so the screen itself sends no delete *)
Definition repaint (blend : bool) (R : list plc) : list stok := flat_map (strip_toks blend) R.

(** the strips of a canvas: non-empty rectangles, none covering the first cell of another
    (they belong to disjoint rectangles of the canvas), no strip twice *)
Definition strips_wf (L : list plc) : Prop :=
  NoDup L
  /\ (forall p, In p L -> (0 < p_w p)%Z /\ (0 < p_h p)%Z)
  /\ (forall p q, In p L -> In q L -> covers q (p_r p) (p_c p) = true -> q = p).
