(** Executable comparison used by the C20 correspondence for histories whose render
    requests carry their GEOMETRY: runs [SettingsGeom.gtrace] (model) and
    [SettingsGeom.spec_gtrace] (the documented rule on the history alone + the documented
    payload of the method) and compares both with what every real render TRANSMITTED:
    per render [warning issued; pixel width; pixel height; verbatim; ...] (one triple per
    transmission).  The method used is thus decided by (number of transmissions, pixel size
    of each payload, verbatim or not), not by the framing. *)
From Coq Require Import List ZArith Bool Arith.
Import ListNotations.
From TI Require Import model.Settings model.SettingsTie model.SettingsRender
     model.SettingsRenderTie model.SettingsRoute model.SettingsGeom.

Record gcase := {
  gc_style : rstyle;
  gc_par : list nat;        (* parent of each class, creation order *)
  gc_icls : list nat;       (* class of each instance *)
  gc_anim : list bool;      (* per instance: the source is animated *)
  gc_size : list Z;         (* per instance: size in bytes of the source's data *)
  gc_rff : bool;            (* read_from_file as every instance sees it *)
  gc_readable : list bool;  (* per instance: a readable file source of a mode read verbatim *)
  gc_ops : list geop;
  gc_obs : list (list Z)    (* per render: warned :: [pixel width; pixel height; verbatim]* *)
}.

Definition tx_row (t : tx) : list Z :=
  [fst (fst t); snd (fst t); if snd t then 1 else 0]%Z.
Definition gout_row (x : rout * list tx) : list Z :=
  (if warned (fst x) then 1 else 0)%Z :: flat_map tx_row (snd x).

(** 0 = agrees with model and spec; 1 = differs from the model only;
    2 = the observed payloads contradict the specification (property fails); 3 = both *)
Definition gcheck (t : gcase) : nat :=
  let k := k_render_method (match gc_style t with SKitty => 2 | SITerm2 => 3 end)%Z in
  let par := parf (gc_par t) in
  let icls := parf (gc_icls t) in
  let src := {| s_animated := fun i => nth i (gc_anim t) false;
                s_size := fun i => nth i (gc_size t) 0%Z |} in
  let facts := fun i => {| p_animated := nth i (gc_anim t) false; p_rff := gc_rff t;
                           p_readable := nth i (gc_readable t) false |} in
  let ok_model :=
      zll_eqb (map gout_row (gtrace (gc_style t) k par icls src facts (gc_ops t))) (gc_obs t) in
  let ok_spec :=
      zll_eqb (map gout_row (spec_gtrace (gc_style t) k par icls src facts (gc_ops t)))
              (gc_obs t) in
  (if ok_model then 0 else 1) + (if ok_spec then 0 else 2).

Definition gbad (cases : list gcase) : list (nat * nat) :=
  filter (fun p => negb (Nat.eqb (snd p) 0)) (index_from 0 (map gcheck cases)).
