(** Executable comparison for the interrupted-animation part of the C06 correspondence: the
    model's stream ([model/DrawCut.v]) against what [draw()] wrote when the [k]-th write of
    the animation raised [KeyboardInterrupt] after [j] characters (or a sleep did), and the
    final-state predicate of an interrupted animation ([DrawCut.CutFinal]; for an interrupt
    between two frames the full [DrawTie.final_ok] against the last completely drawn frame)
    evaluated on the implementation's own output. *)
From Coq Require Import List ZArith Bool Lia.
Import ListNotations.
From TI Require Import lib.Term lib.TermFacts lib.RectCheck lib.TermScroll lib.TermPlace lib.Lines
     model.Padding model.Draw model.DrawTie model.DrawCut model.DrawEnv.
From TI Require model.DrawInt.
Open Scope Z_scope.

Inductive cpoint := PNew (p : ipoint) | POld (p : opoint).

Record icase := {
  i_c : dcase;          (* the draw; [d_frames]: all frames of the animation; [d_obs]: what was written *)
  i_pt : cpoint;        (* where the interrupt landed *)
  i_np : nat;           (* tokens of [d_obs] delivered when the exception was raised *)
  i_hnd : list tok      (* what the style's interrupted-draw handler writes *)
}.

Definition set_frames (c : dcase) (fs : list (list tok)) : dcase :=
  {| d_kind := d_kind c; d_tw := d_tw c; d_th := d_th c; d_cs := d_cs c; d_scroll := d_scroll c;
     d_anim := d_anim c; d_hide := d_hide c; d_dyn := d_dyn c; d_fill := d_fill c;
     d_w := d_w c; d_h := d_h c; d_clear := d_clear c; d_oldk := d_oldk c; d_wez := d_wez c;
     d_kitty := d_kitty c; d_frames := fs; d_obs := d_obs c; d_raised := d_raised c;
     d_rows := d_rows c |}.

(** the model's stream of the interrupted draw ([None]: not an accepted animation) *)
Definition cut_stream (ic : icase) : option (list tok) :=
  let c := i_c ic in
  if negb (d_anim c) then None else
  match d_kind c, i_pt ic, d_frames c with
  | DOld rawW rawH ha va, POld p, F1 :: Fs =>
    if old_size_ok (d_cs c) (d_scroll c) true (d_dyn c) (d_w c) (d_h c) rawW rawH (d_tw c) (d_th c) then
      let '(W', H') := old_resolve (d_tw c) (d_th c) rawW rawH in
      let fmt := format_render W' H' ha va (d_w c) (d_h c) in
      Some (old_anim_cut (d_hide c) (i_hnd ic) (Z.max H' (d_h c))
              (if d_wez c then wez_pre W' H' ha va (d_w c) (d_h c) else [])
              (kitty_clear (d_oldk c)) (fmt F1) (map fmt Fs) p)
    else None
  | DOld _ _ _ _, _, _ => None
  | _, PNew p, F1 :: Fs =>
    let d := new_dims c in
    let '(pw, ph) := padded_size d (d_w c) (d_h c) in
    let '(l, _, _, b) := d in
    if size_ok (d_cs c) (d_scroll c) true pw ph (d_tw c) (d_th c) then
      Some (anim_cut (d_hide c) (i_hnd ic) l b (d_h c) (d_clear c)
              (padded (d_fill c) d (d_w c) (d_h c) F1) Fs p)
    else None
  | _, _, _ => None
  end.

Definition i_agrees (ic : icase) : bool :=
  negb (d_raised (i_c ic))
  && match cut_stream ic with
     | Some st => toks_eqb st (d_obs (i_c ic))
     | None => false
     end.

(** ** specification side *)

(** an interrupt between two frames: how many frames are completely drawn *)
Definition complete_frames (p : cpoint) : option nat :=
  match p with
  | PNew (IBetween m) => Some (S m)
  | POld (OBetween m) => Some m
  | _ => None
  end.

Definition first_inc (p : cpoint) : bool :=
  match p with PNew q => first_incomplete q | POld _ => false end.

(** the first frame may be incomplete: the screen has not necessarily scrolled to make room
    for the region yet, so a cursor movement of the clean-up may be clamped at the bottom
    margin of a real screen (the scrolling clause is not demanded) *)
Definition first_partial (p : cpoint) : bool :=
  match p with
  | PNew q => first_incomplete q
  | POld (OFrame O _ _) => true
  | POld _ => false
  end.

(** offset of the resting row of the cursor between two frames from the top of the region *)
Definition park_off (c : dcase) : Z :=
  match d_kind c with
  | DOld _ _ _ _ => 0
  | _ => let '(_, t, _, _) := new_dims c in t
  end.

(** the executable form of [CutFinal] from row [r0] of a [W x H] screen, left margin 0; the
    scrolling clause of [final_clauses] is added when the cursor was found on its resting
    row (otherwise the cursor goes further down than the line below the region and the
    virtual rows of [Term.exec] say nothing about a real screen's bottom margin) *)
Definition is_instr (p : pstate) : bool := match p with InStr => true | _ => false end.

Definition cut_clauses (W H pw ph park : Z) (finc fpart csi_ok : bool) (np : nat) (St : list tok) (r0 : Z) : list bool :=
  let t0 := start r0 0 in
  let tc := exec 0 t0 (firstn np St) in
  let t' := exec 0 t0 St in
  let evs := exec_evs 0 t0 St in
  let disp := row tc - (r0 + park) in
  [ col t' =? 0;
    attrs_eqb (sgr t') adefault;
    visible t';
    is_none (pending t') && (if csi_ok then negb (is_instr (parser t')) else is_ground (parser t'));
    forallb (ev_touch_in r0 0 ph pw) evs;
    if finc then row t' =? row tc + 1 else row t' =? r0 + ph + disp;
    (r0 <=? row tc) && (row tc <? r0 + ph);
    if fpart || negb (disp =? 0) then true
    else oz_eqb (srun W H 0 0 t0 St) (Z.max 0 (r0 + ph + 1 - H)) ].

Definition cut_ok (W H pw ph park : Z) (finc fpart csi_ok : bool) (np : nat) (St : list tok) (r0 : Z) : bool :=
  forallb (fun b => b) (cut_clauses W H pw ph park finc fpart csi_ok np St r0).

(** the new API's documented residue ([DrawCut.new_csi_residue]); never for the old API *)
Definition csi_residue (c : dcase) (p : cpoint) : bool :=
  match p with
  | PNew q => let '(_, _, _, b) := new_dims c in new_csi_residue (d_hide c) b (d_h c) q
  | POld _ => false
  end.

(** ended by Ctrl-C: [draw()] returns normally; the box of an accepted animation fits the
    screen; between two frames the full final-state predicate against the last complete
    frame, elsewhere [cut_ok], from every start row *)
Definition i_spec (ic : icase) : bool :=
  let c := i_c ic in
  let '(pw, ph) := box_of c in
  negb (d_raised c)
  && (if (pw <=? d_tw c) && (ph <=? d_th c) && negb (is_nil (d_frames c)) then
        match complete_frames (i_pt ic) with
        | Some n =>
          let c' := set_frames c (firstn n (d_frames c)) in
          forallb (final_ok (d_kitty c) (d_tw c) (d_th c) pw ph (ref_of c') (d_obs c)) (d_rows c)
        | None =>
          forallb (cut_ok (d_tw c) (d_th c) pw ph (park_off c) (first_inc (i_pt ic)) (first_partial (i_pt ic))
                          (csi_residue c (i_pt ic)) (i_np ic) (d_obs c))
                  (d_rows c)
        end
      else true).

Definition icheck (ic : icase) : nat :=
  (if i_agrees ic then 0 else 1) + (if i_spec ic then 0 else 2).

Definition ibad (cases : list icase) : list (nat * nat) :=
  filter (fun p => negb (Nat.eqb (snd p) 0)) (index_from 0 (map icheck cases)).

Definition iexplain (ic : icase) :=
  let c := i_c ic in
  let '(pw, ph) := box_of c in
  ((pw, ph), d_raised c,
   match cut_stream ic with
   | Some st => (Some (first_diff st (d_obs c) 0), length st, length (d_obs c))
   | None => (None, 0%nat, length (d_obs c))
   end,
   map (fun r0 =>
          (r0,
           match complete_frames (i_pt ic) with
           | Some n => final_clauses (d_kitty c) (d_tw c) (d_th c) pw ph
                                     (ref_of (set_frames c (firstn n (d_frames c)))) (d_obs c) r0
           | None => cut_clauses (d_tw c) (d_th c) pw ph (park_off c) (first_inc (i_pt ic)) (first_partial (i_pt ic)) (csi_residue c (i_pt ic)) (i_np ic) (d_obs c) r0
           end,
           row (exec 0 (start r0 0) (firstn (i_np ic) (d_obs c))), row (exec 0 (start r0 0) (d_obs c))))
       (d_rows c)).

(** one list for the three kinds of cases of the correspondence *)
Inductive anycase :=
| APlain (c : dcase)                  (* terminal size stubbed *)
| AEnv (e : tenv) (c : dcase)         (* real terminal: the size comes from the environment *)
| ACut (ic : icase).                  (* animation ended by KeyboardInterrupt *)

Definition acheck (a : anycase) : nat :=
  match a with
  | APlain c => check c
  | AEnv e c => echeck (e, c)
  | ACut ic => icheck ic
  end.

Definition abad (cases : list anycase) : list (nat * nat) :=
  filter (fun p => negb (Nat.eqb (snd p) 0)) (index_from 0 (map acheck cases)).
