(** Executable comparison used by the C11 correspondence for histories with close() calls that
    arrive while a next() is executing (model/ImgIterReent.v).

    [check_reent]: the observed history — per operation the row of model/ImgIterTie.v (outcome code,
    frame id, image.tell(), loop_no, images opened by the library for this iterator and not yet
    handed to Image.close()) followed by the number of concurrent close() calls that raised
    "ValueError: generator already executing" — against the code model ([rtrace] with
    [close_code]; code 1 on a difference) and against the specification ([srtrace]: the
    sequential erasure, every concurrent call on a live iterator refused; code 2: the property
    fails).  [RNextCD m] carries the number of concurrent calls actually MADE during that next()
    (the driver delivers them at the first render of the call: none when the frame comes from the
    cache or the iterator has ended). *)
From Coq Require Import List ZArith Bool Arith.
Import ListNotations.
From TI Require Import model.ImgIter model.ImgIterSpec model.ImgIterReent model.ImgIterTie.

Local Open Scope nat_scope.

Record rcase := {
  rc_n : nat;
  rc_repeat : Z;
  rc_cached : bool + Z;
  rc_cache_on : bool;
  rc_pos0 : Z;
  rc_table : list (list Z);           (* per size setting, per frame: frame id, -1 = rendering fails *)
  rc_hashes : list Z;
  rc_ops : list (rop nat);
  rc_file : bool;
  rc_obs : list (list Z);             (* per op: the five columns of ImgIterTie.row, then refusals *)
  rc_keep : bool                      (* size setting unchanged, caller's image alive, fds balanced, exhausted
                                         PIL source back at frame 0, no concurrent close() ended otherwise than
                                         by ValueError("generator already executing") *)
}.

Definition rrow (file : bool) (x : (outcome Z * Z * option Z * bool) * nat) : list Z :=
  row file (fst x) ++ [Z.of_nat (snd x)].

Definition reent_ok_model (c : rcase) : bool :=
  let ce := cache_enabled (rc_repeat c) (rc_cached c) (rc_n c) in
  Bool.eqb ce (rc_cache_on c)
  && zll_eqb (map (rrow (rc_file c))
                  (rtrace (tab_fmt (rc_table c)) (tab_hash (rc_hashes c)) (rc_n c) ce (@close_code Z nat)
                          (rinit Z (rc_repeat c) (rc_pos0 c) 0) (rc_ops c)))
             (rc_obs c).

Definition reent_ok_spec (c : rcase) : bool :=
  rc_keep c
  && zll_eqb (map (rrow (rc_file c))
                  (srtrace (tab_fmt (rc_table c)) (rc_n c) (sinit (rc_repeat c) (rc_pos0 c) 0) (rc_ops c)))
             (rc_obs c).

Definition check_reent (c : rcase) : nat :=
  (if reent_ok_model c then 0 else 1) + (if reent_ok_spec c then 0 else 2).
