(** * RArgsRel — what equality / hash / compatibility READ (C16)

    Two dimensions of the class universe that [RArgs.v] / [RArgsSub.v] do not have.

    1. OVERRIDDEN EXPORTS.  A subclass of an associated namespace class (same render class,
       inherited fields) may override the documented public methods [as_dict()],
       [get_fields()], [__repr__].  An instance is [(render class, export descriptor, field
       values)].  [__eq__] (_types.py:386-402) and [__hash__] (_types.py:408-425) read the
       FIELDS ([getattr] over [_FIELDS]) and [_RENDER_CLS]; [RenderArgs.__eq__/__hash__]
       (_types.py:1013-1030, 1080-1092) read the namespaces held.  The excluded design hashes
       the values of the export ([hash_policy HashExport]).

    2. THE CLASS RELATION.  [RenderableMeta] derives from [abc.ABCMeta]: [Base.register(Cls)]
       makes [issubclass(Cls, Base)] true although [Base] is not in [Cls.__mro__].  The
       universe is a forest (inheritance, [RArgs.forest]) plus the list of registrations; the
       rule of the property speaks of "the target class or one of its ANCESTORS" — the
       inheritance relation.  The code ([RenderArgs.__init__], _types.py:979-986) tests
       membership of the namespace's class in [render_cls._ALL_DEFAULT_ARGS], which
       [RenderableMeta.__new__] builds from the MRO ([RArgs.keys]); registration does not
       touch it.  The excluded design asks [issubclass] ([crel ByIssubclass]).

    Definitions only; proofs in [proofs/RArgsRelProofs.v]. *)
From Coq Require Import List ZArith Bool Arith.
Import ListNotations.
From TI Require Import model.RArgs model.RArgsVal.

(** ** 1. Exports *)

Inductive ekey := KField (j : nat) | KExtra.
Definition export := list (ekey * val).

Inductive edesc :=
| EPlain                 (* no override *)
| EAddFirst (v : val)    (* as_dict(): {"extra": v, **super().as_dict()} *)
| EAddLast (v : val)     (* as_dict(): {**super().as_dict(), "extra": v} *)
| EReverse               (* as_dict(): the entries in reverse order *)
| EAddReverse (v : val)  (* both *)
| EOther.                (* get_fields() / __repr__ overridden; as_dict() untouched *)

Definition base_export (f : list val) : export := combine (map KField (seq 0 (length f))) f.

(** what [x.as_dict()] returns, entry by entry *)
Definition export_of (e : edesc) (f : list val) : export :=
  match e with
  | EPlain | EOther => base_export f
  | EAddFirst v => (KExtra, v) :: base_export f
  | EAddLast v => base_export f ++ [(KExtra, v)]
  | EReverse => rev (base_export f)
  | EAddReverse v => (KExtra, v) :: rev (base_export f)
  end.

Record xns := { x_cls : nat; x_exp : edesc; x_f : list val }.

(** [ArgsNamespace.__eq__] of two distinct instances *)
Definition x_eq (a b : xns) : bool := Nat.eqb (x_cls a) (x_cls b) && vl_pyeq (x_f a) (x_f b).

Inductive hash_policy :=
| HashFields      (* the code: [getattr(self, field) for field in type(self)._FIELDS] *)
| HashExport.     (* excluded: [tuple(self.as_dict().values())] *)

(** what the tuple handed to [hash()] depends on *)
Definition x_hash (pol : hash_policy) (a : xns) : nat * list val :=
  (x_cls a,
   match pol with
   | HashFields => map hkey (x_f a)
   | HashExport => map (fun p => hkey (snd p)) (export_of (x_exp a) (x_f a))
   end).

(** a set of render arguments: render class, the namespaces held (in the order of the MRO) *)
Definition xset := (nat * list xns)%type.

Fixpoint xall2 {A B} (p : A -> B -> bool) (a : list A) (b : list B) : bool :=
  match a, b with
  | [], [] => true
  | x :: a', y :: b' => p x y && xall2 p a' b'
  | _, _ => false
  end.

Definition xset_eq (s t : xset) : bool := Nat.eqb (fst s) (fst t) && xall2 x_eq (snd s) (snd t).
Definition xset_hash (pol : hash_policy) (s : xset) : nat * list (nat * list val) :=
  (fst s, map (x_hash pol) (snd s)).

(** the same instance seen through another class of exports *)
Definition with_export (e : edesc) (a : xns) : xns :=
  {| x_cls := x_cls a; x_exp := e; x_f := x_f a |}.

(** ** 2. Inheritance and registration *)

Record universe := {
  u_n : nat;                       (* classes 0 .. u_n - 1; 0 is Renderable *)
  u_F : forest;                    (* inheritance; which classes own a namespace class *)
  u_reg : list (nat * nat)         (* (base, cls): base.register(cls) *)
}.

(** [issubclass(t, c)] as [ABCMeta.__subclasscheck__] computes it: [c] in the MRO of [t], or
    [t] a subclass of a class registered with [c], or of a (direct) subclass of [c] *)
Fixpoint issub (U : universe) (fuel t c : nat) : bool :=
  (* [if]s, not [||] / [&&]: only the matching entries are followed when this is evaluated *)
  if anc (u_F U) c t then true
  else match fuel with
       | 0 => false
       | S k =>
         if existsb (fun p => if Nat.eqb (fst p) c then issub U k t (snd p) else false) (u_reg U)
         then true
         else existsb (fun s => if negb (Nat.eqb s 0) && Nat.eqb (par (u_F U) s) c
                                then issub U k t s else false)
                      (seq 0 (u_n U))
       end.

Definition issubclass (U : universe) (t c : nat) : bool := issub U (S (u_n U + length (u_reg U))) t c.

Inductive crel :=
| ByHierarchy     (* the code: [namespace._RENDER_CLS in render_cls._ALL_DEFAULT_ARGS] *)
| ByIssubclass.   (* excluded: [issubclass(render_cls, namespace._RENDER_CLS)] *)

(** is a namespace of class [c] accepted for a set of class [t] *)
Definition u_accept (r : crel) (U : universe) (t c : nat) : bool :=
  match r with
  | ByHierarchy => existsb (Nat.eqb c) (keys (u_F U) t)
  | ByIssubclass => issubclass U t c
  end.

(** the rule: "associated with the target class or one of its ancestors" *)
Definition u_rule (U : universe) (t c : nat) : bool := ns_compatible (u_F U) t (c, []).

Definition with_reg (U : universe) (reg : list (nat * nat)) : universe :=
  {| u_n := u_n U; u_F := u_F U; u_reg := reg |}.
