(** C19, round 7 — what an accepted specifier DENOTES ON THE OUTPUT.  Definitions only.

    The earlier layers compare the parameter tuple a specifier is parsed into with the
    documented one.  Two parts of the documented meaning are not a function of that tuple
    alone but of the tuple AND the surroundings in which the render happens:

    1. the [bgcolor] field [#] — "the terminal emulator's default background color (or
       black, if undetermined)" (formatting.rst): the colour under the image depends on
       whether the terminal's background colour is KNOWN.  The environment input is
       [termbg = option rgb]; [doc_eff] is the effective transparency treatment, [pixel_ok]
       is what a displayed pixel must then be.
    2. the iterm2 [method] field — "W: WHOLE render method (current frame only, for
       animated images)", "L: ... (current frame only ...)", "A: ANIM render method"
       (native animation; with ImageIterator / for non-animated images WHOLE is used
       instead): WHICH FRAMES the output carries depends on the source being animated.
       [doc_carried] is the documented answer, [impl_carried] mirrors the decision
       structure of ITerm2Image._render_image (iterm2.py:609-700). *)
From Coq Require Import List NArith ZArith Bool.
Import ListNotations.
From TI Require Import model.FmtSpec.
Local Open Scope Z_scope.

(** * 1. The colour under the image *)

(** get_fg_bg_colors()[1]: 0xRRGGBB, or None when it cannot be determined (no terminal,
    queries disabled, no reply) *)
Definition termbg := option Z.

(** "... or black, if undetermined" *)
Definition backdrop (bg : termbg) : Z := match bg with Some c => c | None => 0 end.

(** the effective treatment of transparency *)
Inductive eff :=
| EOff                                  (* alpha channel ignored *)
| EThr (num den : Z) (back : Z)         (* threshold num/den; text styles: opaque pixels lie over [back] *)
| EUnder (c : Z).                       (* every pixel lies over the colour c *)

(** documentation: formatting.rst, "Transparency" and the [#] field; the blending of the
    pixels that a text-based style takes as opaque with "the active terminal's BG color (or
    black, if undetermined)" is _get_render_data's documented contract (round_alpha);
    default threshold = 40/255 *)
Definition pow10 (n : nat) : Z := Z.pow 10 (Z.of_nat n).
Definition doc_eff (t : transparency) (bg : termbg) : eff :=
  match t with
  | TDefault => EThr 40 255 (backdrop bg)
  | TDisabled => EOff
  | TThreshold ds => EThr (int_of ds) (pow10 (length ds)) (backdrop bg)
  | TBgTerminal => EUnder (backdrop bg)
  | TBgColor c => EUnder c
  end.

(** common.py:1505-1512, _get_render_data, on the alpha value that reached _render_image:
    a string is "#" (length 1: [get_fg_bg_colors(hex=True)[1] or "#000000"]) or "#rrggbb";
    [fallback] is the right operand of that [or]: [Some 0] in the code; [None] = the
    variant without it (Image.new("RGBA", size, None): a TRANSPARENT backdrop, i.e. no
    underlay at all) *)
Inductive under := UColour (c : Z) | UNothing.
Definition impl_under (fallback : option Z) (bg : termbg) (a : alpha_raw) : option under :=
  match a with
  | RStr (_ :: (_ :: _) as hs) => Some (UColour (hex_of hs))
  | RStr _ => Some (match bg with
                    | Some c => UColour c
                    | None => match fallback with Some c => UColour c | None => UNothing end
                    end)
  | _ => None
  end.
Definition code_fallback : option Z := Some 0.

Definition impl_eff (fallback : option Z) (bg : termbg) (a : alpha_raw) : option eff :=
  match a with
  | RDefault => Some (EThr 40 255 (backdrop bg))
  | RNone => Some EOff
  | RFloat (_ :: ds) => Some (EThr (int_of ds) (pow10 (length ds)) (backdrop bg))
  | RFloat [] => Some (EThr 0 1 (backdrop bg))
  | RStr _ => match impl_under fallback bg a with
              | Some (UColour c) => Some (EUnder c)
              | _ => None          (* no underlay: not one of the documented treatments *)
              end
  end.

(** ** what a displayed pixel must be *)
Record px := { p_r : Z; p_g : Z; p_b : Z; p_a : Z }.
Definition chan (c k : Z) : Z := (c / Z.pow 256 k) mod 256.
(** [out] is the blend of [src] (alpha a of 255) over [u], to within one unit *)
Definition blend_ok (u src a out : Z) : bool :=
  Z.abs (255 * out - (src * a + u * (255 - a))) <=? 255.
Definition over_ok (u : Z) (p : px) (o : Z * Z * Z) : bool :=
  let '(r, g, b) := o in
  blend_ok (chan u 2) (p_r p) (p_a p) r && blend_ok (chan u 1) (p_g p) (p_a p) g
  && blend_ok (chan u 0) (p_b p) (p_a p) b.
(** what is seen: None = the terminal's own background shows through *)
Definition shown := option (Z * Z * Z).
Definition pixel_ok (e : eff) (p : px) (o : shown) : bool :=
  match e with
  | EOff => match o with Some (r, g, b) => (r =? p_r p) && (g =? p_g p) && (b =? p_b p) | None => false end
  | EUnder c => match o with Some x => over_ok c p x | None => false end
  | EThr num den back =>
      if (p_a p + 1) * den <=? 255 * num then match o with None => true | Some _ => false end
      else if 255 * num <=? (p_a p - 1) * den then match o with Some x => over_ok back p x | None => false end
      else match o with Some x => over_ok back p x | None => true end     (* at the threshold: either *)
  end.

(** equality of treatments (thresholds as rationals) *)
Definition eff_eqb (a b : eff) : bool :=
  match a, b with
  | EOff, EOff => true
  | EUnder c, EUnder d => c =? d
  | EThr n d k, EThr n' d' k' => (n * d' =? n' * d) && (k =? k')
  | _, _ => false
  end.

(** * 2. Which frames an iterm2 render carries *)

Inductive carried := Current | AllNative.

(** documented: class docstring of ITerm2Image (render methods; format specification) —
    method 1 = L, 2 = W, 3 = A; [frame] = rendered for ImageIterator / an animation *)
Definition doc_carried (animated frame : bool) (method : nat) : carried :=
  match method with
  | 3%nat => if animated && negb frame then AllNative else Current
  | _ => Current
  end.

(** the facts about the source that _render_image consults *)
Record isrc := {
  s_animated : bool;      (* self._is_animated *)
  s_readable : bool;      (* file_is_readable *)
  s_fits : bool;          (* original pixels <= render pixels *)
  s_modeok : bool;        (* mode / alpha condition of the fast path *)
  s_rff : bool            (* read_from_file policy *)
}.
Inductive payload := PFrame | PFile.      (* one re-encoded frame | the bytes of the source file *)

(** iterm2.py:609-700; [guard] is the second conjunct of the fast-path condition *)
Definition impl_payload (guard : isrc -> bool -> bool) (s : isrc) (frame : bool) (method : nat) : payload :=
  if Nat.eqb method 3 && s_animated s && negb frame then PFile          (* native animation *)
  else
    let whole := Nat.eqb method 3 || Nat.eqb method 2 in               (* ANIM falls back to WHOLE *)
    if s_rff s && guard s frame && s_readable s && whole && s_fits s && s_modeok s then PFile
    else PFrame.
Definition code_guard (s : isrc) (frame : bool) : bool := negb (s_animated s).
Definition frame_guard (s : isrc) (frame : bool) : bool := negb frame.   (* the excluded variant *)

(** a file carries all of its frames *)
Definition frames_of (s : isrc) (p : payload) : carried :=
  match p with PFrame => Current | PFile => if s_animated s then AllNative else Current end.
Definition impl_carried (guard : isrc -> bool -> bool) (s : isrc) (frame : bool) (method : nat) : carried :=
  frames_of s (impl_payload guard s frame method).

(** the effective method: the specifier's, else the instance's *)
Definition eff_method (m : meaning) (cur : nat) : nat :=
  match m_method m with Some k => k | None => cur end.
