(** * Draw — the token streams [draw()] writes to standard output (C06)

    New API: [Renderable.draw] / [_animate_] ([_renderable.py:475-591,698-813]) and
    [_init_render_]'s size validation ([_renderable.py:1112-1142]).
    Old API: [BaseImage.draw] / [_display_animated] ([common.py:631-795,1323-1371]) with
    [ITerm2Image._display_animated]'s wezterm pre-erase ([iterm2.py:521-549]),
    [KittyImage._display_animated] / [_clear_frame] ([kitty.py:357-377]) and [_renderer]'s
    size validation ([common.py:1690-1723]).

    A frame is the token list of its render output; the streams are functions of the
    frames, the padding margins [(left, top, right, bottom)] and the flags. *)
From Coq Require Import List ZArith Bool Lia.
Import ListNotations.
From TI Require Import lib.Term lib.TermFacts lib.Lines model.Padding.
Open Scope Z_scope.

(** [_ctlseqs.cursor_up / cursor_down / cursor_forward]: empty when [n <= 0] *)
Definition cuu (n : Z) : list tok := if 0 <? n then [TCuu n] else [].
Definition cud (n : Z) : list tok := if 0 <? n then [TCud n] else [].
Definition cuf (n : Z) : list tok := fillseg None n.

Definition opt (b : bool) (x : tok) : list tok := if b then [x] else [].

(** ** new API *)

(** [frame.render_output if frame.render_size == padded_size else padding.pad(...)]
    ([_renderable.py:566-571], [_iterator.py:614-620]) *)
Definition padded (fill : option glyph) (d : Z * Z * Z * Z) (w h : Z) (F : list tok) : list tok :=
  if pad_gate d w h then pad fill d w F else F.

(** [draw()] of a still frame: [HIDE? render "\n" SHOW?] *)
Definition still_stream (hide : bool) (R : list tok) : list tok :=
  opt hide THide ++ R ++ [TLF] ++ opt hide TShow.

(** one later frame of an animation ([_renderable.py:783-797]): [_clear_frame_], the frame
    with every line feed followed by [cursor_forward(pad_left)], then back to the render's
    top-left: ["\r" cursor_up(height - 1) cursor_forward(pad_left)] *)
Definition later_frame (l h : Z) (clear F : list tok) : list tok :=
  clear ++ subst_lf [] (cuf l) F ++ [TCR] ++ cuu (h - 1) ++ cuf l.

(** [_animate_]: the padded first frame [P], up to the render's top-left
    (["\r" cursor_up(height + pad_bottom - 1) cursor_forward(pad_left)]), the later frames,
    finally [cursor_down(height + pad_bottom - 1)] *)
Definition anim_body (l b h : Z) (clear P : list tok) (Fs : list (list tok)) : list tok :=
  P ++ [TCR] ++ cuu (h + b - 1) ++ cuf l
    ++ concat (map (later_frame l h clear) Fs)
    ++ cud (h + b - 1).

Definition anim_stream (hide : bool) (l b h : Z) (clear P : list tok) (Fs : list (list tok))
  : list tok :=
  opt hide THide ++ anim_body l b h clear P Fs ++ [TLF] ++ opt hide TShow.

(** the frames an animation goes through: [loops] times over the frames (the cache only
    decides whether a frame is rendered again, not what is yielded: C09) *)
Definition looped {A} (loops : nat) (frames : list A) : list A := rep loops frames.

(** [_init_render_]'s validation as [draw()] calls it: [check_size := animation or
    check_size], [allow_scroll := not animation and allow_scroll]; [true] = accepted *)
Definition size_ok (check_size allow_scroll animation : bool) (pw ph tw th : Z) : bool :=
  let check := animation || check_size in
  let allow := negb animation && allow_scroll in
  negb (check && ((tw <? pw) || (negb allow && (th <? ph)))).

(** the documented rule: "If check_size is True (or it's an animation), the padded render
    width must not be greater than the terminal width, and [if] allow_scroll is False (or
    it's an animation), the padded render height must not be greater than the terminal
    height" *)
Definition doc_fits (check_size allow_scroll animation : bool) (pw ph tw th : Z) : Prop :=
  (check_size = true \/ animation = true) ->
  pw <= tw /\ ((allow_scroll = false \/ animation = true) -> ph <= th).

(** the whole of [draw()]: [None] = [RenderSizeOutofRangeError] raised by [_init_render_],
    before anything is written.  [frames]: the current frame alone for a still draw, the
    frames yielded by the render iterator for an animation. *)
Definition draw_stream (check_size allow_scroll animation hide : bool) (tw th : Z)
           (fill : option glyph) (d : Z * Z * Z * Z) (w h : Z) (clear : list tok)
           (frames : list (list tok)) : option (list tok) :=
  let '(pw, ph) := padded_size d w h in
  let '(l, _, _, b) := d in
  if size_ok check_size allow_scroll animation pw ph tw th then
    Some match frames with
         | [] => opt hide THide ++ [TLF] ++ opt hide TShow     (* no frame at all *)
         | F1 :: Fs =>
           if animation then anim_stream hide l b h clear (padded fill d w h F1) Fs
           else still_stream hide (padded fill d w h F1)
         end
  else None.

(** ** old API *)

(** [HIDE? formatted-render] then, from [finally], [print(SGR_DEFAULT, SHOW?)] *)
Definition old_still_stream (tty : bool) (R : list tok) : list tok :=
  opt tty THide ++ R ++ [TSgr0] ++ opt tty TShow ++ [TLF].

(** [_display_animated]: every frame is printed formatted (padded with spaces to the
    [lines]-line box) from the top of the box and followed by ["\r" cursor_up(lines - 1)];
    [clear] is what [_clear_frame()] writes (kitty <= 0.25.0: delete by z-index, else
    nothing); finally [cursor_down(lines - 1)] *)
Definition old_frame (lines : Z) (P : list tok) : list tok := P ++ [TCR] ++ cuu (lines - 1).

Definition old_anim_body (lines : Z) (pre clear P1 : list tok) (Ps : list (list tok)) : list tok :=
  pre ++ old_frame lines P1
  ++ concat (map (fun P => clear ++ old_frame lines P) Ps)
  ++ cud (lines - 1).

Definition old_anim_stream (tty : bool) (lines : Z) (pre clear P1 : list tok)
           (Ps : list (list tok)) : list tok :=
  opt tty THide ++ old_anim_body lines pre clear P1 Ps ++ [TSgr0] ++ opt tty TShow ++ [TLF].

(** iterm2 on wezterm, [mix = False]: [rendered_height] lines of [ERASE_CHARS CURSOR_FORWARD]
    formatted like a frame, then back to the top of the box *)
Definition wez_erase_ls (w h : Z) : list (list tok) := repeat [TEch w; TCuf w] (Z.to_nat h).
Definition wez_pre (W H : Z) (ha va : nat) (w h : Z) : list tok :=
  old_frame (Z.max H h) (format_render W H ha va w h (joinlf (wez_erase_ls w h))).

(** [KittyImage._display_animated] ([kitty.py:374-379]): the frames of an animation are
    rendered with [z_index = -(1 << 31)] whatever the caller asked for (and, on kitty >
    0.25.0, with [blend = False]); [_clear_frame] ([kitty.py:357-372], kitty <= 0.25.0)
    deletes exactly that z-index *)
Definition kitty_anim_z : Z := - 2147483648.

Definition kitty_clear (old_kitty : bool) : list tok :=
  if old_kitty then [TKittyDel (DelZ kitty_anim_z)] else [].

(** every transmission of an animation frame is on the animation z-index *)
Definition kitty_anim_frame_ok (F : list tok) : bool :=
  forallb (fun x => match x with TKittyFirst k _ _ => kk_z k =? kitty_anim_z | _ => true end) F.

(** [BaseImage.draw]'s and [_renderer]'s validation.  [rawW rawH]: the [pad_width] /
    [pad_height] arguments as given; [dynamic]: the image's size is not set (it is
    recomputed for the terminal, no validation); [true] = accepted *)
Definition old_size_ok (check_size scroll animation dynamic : bool) (w h rawW rawH tw th : Z) : bool :=
  negb (tw <? rawW)
  && negb (animation && (th <? rawH))
  && (dynamic
      || negb ((check_size || animation)
               && ((tw <? w) || (negb scroll && (th <? h)) || (animation && (th <? h))))).

(** the documented rules ([draw]'s docstring): padding width always validated; padding
    height validated for animations; for a set size: with [check_size] (always for
    animations) the rendered width must fit and, unless [scroll] (ignored for animations),
    the rendered height *)
Definition old_doc_fits (check_size scroll animation dynamic : bool) (w h rawW rawH tw th : Z) : Prop :=
  rawW <= tw
  /\ (animation = true -> rawH <= th)
  /\ (dynamic = false -> (check_size = true \/ animation = true) ->
      w <= tw /\ ((scroll = false \/ animation = true) -> h <= th)).

(** the whole of [BaseImage.draw]; the frames are the unformatted renders *)
Definition old_draw_stream (check_size scroll animation dynamic tty : bool) (tw th : Z)
           (rawW rawH : Z) (ha va : nat) (w h : Z) (pre clear : list tok)
           (frames : list (list tok)) : option (list tok) :=
  if old_size_ok check_size scroll animation dynamic w h rawW rawH tw th then
    let '(W, H) := old_resolve tw th rawW rawH in
    let fmt := format_render W H ha va w h in
    Some match frames with
         | [] => opt tty THide ++ [TSgr0] ++ opt tty TShow ++ [TLF]
         | F1 :: Fs =>
           if animation then old_anim_stream tty (Z.max H h) pre clear (fmt F1) (map fmt Fs)
           else old_still_stream tty (fmt F1)
         end
  else None.
