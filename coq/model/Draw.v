(** * Draw — the token streams [draw()] writes to standard output (C06)

    New API: [Renderable.draw] / [_animate_] ([_renderable.py:475-591,698-813]) and
    [_init_render_]'s size validation ([_renderable.py:1112-1142]).
    Old API: [BaseImage.draw] / [_display_animated] ([common.py:631-795,1318-1365]) with
    [ITerm2Image._display_animated]'s wezterm pre-erase ([iterm2.py:521-547]) and
    [_renderer]'s size validation ([common.py:1683-1716]).

    A frame is the token list of its render output; the streams are functions of the
    frames, the padding margins and the flags. *)
From Coq Require Import List ZArith Bool Lia.
Import ListNotations.
From TI Require Import lib.Term lib.TermFacts lib.Lines model.Padding.
Open Scope Z_scope.

(** [ctlseqs.cursor_up / cursor_down / cursor_forward]: empty when [n <= 0] *)
Definition cuu (n : Z) : list tok := if 0 <? n then [TCuu n] else [].
Definition cud (n : Z) : list tok := if 0 <? n then [TCud n] else [].
Definition cuf (n : Z) : list tok := fillseg None n.

(** ** new API *)

(** [draw()] of a still frame, [R] = the (padded, when the gate says so) render output *)
Definition still_stream (hide : bool) (R : list tok) : list tok :=
  (if hide then [THide] else []) ++ R ++ [TLF] ++ (if hide then [TShow] else []).

(** one later frame of an animation: drawn from the render's top-left with every line
    feed followed by [cursor_forward(pad_left)], then back to the top-left *)
Definition later_frame (l h : Z) (clear F : list tok) : list tok :=
  clear ++ subst_lf [] (cuf l) F ++ [TCR] ++ cuu (h - 1) ++ cuf l.

(** [_animate_]: the padded first frame [P], then the later frames [Fs], finally down to
    the last line of the padded box *)
Definition anim_body (l b h : Z) (clear P : list tok) (Fs : list (list tok)) : list tok :=
  P ++ [TCR] ++ cuu (h + b - 1) ++ cuf l
    ++ concat (map (later_frame l h clear) Fs)
    ++ cud (h + b - 1).

Definition anim_stream (hide : bool) (l b h : Z) (clear P : list tok) (Fs : list (list tok))
  : list tok :=
  (if hide then [THide] else []) ++ anim_body l b h clear P Fs ++ [TLF]
  ++ (if hide then [TShow] else []).

(** [_init_render_]'s validation as [draw()] calls it: [check_size := animation or
    check_size], [allow_scroll := not animation and allow_scroll]; [true] = accepted *)
Definition size_ok (check_size allow_scroll animation : bool) (pw ph tw th : Z) : bool :=
  let check := animation || check_size in
  let allow := negb animation && allow_scroll in
  negb (check && ((tw <? pw) || (negb allow && (th <? ph)))).

(** the documented rule: "If check_size is True (or it's an animation), the padded render
    width must not be greater than the terminal width, and [if] allow_scroll is False (or
    it's an animation), the padded render height must not be greater than the terminal
    height" *)
Definition doc_fits (check_size allow_scroll animation : bool) (pw ph tw th : Z) : Prop :=
  (check_size = true \/ animation = true) ->
  pw <= tw /\ ((allow_scroll = false \/ animation = true) -> ph <= th).

(** the whole of [draw()]: nothing is written when validation rejects *)
Definition draw_stream (check_size allow_scroll animation hide : bool) (pw ph tw th : Z)
           (l b h : Z) (clear P : list tok) (Fs : list (list tok)) : option (list tok) :=
  if size_ok check_size allow_scroll animation pw ph tw th then
    Some (if animation then anim_stream hide l b h clear P Fs else still_stream hide P)
  else None.

(** ** old API *)

(** [print(formatted render) ... finally: print(SGR_DEFAULT, SHOW_CURSOR * isatty)] *)
Definition old_still_stream (tty : bool) (R : list tok) : list tok :=
  (if tty then [THide] else []) ++ R ++ [TSgr0] ++ (if tty then [TShow] else []) ++ [TLF].

(** [_display_animated]: every frame is printed padded, from the top of the padded box:
    ["\r", cursor_up, frame]; [pre] is the wezterm pre-erase of the iterm2 style (or
    empty); [clear] what [_clear_frame()] writes (kitty <= 0.25: delete by z-index) *)
Definition old_later_frame (lines : Z) (clear F : list tok) : list tok :=
  clear ++ [TCR] ++ cuu (lines - 1) ++ F.

Definition old_anim_stream (tty : bool) (lines : Z) (pre clear F1 : list tok)
           (Fs : list (list tok)) : list tok :=
  (if tty then [THide] else []) ++ pre ++ F1
  ++ concat (map (old_later_frame lines clear) Fs)
  ++ [TSgr0] ++ (if tty then [TShow] else []) ++ [TLF].

(** iterm2 on wezterm, [mix = False]: erase the padded box first, then back to its top *)
Definition wez_pre (lines : Z) (E : list tok) : list tok := E ++ [TCR] ++ cuu (lines - 1).

(** [_renderer]'s validation ([common.py:1683-1716]): with [check_size] (or an animation)
    the render size must fit the terminal width, and unless scrolling is allowed (never
    for animations) the terminal height; [BaseImage.draw] additionally requires
    [pad_width <= terminal_width] and, for animations, [pad_height <= terminal_height] *)
Definition old_size_ok (check_size scroll animation : bool) (w h padw padh tw th : Z) : bool :=
  negb (tw <? padw)
  && negb (animation && (th <? padh))
  && negb ((check_size || animation)
           && ((tw <? w) || (negb (scroll && negb animation) && (th <? h)))).
