(** C11 — executable model of ImageIterator (src/term_image/image/common.py:1979-2204).

    Mirrors the two-phase generator [_animate] (2141-2204) as a state machine over the
    points where the generator is suspended, and the public wrappers [__next__]
    (2053-2069), [seek] (2113-2139), [close] (2096-2111), [__del__] (2047-2048) and the
    [_cached] decision of [__init__] (2039-2041).

      first pass  (2160-2179): render frame n until the renderer raises EOFError;
                               a value sent into the generator sets n = sent - 1 and
                               the next yield is swallowed by send()
      second pass (2183-2200): frames come from the cache, re-rendered when the hash of
                               the rendered size differs from the one stored
      the image's seek position is written before every render / cache read, reset to 0
      at the end of every pass; at the very end the source PIL image is sought to 0.

    Line numbers: /repo at c32425a.  [close()] is modelled as repaired by
    pending_fixes/C11_close_unrendered_images.diff: the iterator records its PIL image when
    it is constructed (not at the generator's first step), so that close() / __del__ hand it
    to [_close_image] also when no frame was ever produced.

    Frame formatting — [image._format_render(image._render_image(img, alpha, frame=True,
    **style_args), *fmt)] with the image at seek position [k] and rendered size [z] — is the
    [Section] variable [fmt_frame]; [hash] is Python's hash of the rendered size.
    Definitions only. *)
From Coq Require Import List ZArith Bool Arith.
Import ListNotations.

Set Implicit Arguments.

Section ImgIter.
  Variables Str Size : Type.

  Inductive res := Ok (f : Str) | Eof | Err.

  Variable fmt_frame : nat -> Size -> res.
  Variable hash : Size -> Z.
  Variable N : nat.              (* image.n_frames (length of the cache list, bound of seek) *)
  Variable cached : bool.        (* self._cached *)

  (** where the generator is suspended: not started / at the yield of the first loop
      (2178) / at the yield of the second loop (2195) / finished, closed or deleted *)
  Inductive phase := P0 | P1 | P2 | PEnd.

  Record st := {
    ph : phase;
    n : Z;                                  (* local n (may be -1 after seek(0)) *)
    rep : Z;                                (* local repeat *)
    loop_no : option Z;                     (* self._loop_no *)
    cache : list (option (Str * Z));        (* (frame, size hash) or (None, None) *)
    pos : Z;                                (* image._seek_position *)
    size : Size;                            (* the image's rendered size *)
    src_reset : bool;                       (* 2203-2204 reached: source PIL image sought to 0 *)
    img_open : bool                         (* ghost: the PIL image the iterator works on (self._img, obtained
                                               from image._get_image() by __init__) has not yet been handed to
                                               image._close_image() *)
  }.

  Inductive op := Next | Seek (p : Z) | Close | Drop | SetImageSize (z : Size).

  Inductive outcome :=
  | OYield (k : nat) (f : Str)     (* __next__ returned frame [f], rendered as frame number k *)
  | OStop                          (* StopIteration *)
  | ORaise                         (* the renderer's exception propagated (iterator closed) *)
  | OHang                          (* the generator would never yield (zero-frame image, repeat < 0) *)
  | OSeekOk
  | OSeekBad                       (* ValueError: pos out of range *)
  | OSeekNotStarted                (* TermImageError: iteration has not yet started *)
  | OSeekClosed                    (* TermImageError: exhausted or closed *)
  | OClosed
  | OSized.

  Definition init (repeat : Z) (pos0 : Z) (z : Size) : st :=
    {| ph := P0; n := 0; rep := repeat; loop_no := None; cache := []; pos := pos0;
       size := z; src_reset := false; img_open := true |}.

  Definition set_ph (s : st) (p : phase) : st :=
    {| ph := p; n := n s; rep := rep s; loop_no := loop_no s; cache := cache s; pos := pos s;
       size := size s; src_reset := src_reset s; img_open := img_open s |}.
  Definition set_n (s : st) (v : Z) : st :=
    {| ph := ph s; n := v; rep := rep s; loop_no := loop_no s; cache := cache s; pos := pos s;
       size := size s; src_reset := src_reset s; img_open := img_open s |}.
  Definition set_pos (s : st) (v : Z) : st :=
    {| ph := ph s; n := n s; rep := rep s; loop_no := loop_no s; cache := cache s; pos := v;
       size := size s; src_reset := src_reset s; img_open := img_open s |}.
  Definition set_cache (s : st) (c : list (option (Str * Z))) : st :=
    {| ph := ph s; n := n s; rep := rep s; loop_no := loop_no s; cache := c; pos := pos s;
       size := size s; src_reset := src_reset s; img_open := img_open s |}.
  Definition set_size (s : st) (z : Size) : st :=
    {| ph := ph s; n := n s; rep := rep s; loop_no := loop_no s; cache := cache s; pos := pos s;
       size := z; src_reset := src_reset s; img_open := img_open s |}.

  Fixpoint upd {A} (k : nat) (v : A) (l : list A) : list A :=
    match l, k with
    | [], _ => []
    | _ :: r, 0 => v :: r
    | x :: r, S k' => x :: upd k' v r
    end.

  (** 2168-2170 / 2198-2200: [image._seek_position = n = 0; if repeat > 0: self._loop_no =
      repeat = repeat - 1] *)
  Definition wrap (s : st) : st :=
    let r := rep s in
    {| ph := ph s; n := 0;
       rep := if (0 <? r)%Z then (r - 1)%Z else r;
       loop_no := if (0 <? r)%Z then Some (r - 1)%Z else loop_no s;
       cache := cache s; pos := 0; size := size s; src_reset := src_reset s; img_open := img_open s |}.

  (** 2202-2204 and the StopIteration handler of __next__ (2056-2060: close()) *)
  Definition finish (s : st) : st * outcome :=
    ({| ph := PEnd; n := n s; rep := rep s; loop_no := loop_no s; cache := cache s; pos := pos s;
        size := size s; src_reset := true; img_open := false |}, OStop).

  (** close() (2096-2111): the generator is closed and deleted, [self._img] is handed to
      [image._close_image]; the image's seek position is left alone *)
  Definition end_it (s : st) : st :=
    {| ph := PEnd; n := n s; rep := rep s; loop_no := loop_no s; cache := cache s; pos := pos s;
       size := size s; src_reset := src_reset s; img_open := false |}.

  (** the renderer's exception leaves the generator; __next__ (2064-2069) calls close() *)
  Definition raise (s : st) : st * outcome := (end_it s, ORaise).

  (** second loop, at the head of the inner [while n < n_frames] with sent = None
      (2184-2200).  [fuel] bounds the number of empty passes (more than one only for a
      zero-frame image). *)
  Fixpoint p2_inner (fuel : nat) (s : st) : st * outcome :=
    if (n s <? Z.of_nat N)%Z then
      let k := Z.to_nat (n s) in
      let s1 := set_pos s (n s) in                                   (* 2186 *)
      let rerender :=                                                (* 2189-2193 *)
          match fmt_frame k (size s) with
          | Ok f => (set_ph (set_cache s1 (upd k (Some (f, hash (size s))) (cache s))) P2, OYield k f)
          | _ => raise s1
          end in
      match nth k (cache s) None with                                (* 2187-2188 *)
      | Some (f, h) => if Z.eqb (hash (size s)) h then (set_ph s1 P2, OYield k f) else rerender
      | None => rerender
      end
    else
      let s' := wrap s in                                            (* 2198-2200 *)
      if Z.eqb (rep s') 0 then finish s'
      else match fuel with
           | 0 => (s', OHang)
           | S fu => p2_inner fu s'
           end.

  (** 2181-2183: entering the second loop *)
  Definition p2_outer (fuel : nat) (s : st) : st * outcome :=
    if Z.eqb (rep s) 0 then finish s else p2_inner fuel s.

  (** first loop, at its head [while repeat] with sent = None (2160-2178) *)
  Fixpoint p1_run (fuel : nat) (s : st) : st * outcome :=
    if Z.eqb (rep s) 0 then finish s
    else
      let k := Z.to_nat (n s) in
      let s1 := set_pos s (n s) in                                   (* 2162 *)
      match fmt_frame k (size s) with                                (* 2163-2166 *)
      | Ok f =>
          (set_ph (if cached then set_cache s1 (upd k (Some (f, hash (size s))) (cache s)) else s1) P1,
           OYield k f)                                               (* 2175-2178 *)
      | Eof =>
          let s2 := wrap s1 in                                       (* 2168-2170 *)
          if cached then p2_outer fuel s2                            (* 2171-2172 break *)
          else match fuel with                                       (* 2173 continue *)
               | 0 => (s2, OHang)
               | S fu => p1_run fu s2
               end
      | Err => raise s1
      end.

  Definition fuel_of (s : st) : nat := S (Z.to_nat (Z.abs (rep s))).

  (** one public operation on the iterator / the image *)
  Definition step (s : st) (o : op) : st * outcome :=
    match o with
    | Next =>
        match ph s with
        | P0 =>                                                      (* 2151-2159 *)
            let s0 := {| ph := P1; n := 0; rep := rep s; loop_no := Some (rep s);
                         cache := if cached then repeat None N else [];
                         pos := pos s; size := size s; src_reset := src_reset s; img_open := img_open s |} in
            p1_run (fuel_of s0) s0
        | P1 => p1_run (fuel_of s) (set_n s (n s + 1))               (* 2179 with sent = None *)
        | P2 => p2_inner (fuel_of s) (set_n s (n s + 1))             (* 2196 with sent = None *)
        | PEnd => (s, OStop)                                         (* 2061-2063 *)
        end
    | Seek p =>
        if negb ((0 <=? p)%Z && (p <? Z.of_nat N)%Z) then (s, OSeekBad)   (* 2131-2132 *)
        else match ph s with
             | P0 => (s, OSeekNotStarted)                            (* 2136-2137 *)
             | P1 | P2 => (set_n s (p - 1), OSeekOk)                 (* 2179 / 2196 with sent = p;
                                                                        the next yield is swallowed *)
             | PEnd => (s, OSeekClosed)                              (* 2138-2139 *)
             end
    | Close | Drop => (end_it s, OClosed)                            (* 2105-2111, no seek reset *)
    | SetImageSize z => (set_size s z, OSized)
    end.

  Fixpoint run (s : st) (ops : list op) : st * list outcome :=
    match ops with
    | [] => (s, [])
    | o :: r => let (s1, x) := step s o in let (s2, xs) := run s1 r in (s2, x :: xs)
    end.

  (** the state a history leads to *)
  Definition after (repeat pos0 : Z) (z0 : Size) (ops : list op) : st :=
    fst (run (init repeat pos0 z0) ops).

  (** what can be seen after each operation: the outcome, image.tell(), loop_no, and whether
      the iterator's PIL image is still to be closed *)
  Fixpoint trace (s : st) (ops : list op) : list (outcome * Z * option Z * bool) :=
    match ops with
    | [] => []
    | o :: r => let (s1, x) := step s o in (x, pos s1, loop_no s1, img_open s1) :: trace s1 r
    end.
End ImgIter.

Arguments Eof {Str}.
Arguments Err {Str}.
Arguments Next {Size}.
Arguments Seek {Size} p.
Arguments Close {Size}.
Arguments Drop {Size}.
Arguments SetImageSize {Size} z.
Arguments OStop {Str}.
Arguments ORaise {Str}.
Arguments OHang {Str}.
Arguments OSeekOk {Str}.
Arguments OSeekBad {Str}.
Arguments OSeekNotStarted {Str}.
Arguments OSeekClosed {Str}.
Arguments OClosed {Str}.
Arguments OSized {Str}.

(** __init__ (2039-2041): [repeat != 1 and (cached if isinstance(cached, bool) else
    image.n_frames <= cached)]; [cached_arg]: inl b = a bool, inr k = a positive int *)
Definition cache_enabled (repeat : Z) (cached_arg : bool + Z) (n_frames : nat) : bool :=
  negb (Z.eqb repeat 1)
  && match cached_arg with inl b => b | inr k => (Z.of_nat n_frames <=? k)%Z end.
