(** * TrimFlow — the "original size fits" decision of a flow [UrwidImage] (C17)

    [UrwidImage.rows((maxcol,))] and the flow branch of [UrwidImage.render((maxcol,))] each
    decide, for a widget that does not upscale, whether the image's ORIGINAL size is used or the
    size FITTED to [maxcol] columns.  [model/Trim.v] ([rows], [flow_image_size]) writes the
    test once, inline, and takes [fit] / [ori] as given.  Here

    - the decision is an explicit function, one PER METHOD as in the code:
      [fits_rows] ([rows()], _urwid.py:170-176) and [fits_render] ([render()], _urwid.py:135-141);
      [rows_by] / [image_size_by] / [canvas_size_by] are the two methods over ANY decision;
    - [fit] = [image._valid_size(maxcol)] and [ori] = [image._valid_size(Size.ORIGINAL)] are
      computed by the sizing model ([model/Sizing.v: valid_size]) from what they depend on: the
      style family, the image's pixel size, the terminal's cell size / the cell ratio, [maxcol].
      For a GRAPHICS-based image pixels -> cells is a FLOOR division
      ([GraphicsImage._pixels_cols/_pixels_lines], common.py:1916-1931), so fitting an image
      whose pixel width is not a multiple of the cell width into exactly its original number of
      columns scales it DOWN: [fit] can be lower than [ori] at the same width.

    Definitions only; proofs are in [proofs/TrimFlowProofs.v]. *)
From Coq Require Import List ZArith Bool.
Import ListNotations.
From TI Require Import lib.FArith model.Sizing model.Trim.
Open Scope Z_scope.

(** a decision: (maxcol, fit, ori) -> use the original size? *)
Definition decision := Z -> Z * Z -> Z * Z -> bool.

(** [rows()], _urwid.py:170-176:
    [ori_size[0] <= fit_size[0] and ori_size[1] <= fit_size[1]] *)
Definition fits_rows : decision :=
  fun maxcol fit ori => (fst ori <=? fst fit) && (snd ori <=? snd fit).

(** [render()], _urwid.py:135-141:
    [ori_size[0] <= fit_size[0] and ori_size[1] <= fit_size[1]] *)
Definition fits_render : decision :=
  fun maxcol fit ori => (fst ori <=? fst fit) && (snd ori <=? snd fit).

(** EXCLUDED design: "a flow widget imposes no constraint on the height":
    [ori_size[0] <= size[0]] *)
Definition fits_width_only : decision :=
  fun maxcol fit ori => fst ori <=? maxcol.

(** [rows((maxcol,))] over a decision, _urwid.py:166-178 *)
Definition rows_by (d : decision) (maxcol : Z) (upscale : bool) (fit ori : Z * Z) : Z :=
  if upscale then snd fit
  else if d maxcol fit ori then snd ori else snd fit.

(** [image._size] after the flow branch of [render((maxcol,))] over a decision,
    _urwid.py:131-141, and the canvas size, :142 *)
Definition image_size_by (d : decision) (maxcol : Z) (upscale : bool) (fit ori : Z * Z) : Z * Z :=
  if upscale then fit
  else if d maxcol fit ori then ori else fit.

Definition canvas_size_by (d : decision) (maxcol : Z) (upscale : bool) (fit ori : Z * Z) : Z * Z :=
  (maxcol, snd (image_size_by d maxcol upscale fit ori)).

(** ** the two sizes, from the image and the terminal *)
Section WithFloat.
  Context {FA : FloatArith}.

  (** [image._valid_size(maxcol)]: width an int, height None (common.py:1832-1840) *)
  Definition fit_of (fam : family) (e : env FA) (pw ph maxcol : Z) : Z * Z :=
    valid_size fam e pw ph (DInt maxcol) DNone default_frame.

  (** [image._valid_size(Size.ORIGINAL)] (common.py:1784-1789) *)
  Definition ori_of (fam : family) (e : env FA) (pw ph : Z) : Z * Z :=
    valid_size fam e pw ph (DSize ORIGINAL) DNone default_frame.

  (** what [widget.rows((maxcol,))] announces / the canvas [widget.render((maxcol,))] builds,
      for an image of [pw x ph] pixels in environment [e], under decisions [dr] / [dd] *)
  Definition announced_rows (dr : decision) (fam : family) (e : env FA) (pw ph : Z)
             (upscale : bool) (maxcol : Z) : Z :=
    rows_by dr maxcol upscale (fit_of fam e pw ph maxcol) (ori_of fam e pw ph).

  Definition rendered_canvas (dd : decision) (fam : family) (e : env FA) (pw ph : Z)
             (upscale : bool) (maxcol : Z) : Z * Z :=
    canvas_size_by dd maxcol upscale (fit_of fam e pw ph maxcol) (ori_of fam e pw ph).
End WithFloat.

(** a terminal whose only relevant feature is its cell size (graphics styles: the pixel ratio
    is 1.0 whatever the cell ratio) *)
Definition cell_env {FA : FloatArith} (cw ch : Z) : env FA :=
  {| e_cols := 80; e_lines := 30; e_cell := Some (cw, ch); e_ratio := None; e_autosup := None |}.
