(** Executable comparison for the C01 terminal-identity correspondence.

    A case gives what the TERMINAL reports (name / version / reply to the kitty graphics query),
    the route by which the library came to know it (support checks, forced-support switches,
    cache clearings on the classes of a chain, then the construction of an instance of one of
    them) and the observation: whether the instance could be constructed and the lexed render.
    The model side runs the route machine of model/TermIdent.v and renders with what it says is
    recorded; the specification side interprets the implementation's OWN tokens under the
    conventions of the terminal the identity denotes ([rect_on_checkb (kind_of ident)]). *)
From Coq Require Import String List ZArith Bool.
Import ListNotations.
From TI Require Import lib.Term lib.RectCheck model.Query model.GfxRender model.RenderTie model.TermIdent.
Open Scope Z_scope.

Inductive imethod := MLines | MWhole.

Inductive irender :=
| IIterm (m : imethod) (mix : bool)
| IKitty (m : imethod) (z : Z) (mix blend : bool)      (* arguments given by the caller *)
| IKittyFrame (m : imethod) (mix : bool).               (* arguments picked by _display_animated *)

Record icase := {
  ic_ident : ident;
  ic_route : list rop;
  ic_cls : nat;
  ic_render : irender;
  ic_built : bool;            (* observed: the constructor returned an instance *)
  ic_w : Z; ic_h : Z;         (* observed: the advertised size *)
  ic_obs : list tok           (* observed: the lexed render ([] when not built) *)
}.

Definition is_iterm (r : irender) : bool := match r with IIterm _ _ => true | _ => false end.
Definition mix_of (r : irender) : bool :=
  match r with IIterm _ mix => mix | IKitty _ _ mix _ => mix | IKittyFrame _ mix => mix end.

(** the model's prediction: [None] = StyleError, [Some toks] = the render *)
Definition imodel (c : icase) : option (list tok) :=
  let w := ic_w c in let h := ic_h c in let obs := ic_obs c in
  match ic_render c with
  | IIterm m mix =>
    match route_rec (iterm2_recorded (ic_ident c)) (ic_route c) (ic_cls c) with
    | None => None
    | Some term =>
      Some (match m with
            | MLines => iterm2_lines_for term w mix (iterm_sps obs)
            | MWhole => iterm2_whole_for term w h mix (hd (0, 0) (iterm_sps obs))
            end)
    end
  | IKitty m z mix blend =>
    match route_rec (kitty_recorded (ic_ident c)) (ic_route c) (ic_cls c) with
    | None => None
    | Some _ =>
      Some (match m with
            | MLines => kitty_lines w z mix blend (map norm_lens (chunk_lens obs None))
            | MWhole => kitty_whole w h z mix blend (norm_lens (hd [] (chunk_lens obs None)))
            end)
    end
  | IKittyFrame m mix =>
    match route_rec (kitty_recorded (ic_ident c)) (ic_route c) (ic_cls c) with
    | None => None
    | Some ver =>
      Some (match m with
            | MLines => kitty_frame_lines_for ver w mix (map norm_lens (chunk_lens obs None))
            | MWhole => kitty_frame_whole_for ver w h mix (norm_lens (hd [] (chunk_lens obs None)))
            end)
    end
  end.

(** the terminal kind whose conventions judge the render: an identity's own kind for the
    iterm2 protocol; the kitty protocol is interpreted as lib/Term.v does on every terminal *)
Definition judge_kind (c : icase) : tkind :=
  if is_iterm (ic_render c) then kind_of (ic_ident c) else KOther.

(** 0 = agrees; +1 the model differs (tokens, or constructed / StyleError); +2 the observed
    render violates the contract under the conventions of the terminal the identity denotes *)
Definition icheck (c : icase) : nat :=
  let k := judge_kind c in let mix := mix_of (ic_render c) in
  ((match imodel c, ic_built c with
    | None, false => 0
    | Some m, true => if toks_eqb m (ic_obs c) then 0 else 1
    | _, _ => 1
    end)
   + (if negb (ic_built c)
         || (rect_on_checkb k mix (ic_w c) (ic_h c) 0 0 (ic_obs c)
             && rect_on_checkb k mix (ic_w c) (ic_h c) 5 3 (ic_obs c))
      then 0 else 2))%nat.

Definition ibad (cases : list icase) : list (nat * nat) :=
  filter (fun p => negb (Nat.eqb (snd p) 0)) (index_from 0 (map icheck cases)).

(** details for a report: the terminal kind, (is konsole mode, is wezterm mode) the model
    derives, per view the failing clauses of the contract at (0,0), first model difference *)
Definition kind_code (k : tkind) : nat :=
  match k with KIterm2 => 0 | KKonsole => 1 | KWezterm => 2 | KOther => 3 end%nat.
Definition iexplain (c : icase) :=
  (kind_code (judge_kind c),
   match route_rec (iterm2_recorded (ic_ident c)) (ic_route c) (ic_cls c) with
   | Some term => Some (q_konsole (iquirk_of_term term), q_wezterm (iquirk_of_term term))
   | None => None
   end,
   map (rect_check (ic_w c) (ic_h c) 0 0) (views (judge_kind c) (mix_of (ic_render c)) (ic_obs c)),
   match imodel c with Some m => first_diff m (ic_obs c) 0 | None => None end).
