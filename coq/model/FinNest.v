(** * FinNest — SEVERAL render-data objects alive at once, NESTED and CONCURRENT finalization (C10)

    The property quantifies over "every render-data object created".  The iterator / session / draw
    models have one.  Here: a family of render-data objects indexed by [nat] (creation order), each
    with its own ghost ([o_st]: not finalized / its finalizer is running / finalized;
    [o_calls]: entries into [_finalize_render_data_]).

    [RenderData.finalize()], _types.py:1369-1382:

          if not self.finalized:
              try:
                  self.render_cls._finalize_render_data_(self)     <- code of the render class
              finally:
                  self.finalized = True

    The finalizer is code of the render class: for a COMPOSITE renderable (its render data holds
    [RenderIterator]s over other renderables, or their render data) it closes those iterators /
    finalizes that data, i.e. it calls [finalize()] of OTHER objects while its own [finalize()] is in
    progress; dropping the last reference to some render data inside a finalizer runs
    [RenderData.__del__] -> [finalize()] there, too.  [body j] is the list of objects the finalizer of
    object [j] finalizes, in order (a parameter: ANY function).  Other threads may be inside
    [finalize()] of other objects at the same time.

    The machine: every thread is a stack of frames; the bottom frame is the thread's own program
    (the objects whose life its operations end: [close()] / exhaustion / failure of an owning
    iterator, completion of [render()] / [draw()], garbage collection), a frame above it is a
    finalizer in progress with what it has left to do.  [step c t] lets thread [t] make one move;
    a schedule is a list of thread numbers.

    [guarded = false] is the code (the once-flag is per object and nothing else is consulted).
    [guarded = true] is an excluded design: one NON-BLOCKING lock shared by all objects -
    [if not self.finalized and LOCK.acquire(blocking=False): try: ... finally: LOCK.release()].

    Definitions only. *)
From Coq Require Import List Bool Arith.
Import ListNotations.

Inductive status := Idle | Running | Done.
Record ost := { o_st : status; o_calls : nat }.
Definition heap := nat -> ost.

Definition fresh_obj : ost := {| o_st := Idle; o_calls := 0 |}.
Definition upd (h : heap) (j : nat) (x : ost) : heap := fun i => if Nat.eqb i j then x else h i.
Definition is_done (x : ost) : bool := match o_st x with Done => true | _ => false end.
Definition is_running (x : ost) : bool := match o_st x with Running => true | _ => false end.

(** [f_obj = None]: a thread's own program; [Some i]: the finalizer of object [i], in progress *)
Record frame := { f_obj : option nat; f_todo : list nat }.
Definition thread := list frame.                      (* head = innermost *)

Record cfg := { hp : heap; thr : list thread; lock : bool }.

Definition get_thread (l : list thread) (t : nat) : thread := nth t l [].
Fixpoint set_thread (l : list thread) (t : nat) (x : thread) : list thread :=
  match l, t with
  | [], _ => []
  | _ :: r, O => x :: r
  | y :: r, S t' => y :: set_thread r t' x
  end.

Definition frames (c : cfg) : list frame := concat (thr c).

Section Machine.
  Variable body : nat -> list nat.
  Variable guarded : bool.

  Definition step (c : cfg) (t : nat) : cfg :=
    match get_thread (thr c) t with
    | [] => c                                                     (* the thread has finished *)
    | fr :: rest =>
      match f_todo fr with
      | [] =>                                                     (* the frame returns *)
        match f_obj fr with
        | Some i =>                                               (* finally: self.finalized = True [; release] *)
          {| hp := upd (hp c) i {| o_st := Done; o_calls := o_calls (hp c i) |};
             thr := set_thread (thr c) t rest;
             lock := if guarded then false else lock c |}
        | None => {| hp := hp c; thr := set_thread (thr c) t rest; lock := lock c |}
        end
      | j :: more =>                                              (* obj_j.finalize() *)
        let fr' := {| f_obj := f_obj fr; f_todo := more |} in
        if is_done (hp c j) || (guarded && lock c)
        then {| hp := hp c; thr := set_thread (thr c) t (fr' :: rest); lock := lock c |}
        else {| hp := upd (hp c) j {| o_st := Running; o_calls := S (o_calls (hp c j)) |};
                thr := set_thread (thr c) t ({| f_obj := Some j; f_todo := body j |} :: fr' :: rest);
                lock := if guarded then true else lock c |}
      end
    end.

  Definition run (c : cfg) (sched : list nat) : cfg := fold_left step sched c.

  (** the move thread [t] is about to make is not a [finalize()] of an object whose finalizer is
      running (in this thread: the finalizer would recurse for ever; in another one: both would
      enter it - the once-flag is check-then-act) *)
  Definition step_ok (c : cfg) (t : nat) : bool :=
    match get_thread (thr c) t with
    | fr :: _ => match f_todo fr with
                 | j :: _ => negb (is_running (hp c j))
                 | [] => true
                 end
    | [] => true
    end.

  Fixpoint race_free (c : cfg) (sched : list nat) : bool :=
    match sched with
    | [] => true
    | t :: r => step_ok c t && race_free (step c t) r
    end.
End Machine.

Definition init (progs : list (list nat)) : cfg :=
  {| hp := fun _ => fresh_obj;
     thr := map (fun p => [{| f_obj := None; f_todo := p |}]) progs;
     lock := false |}.

Definition quiescent (c : cfg) : bool :=
  forallb (fun th => match th with [] => true | _ => false end) (thr c).

(** bodies given as a table (object id -> list), for concrete scenarios *)
Definition body_of (bs : list (list nat)) (j : nat) : list nat := nth j bs [].
