(** * IterEnv — render iterator histories in a CHANGING environment (C08)

    [Iter] / [IterSpec] take the terminal size [term] as a parameter of every step and know
    only the operations of the iterator's own interface.  Two things a client can do during
    an iterator's life are outside those histories:

    - the terminal is RESIZED between two operations: [get_terminal_size()] then returns
      another value.  The only consumers are the places that resolve a terminal-relative
      [AlignedPadding]: the constructors ([_renderable.py:1121-1125], [_iterator.py:497-501])
      and [set_padding] ([_iterator.py:399-403]).  Documented: relative dimensions are
      resolved "upon reception" ([padding.py:270]) against the terminal size "at the point of
      resolution"; no other operation looks at the terminal.
      A history with resizes is a list of events [(terminal size in force, operation)];
      the step of an event is [Iter.step] / [IterSpec.spec_step] AT THAT terminal size.

    - the client WRITES the public attribute [iterator.loop] ([EPoke v]).  Documented
      ([_iterator.py:101-114]): "Modifying this doesn't affect the iterator."
      In the code model this is an assignment to [pub_loop] and nothing else: the generator
      counts in its local [g_loop] ([_iterator.py:565, 581, 639-640]).
      In the documented machine the countdown [a_loop] is untouched; what is read back from
      the attribute is the written value until the iterator next publishes its countdown
      (i.e. until the countdown next changes).

    Definitions only; proofs are in [proofs/IterEnvProofs.v]. *)
From Coq Require Import List ZArith Bool.
Import ListNotations.
From TI Require Import model.Iter model.IterSpec.
Open Scope Z_scope.

(** an event's action: an operation of the iterator, or a client write to [iterator.loop] *)
Inductive eop := EOp (o : op) | EPoke (v : Z).

(** an event: the terminal size in force when it happens, and the action *)
Definition ev := (size * eop)%type.

Definition is_op (e : ev) : bool := match snd e with EOp _ => true | EPoke _ => false end.

(** the history with the client writes erased *)
Definition erase_pokes (h : list ev) : list ev := filter is_op h.

(** a plain history at a constant terminal size *)
Definition const_env (term : size) (ops : list op) : list ev := map (fun o => (term, EOp o)) ops.

(** the latest [set_padding] of a history: terminal size at that event, padding as given *)
Fixpoint last_set_padding (h : list ev) (acc : option (size * padding)) : option (size * padding) :=
  match h with
  | [] => acc
  | (t, EOp (SetPadding p)) :: r => last_set_padding r (Some (t, p))
  | _ :: r => last_set_padding r acc
  end.

Section Env.
  Variable RS : Type.
  Variable render : RS -> Z -> whence -> size -> dur -> Z -> rres * RS.
  Variable n : option Z.

  (** ** code model *)

  Definition estep (s : state RS) (e : ev) : state RS * out :=
    match snd e with
    | EOp o => step RS render n (fst e) s o
    | EPoke v => (set_pub_loop RS s v, OOk)          (* [render_iter.loop = v] *)
    end.

  Definition run_env (s : state RS) (h : list ev) : state RS :=
    fold_left (fun s e => fst (estep s e)) h s.

  (** per event: what it returned and [iterator.loop] read after it *)
  Fixpoint trace_env (s : state RS) (h : list ev) : list (out * Z) :=
    match h with
    | [] => []
    | e :: r => let '(s', x) := estep s e in (x, pub_loop s') :: trace_env s' r
    end.

  (** what the OPERATIONS of the history returned (frames, stops, errors), client writes skipped *)
  Fixpoint outs_env (s : state RS) (h : list ev) : list out :=
    match h with
    | [] => []
    | e :: r => let '(s', x) := estep s e in
                if is_op e then x :: outs_env s' r else outs_env s' r
    end.

  (** ** documented machine: the state of [IterSpec], plus what the client last wrote into
      the attribute if the iterator has not published its countdown since *)
  Definition pstate := (astate RS * option Z)%type.

  (** the value read from [iterator.loop] *)
  Definition readback (p : pstate) : Z :=
    match snd p with Some v => v | None => a_loop (fst p) end.

  Definition spec_estep (p : pstate) (e : ev) : pstate * out :=
    match snd e with
    | EOp o =>
      let '(a', x) := spec_step RS render n (fst e) (fst p) o in
      ((a', if a_loop a' =? a_loop (fst p) then snd p else None), x)
    | EPoke v => ((fst p, Some v), OOk)
    end.

  Definition spec_run_env (p : pstate) (h : list ev) : pstate :=
    fold_left (fun p e => fst (spec_estep p e)) h p.

  Fixpoint spec_trace_env (p : pstate) (h : list ev) : list (out * Z) :=
    match h with
    | [] => []
    | e :: r => let '(p', x) := spec_estep p e in (x, readback p') :: spec_trace_env p' r
    end.

  Fixpoint spec_outs_env (p : pstate) (h : list ev) : list out :=
    match h with
    | [] => []
    | e :: r => let '(p', x) := spec_estep p e in
                if is_op e then x :: spec_outs_env p' r else spec_outs_env p' r
    end.
End Env.

(** ** a second iterator over the render data a first one worked on

    [RenderIterator._from_render_data_(renderable, D, ..., finalize=False)] leaves [D] to the
    caller, who may hand it to another iterator later ([model/IterSession.v], C10).  The new
    iterator works on [D]'s namespace as the previous one left it (size, duration; the frame
    offset is wherever the previous iteration stopped).  Documented: "iteration starts at
    frame 0" - a new iterator has an empty history whatever happened to the data before. *)
From TI Require Import model.IterSession.

(** the configuration of a documented machine constructed over existing data: the render
    size and frame duration are the data's *)
Definition on_data (c : config) (sz : size) (d : dur) : config :=
  {| c_loops := c_loops c; c_cache := c_cache c; c_size := sz; c_dur := d; c_args := c_args c;
     c_pad := c_pad c; c_owns := c_owns c; c_frame := c_frame c |}.

Section Remake.
  Variable RS : Type.
  Variable render : RS -> Z -> whence -> size -> dur -> Z -> rres * RS.
  Variable n : option Z.

  (** the session whose current iterator is [s] *)
  Definition sess_of (s : state RS) : sess RS :=
    {| s_it := Some s; s_data := gh s; s_rd := rd s; s_rs := rs s |}.

  (** the previous iterator [s] is dropped, then
      [_from_render_data_(renderable, D, c_args, c_pad, c_loops, c_cache, finalize = c_owns)]
      at terminal size [term]: [IterSession.sstep] on [SMake] *)
  Definition remake (term : size) (s : state RS) (c : config) : state RS + err :=
    match sstep RS render n term guard_code (sess_of s) (SMake c) with
    | (ss', SMade) => match s_it ss' with Some s2 => inl s2 | None => inr EValue end
    | (_, SRefused e) => inr e
    | _ => inr EValue
    end.
End Remake.
