(** Executable comparison used by the C20 correspondence: runs the model and the
    specification on a history and compares with what the implementation showed. *)
From Coq Require Import List ZArith Bool Arith.
Import ListNotations.
From TI Require Import model.Settings.

Fixpoint zl_eqb (a b : list Z) : bool :=
  match a, b with
  | [], [] => true
  | x :: a', y :: b' => Z.eqb x y && zl_eqb a' b'
  | _, _ => false
  end.
Fixpoint zll_eqb (a b : list (list Z)) : bool :=
  match a, b with
  | [], [] => true
  | x :: a', y :: b' => zl_eqb x y && zll_eqb a' b'
  | _, _ => false
  end.

Record tcase := {
  t_kind : kind;
  t_par : list nat;      (* parent of each class, creation order *)
  t_icls : list nat;     (* class of each instance *)
  t_ops : list op;
  t_obs : list (list Z)  (* per op: outcome code :: class values ++ instance values *)
}.

(** the documented outcome of an operation *)
Definition spec_out (k : kind) (o : op) : Z :=
  match o with
  | ClsSet _ v => if k_valid k v then 0 else 1
  | ClsUnset _ => if k_cls_unset k then 0 else 1
  | InstSet _ v => if k_inst_set k && k_valid k v then 0 else 1
  | InstUnset _ => if k_inst_set k then 0 else 1
  end%Z.

(** 0 = agrees with model and spec; 1 = differs from the model only;
    2 = the observed behaviour contradicts the specification (property fails);
    3 = both *)
Definition check (t : tcase) : nat :=
  let k := t_kind t in
  let par := parf (t_par t) in
  let icls := parf (t_icls t) in
  let nc := length (t_par t) in
  let ni := length (t_icls t) in
  let m := trace k par icls nc ni (init k) (t_ops t) in
  let ok_model := zll_eqb m (t_obs t) in
  let ok_spec :=
      zll_eqb (spec_trace k par icls nc ni (t_ops t)) (map (@tl Z) (t_obs t))
      && zl_eqb (map (spec_out k) (t_ops t)) (map (hd 9%Z) (t_obs t)) in
  (if ok_model then 0 else 1) + (if ok_spec then 0 else 2).

Fixpoint index_from {A} (n : nat) (l : list A) : list (nat * A) :=
  match l with [] => [] | x :: r => (n, x) :: index_from (S n) r end.

Definition bad (cases : list tcase) : list (nat * nat) :=
  filter (fun p => negb (Nat.eqb (snd p) 0)) (index_from 0 (map check cases)).

(** global native-animation limit: observed rows are [outcome; value read via every
    class and instance ...] *)
Record gcase := { g_ops : list gop; g_obs : list (list Z) }.

Fixpoint gspec_rows (done todo : list gop) : list Z :=
  match todo with
  | [] => []
  | o :: r => gspec (done ++ [o]) :: gspec_rows (done ++ [o]) r
  end.
Definition gspec_out (o : gop) : Z :=
  match o with GSet _ v => if (0 <? v)%Z then 0 else 1 | GUnset _ => 0 | _ => 1 end%Z.

Definition gcheck (t : gcase) : nat :=
  let m := gtrace nam_default (g_ops t) in
  let ok_model :=
      zll_eqb (map (fun r => [hd 9%Z r]) m) (map (fun r => [hd 9%Z r]) (g_obs t))
      && forallb (fun p => forallb (Z.eqb (nth 1 (fst p) 0%Z)) (tl (snd p)))
                 (combine m (g_obs t))
      && Nat.eqb (length m) (length (g_obs t)) in
  let ok_spec :=
      zl_eqb (map gspec_out (g_ops t)) (map (hd 9%Z) (g_obs t))
      && forallb (fun p => forallb (Z.eqb (fst p)) (tl (snd p)))
                 (combine (gspec_rows [] (g_ops t)) (g_obs t)) in
  (if ok_model then 0 else 1) + (if ok_spec then 0 else 2).

Definition gbad (cases : list gcase) : list (nat * nat) :=
  filter (fun p => negb (Nat.eqb (snd p) 0)) (index_from 0 (map gcheck cases)).
