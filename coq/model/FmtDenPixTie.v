(** C19, round 8 — judge of the pixel-exact denotation cases (executable; harness/props/c19.py).

    [xcheck]: FmtDenTie.acheck with the EXACT threshold rule (no alpha level exempt except the
    lower neighbour of an exact tie on the specification side; none on the model side).
    [tcheck]: one specifier formatted by a graphics-based style on a source of a given kind
    (mode class, file-backed or not, fits or down-scaled) under a read-from-file policy and a
    render method: the pixels of the picture TRANSMITTED (decoded by the driver) against the
    source pixels.
    Codes: 0 agrees; +1 differs from the implementation model; +2 contradicts the
    documentation; 4 = the case itself is ill-formed (generator error). *)
From Coq Require Import List NArith ZArith Bool.
Import ListNotations.
From TI Require Import lib.Re model.FmtSpec model.FmtSpecTie model.FmtDen model.FmtDenTie model.FmtDenPix.
Local Open Scope Z_scope.

Definition xcheck (c : acase) : nat :=
  match meaning_of (a_sty c) (a_spec c) with
  | None => 4%nat
  | Some m =>
      if negb (forallb (doc_equiv (a_sty c) (a_bg c) m) (a_eqs c))
         || negb (Nat.eqb (length (a_eqs c)) (length (a_same c))) then 4%nat
      else
        let shape := Nat.eqb (a_kind c) 0 && forallb (fun v => v =? 1) (a_same c) in
        let ok_spec := shape && forallb (fun po => pixel_ok_x (doc_eff (m_t m) (a_bg c)) (fst po) (snd po)) (a_px c) in
        let ok_model :=
          match impl_outcome ts80 (a_sty c) (a_spec c) with
          | Some (Accepted r) =>
              match impl_eff code_fallback (a_bg c) (r_alpha r) with
              | Some e => shape && forallb (fun po => impl_pixel thr8 e (fst po) (snd po)) (a_px c)
              | None => false
              end
          | _ => false
          end in
        ((if ok_model then 0 else 1) + (if ok_spec then 0 else 2))%nat
  end.

Record tcase := {
  t_sty : style;
  t_spec : list N;
  t_bg : option Z;                    (* the terminal's background colour, if determined *)
  t_cur : nat;                        (* the instance's render method: 1 lines, 2 whole, 3 anim *)
  t_src : gsrc;
  t_kind : nat;                       (* 0 = a string was returned *)
  t_px : list (px * tpx);             (* source pixel, the transmitted pixel showing it *)
  t_verb : Z                          (* 1 = the payload is the source file's bytes; 0 = not; -1 = no file *)
}.

Definition tcheck (c : tcase) : nat :=
  match meaning_of (t_sty c) (t_spec c) with
  | None => 4%nat
  | Some m =>
      if negb (forallb (fun po => px_of_mode (g_mode (t_src c)) (fst po)) (t_px c)) then 4%nat
      else
        let method := eff_method m (t_cur c) in
        let shape := Nat.eqb (t_kind c) 0 && negb (Nat.eqb (length (t_px c)) 0) in
        let ok_spec := shape && forallb (fun po => gpixel_ok (doc_eff (m_t m) (t_bg c)) (fst po) (snd po)) (t_px c) in
        let ok_model :=
          match impl_outcome ts80 (t_sty c) (t_spec c) with
          | Some (Accepted r) =>
              shape
              && forallb (fun po => impl_gpixel code_gate (t_sty c) (t_bg c) (r_alpha r) (t_src c) method (fst po) (snd po)) (t_px c)
              && (if impl_verbatim code_gate (t_sty c) (r_alpha r) (t_src c) method
                  then negb (t_verb c =? 0) else negb (t_verb c =? 1))
          | _ => false
          end in
        ((if ok_model then 0 else 1) + (if ok_spec then 0 else 2))%nat
  end.

Definition xbad (cases : list acase) : list (nat * nat) :=
  filter (fun p => negb (Nat.eqb (snd p) 0)) (index_from 0 (map xcheck cases)).
Definition tbad (cases : list tcase) : list (nat * nat) :=
  filter (fun p => negb (Nat.eqb (snd p) 0)) (index_from 0 (map tcheck cases)).
