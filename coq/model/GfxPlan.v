(** C03 — the decisions of one graphics render: which render method is in force, which
    pixel size is transmitted, how the LINES strips are cut, and WHICH READ of the
    (variable) terminal environment each of these quantities comes from.

    Mirrors, decision for decision:
      src/term_image/image/kitty.py   KittyImage._render_image
        436   render_method = (method or self._render_method).lower()     [resolve_method]
        437   r_width, r_height = self.rendered_size   (pinned by _renderer: no environment read)
        438-442 width, height = minimal / full render size, by render_method == WHOLE
                 -> ONE call of get_cell_size() (common.py:1913)           [env 0]
        457   if render_method == LINES:                                    [kp_branch_method]
        458   cell_height = height // r_height   (no second read)          [kp_strip_h]
      src/term_image/image/iterm2.py  ITerm2Image._render_image
        593-594 r_width, r_height = self.rendered_size; render_method = (method or ...).lower()
        607   native animation branch (no pixel size, no environment read)
        655-658 ANIM -> WHOLE fall-back
        660-664 width, height by render_method == WHOLE  -> get_cell_size() [env 0]
        666-680 read-from-file gate; its 5th conjunct calls _get_render_size() AGAIN
                 -> a second get_cell_size(), reached only when the first four conjuncts
                 hold (Python's short-circuit `and`)                        [env 1]
        718   if render_method == LINES:                                    [ip_branch]
        722   cell_height = height // r_height   (no further read)         [ip_strip_h]

    The environment is a function from the index of the read (0 = first call of
    get_cell_size() made by this render, 1 = second ...) to the cell size answered: a
    terminal whose font / window changes during the render is simply a non-constant
    function.  The design rule "any variable state ... should be read only once during a
    single render" (renderable/_renderable.py:1111) is what [kp_cell_reads] and the
    theorems of proofs/GfxPlanProofs.v express.

    The two places where a method is consulted are kept as two fields of the plan
    ([*_size_method], [*_branch_method]) and the general plan takes them as two
    parameters: the code's plan instantiates both with the ONE resolved method.
    Definitions only. *)
From Coq Require Import List Bool Arith.
Import ListNotations.
From TI Require Import gen.Consts model.KittyChunks.

Local Open Scope nat_scope.

(** the answers of the successive get_cell_size() calls of one render *)
Definition cell_env : Type := nat -> nat * nat.
Definition const_env (c : nat * nat) : cell_env := fun _ => c.
(** the environment changes to [b] after [k] reads *)
Definition changing_env (a b : nat * nat) (k : nat) : cell_env := fun i => if i <? k then a else b.

(** kitty.py:436 / iterm2.py:594 — [set]: the method set on the instance or its class
    (None = neither: the class default, LINES for both styles, kitty.py:179,
    iterm2.py:268); [over]: the per-render [method] argument / the +L +W +A of a format
    specifier *)
Definition default_method : method := Lines.
Definition resolve_method (set over : option method) : method :=
  match over with
  | Some m => m                                      (* method or ... *)
  | None => match set with Some m => m | None => default_method end
  end.

(* -------------------------------------------------------------------- kitty *)

Record kplan := {
  kp_size_method : method;     (* the method tested at kitty.py:440 (pixel size) *)
  kp_branch_method : method;   (* the method tested at kitty.py:457 (framing) *)
  kp_size : nat * nat;         (* width, height of the pixel data prepared and transmitted *)
  kp_strip_h : nat;            (* LINES: rows per strip = the v key (kitty.py:458) *)
  kp_cell_reads : nat          (* calls of get_cell_size() made by the render *)
}.

(** the render as a function of the two method decisions *)
Definition kitty_plan_with (size_m branch_m : method) (rw rh : nat) (env : cell_env)
           (os : nat * nat) : kplan :=
  let c := env 0 in                                  (* the one read: common.py:1913 *)
  let sz := pixel_size size_m rw rh (fst c) (snd c) os in
  {| kp_size_method := size_m; kp_branch_method := branch_m; kp_size := sz;
     kp_strip_h := cell_height (snd sz) rh; kp_cell_reads := 1 |}.

(** KittyImage._render_image: both decisions test the one local [render_method] *)
Definition kitty_plan (set over : option method) (rw rh : nat) (env : cell_env)
           (os : nat * nat) : kplan :=
  let m := resolve_method set over in
  kitty_plan_with m m rw rh env os.

(** what the LINES branch sends: [rh] strips of [kp_strip_h] rows each *)
Definition kp_rows_sent (p : kplan) (rh : nat) : nat :=
  match kp_branch_method p with Lines => rh * kp_strip_h p | _ => snd (kp_size p) end.

(* ------------------------------------------------------------------- iterm2 *)

Record iplan := {
  ip_size_method : method;     (* tested at iterm2.py:662 (pixel size) — after the fall-back *)
  ip_branch : ibranch;         (* native / per line / whole *)
  ip_size : nat * nat;
  ip_strip_h : nat;            (* LINES: rows per strip (iterm2.py:722) *)
  ip_gate : bool;              (* the source file is sent untouched *)
  ip_cell_reads : nat
}.

(** the render as a function of the method consulted for the size and the one consulted
    for the branch; [strip_read]: the read the strip height is derived from is always the
    size's own read (0) in the code — see [iterm2_plan] *)
Definition iterm2_plan_with (size_m0 branch_m0 : method) (animated frame : bool) (rw rh : nat)
           (env : cell_env) (os : nat * nat)
           (rff readable : bool) (mode_class alpha : nat) : iplan :=
  let b := iterm2_branch branch_m0 animated frame in
  let m := iterm2_effective_method size_m0 animated frame in
  match b with
  | BNative =>
      {| ip_size_method := m; ip_branch := b; ip_size := (0, 0); ip_strip_h := 0;
         ip_gate := readable; ip_cell_reads := 0 |}
  | _ =>
      let c0 := env 0 in                             (* iterm2.py:660-664 *)
      let sz := pixel_size m rw rh (fst c0) (snd c0) os in
      (* iterm2.py:666-670: the conjuncts before the second read *)
      let reached := rff && negb animated && readable && method_eqb m Whole in
      let c1 := env 1 in                             (* iterm2.py:671 *)
      let gate := read_from_file_gate rff animated readable m (fst os * snd os)
                    (rw * fst c1 * (rh * snd c1)) mode_class alpha in
      {| ip_size_method := m; ip_branch := b; ip_size := sz;
         ip_strip_h := cell_height (snd sz) rh;
         ip_gate := gate; ip_cell_reads := if reached then 2 else 1 |}
  end.

Definition iterm2_plan (set over : option method) (animated frame : bool) (rw rh : nat)
           (env : cell_env) (os : nat * nat)
           (rff readable : bool) (mode_class alpha : nat) : iplan :=
  let m := resolve_method set over in
  iterm2_plan_with m m animated frame rw rh env os rff readable mode_class alpha.

(* ------------------------------------------------- variants (for the proofs) *)

(** A render that derives the strip height from a LATER read of the environment than the
    one the pixel data was prepared with (the shape excluded by the single-read rule).
    Only used to show that the theorems separate it from the code's plan. *)
Definition strip_from_read (k : nat) (env : cell_env) : nat := snd (env k).
