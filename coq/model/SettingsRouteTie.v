(** Executable comparison used by the C20 correspondence for histories with REQUESTS
    (format / draw of one frame / draw of an animation / ImageIterator): runs
    [SettingsRoute.qtrace] (model: the style-argument dictionary through the hops) and
    [SettingsRoute.spec_qtrace] (the documented rule on the history alone) and compares
    both with the method EVERY frame of every request was really rendered with. *)
From Coq Require Import List ZArith Bool Arith.
Import ListNotations.
From TI Require Import model.Settings model.SettingsTie model.SettingsRender
     model.SettingsRenderTie model.SettingsRoute.

Record qcase := {
  q_style : rstyle;
  q_newer : bool;         (* kitty: _KITTY_VERSION > (0, 25, 0) *)
  q_par : list nat;       (* parent of each class, creation order *)
  q_icls : list nat;      (* class of each instance *)
  q_anim : list bool;     (* per instance: the source is animated *)
  q_size : list Z;        (* per instance: size in bytes of the source's data *)
  q_frames : list nat;    (* per instance: number of frames of the source *)
  q_ops : list qop;
  q_obs : list (list Z)   (* per rendered frame: [method used; warning issued] *)
}.

(** 0 = agrees with model and spec; 1 = differs from the model only;
    2 = the observed frames contradict the specification (property fails); 3 = both *)
Definition qcheck (t : qcase) : nat :=
  let k := k_render_method (match q_style t with SKitty => 2 | SITerm2 => 3 end)%Z in
  let par := parf (q_par t) in
  let icls := parf (q_icls t) in
  let src := {| s_animated := fun i => nth i (q_anim t) false;
                s_size := fun i => nth i (q_size t) 0%Z |} in
  let frames := fun i => nth i (q_frames t) 0 in
  let ok_model :=
      zll_eqb (map rout_row (qtrace (q_style t) (q_newer t) k par icls src frames (q_ops t)))
              (q_obs t) in
  let ok_spec :=
      zll_eqb (map rout_row (spec_qtrace k par icls src frames (q_ops t))) (q_obs t) in
  (if ok_model then 0 else 1) + (if ok_spec then 0 else 2).

Definition qbad (cases : list qcase) : list (nat * nat) :=
  filter (fun p => negb (Nat.eqb (snd p) 0)) (index_from 0 (map qcheck cases)).
