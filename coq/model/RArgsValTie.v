(** Executable comparison used by the C16 correspondence for namespace programs over the
    value universe ([model/RArgsVal.v]).

    A case is a list of namespace classes (default field values), a program of
    constructor / update / RenderArgs.update / field access operations, and for every
    operation what the implementation showed: the result (a namespace instance, named by
    the driver in order of first appearance — the shared default instances first —, an
    error, or a field value), a dump of EVERY live namespace instance ([as_dict()] values,
    the values read attribute by attribute, [hash]), [==] of the result with every
    instance, and the field definitions of every class.  [ncheck] runs the heap model
    ([nstep_op]) and, independently, the value-level rule ([spec_nop]) and judges the
    observation against both. *)
From Coq Require Import List ZArith Bool Arith.
Import ListNotations.
From TI Require Import model.RArgsVal.

Record nsobs := { no_cls : nat; no_dict : list val; no_attr : list val; no_hash : Z }.

Record nobs := {
  nb_res : Z;                  (* >= 0: driver index of the result; -1-e: error e;
                                  -100: a field value ([nb_val]) *)
  nb_val : val;
  nb_ext : bool;               (* encoding only: [true] = the dump is the previous dump followed
                                  by [nb_dump]; [false] = the dump is [nb_dump] *)
  nb_dump : list nsobs;        (* every live instance, by driver index *)
  nb_eq : list bool;           (* result == instance j (when the result is an instance) *)
  nb_dfl : list (list val);    (* [get_fields()] values of every class after the operation *)
  nb_flags : bool              (* the driver's own side conditions held (the set used by a
                                  RenderArgs.update still holds the same instances, the new
                                  set holds the old instances for the other classes, ...) *)
}.

Record ncase := {
  nc_cl : list (list val);
  nc_ops : list nop;
  nc_init : list nsobs;        (* the dump before the first operation *)
  nc_obs : list nobs;
  nc_fin_eq : list (list bool) (* after the last operation: == of every pair *)
}.

Definition ncode (e : nerr) : Z :=
  match e with NEIncompat => 1 | NEUnknown => 4 | NEType => 5 | NEBadOperand => 6 end%Z.

Fixpoint blist_eqb (a b : list bool) : bool :=
  match a, b with
  | [], [] => true
  | x :: a', y :: b' => Bool.eqb x y && blist_eqb a' b'
  | _, _ => false
  end.

Fixpoint all2 {A B} (f : A -> B -> bool) (a : list A) (b : list B) : bool :=
  match a, b with
  | [], [] => true
  | x :: a', y :: b' => f x y && all2 f a' b'
  | _, _ => false
  end.

Definition nsobs_eqb (a b : nsobs) : bool :=
  Nat.eqb (no_cls a) (no_cls b) && vl_eqb (no_dict a) (no_dict b) &&
  vl_eqb (no_attr a) (no_attr b) && Z.eqb (no_hash a) (no_hash b).

(** the observed instance shows class [c] and exactly the values [f], both ways *)
Definition shows (o : nsobs) (c : nat) (f : list val) : bool :=
  Nat.eqb (no_cls o) c && vl_eqb (no_dict o) f && vl_eqb (no_attr o) f.

Definition dummy_obs : nsobs := {| no_cls := 99; no_dict := []; no_attr := []; no_hash := 0 |}.

(** [==] by the documented rule on the observations: the same instance, or the same class
    and pairwise [==] values; equal instances hash equal *)
Definition eq_rule (dump : list nsobs) (i : nat) (row : list bool) : bool :=
  let x := nth i dump dummy_obs in
  Nat.eqb (length row) (length dump) &&
  forallb (fun q =>
             let '(j, (e, y)) := q in
             Bool.eqb e (Nat.eqb i j || (Nat.eqb (no_cls x) (no_cls y) && vl_pyeq (no_dict x) (no_dict y))) &&
             (negb e || Z.eqb (no_hash x) (no_hash y)))
          (combine (seq 0 (length dump)) (combine row dump)).

Definition nat_val_list_eqb (a b : option (nat * list val)) : bool :=
  match a, b with
  | Some (c, f), Some (c', f') => Nat.eqb c c' && vl_eqb f f'
  | None, None => true
  | _, _ => false
  end.

Record nst := {
  ns_h : list nobj;              (* the model's heap *)
  ns_env : list (nres rv);       (* the model's results *)
  ns_senv : list (nres sv);      (* the rule's values *)
  ns_prev : list nsobs           (* the previous dump *)
}.

(** failing sub-checks of one step: 1-4 concern the heap model, 10-13 the rule *)
Definition nstep_check (cl : list (list val)) (s : nst) (o : nop) (b : nobs) : nst * list nat :=
  let hr := nstep_op cl (ns_h s) (ns_env s) o in
  let h' := fst hr in
  let r := snd hr in
  let sv := spec_nop cl (ns_senv s) o in
  let isobj := (0 <=? nb_res b)%Z in
  let j := Z.to_nat (nb_res b) in
  let dump := if nb_ext b then ns_prev s ++ nb_dump b else nb_dump b in
  (* --- against the heap model --- *)
  let c1 := match r with
            | NErr e => Z.eqb (nb_res b) (-1 - ncode e)
            | NOk (RObj i) => isobj && Nat.eqb i j
            | NOk (RVal v) => Z.eqb (nb_res b) (-100) && val_eqb v (nb_val b)
            end in
  let c2 := all2 (fun (m : nobj) (ob : nsobs) => shows ob (fst m) (snd m)) h' dump in
  let c3 := match r with
            | NOk (RObj i) => blist_eqb (map (nobj_eq h' i) (seq 0 (length h'))) (nb_eq b)
            | _ => match nb_eq b with [] => true | _ => false end
            end in
  (* instances whose model hash keys agree hash equal *)
  let c4 := forallb (fun p =>
                       forallb (fun q =>
                                  negb (nat_val_list_eqb (nobj_hash h' (fst p)) (nobj_hash h' (fst q))) ||
                                  Z.eqb (no_hash (snd p)) (no_hash (snd q)))
                               (combine (seq 0 (length dump)) dump))
                    (combine (seq 0 (length dump)) dump) in
  (* --- against the rule (no heap, no identity) --- *)
  let c10 := match sv with
             | NErr e => Z.eqb (nb_res b) (-1 - ncode e)
             | NOk (SObj _ _) => isobj && (j <? length dump)
             | NOk (SVal _) => Z.eqb (nb_res b) (-100)
             end in
  let c11 := match sv with
             | NOk (SObj c f) => negb isobj || shows (nth j dump dummy_obs) c f
             | NOk (SVal v) => negb (Z.eqb (nb_res b) (-100)) || val_eqb v (nb_val b)
             | NErr _ => true
             end in
  (* no live instance is altered (values read both ways, hash), at most one appears and
     none when the call is rejected; the field definitions of the classes stay what the
     class statements said *)
  let c12 := all2 nsobs_eqb (firstn (length (ns_prev s)) dump) (ns_prev s) &&
             (length dump <=? S (length (ns_prev s))) &&
             (isobj || Nat.eqb (length dump) (length (ns_prev s))) &&
             all2 vl_eqb (nb_dfl b) cl && nb_flags b in
  let c13 := negb isobj || eq_rule dump j (nb_eq b) in
  let fails :=
      (if c1 then [] else [1]) ++ (if c2 then [] else [2]) ++ (if c3 then [] else [3]) ++
      (if c4 then [] else [4]) ++
      (if c10 then [] else [10]) ++ (if c11 then [] else [11]) ++ (if c12 then [] else [12]) ++
      (if c13 then [] else [13]) in
  ({| ns_h := h'; ns_env := ns_env s ++ [r]; ns_senv := ns_senv s ++ [sv]; ns_prev := dump |},
   fails).

(** after the last operation: [==] on ALL pairs is the documented relation and equal
    instances hash equal (16); the model gives the same matrix (3) *)
Definition nfinal_check (s : nst) (m : list (list bool)) : list nat :=
  let h := ns_h s in
  let n := length (ns_prev s) in
  let c3 := all2 blist_eqb (map (fun i => map (nobj_eq h i) (seq 0 (length h))) (seq 0 (length h))) m in
  let c16 := Nat.eqb (length m) n &&
             forallb (fun p => eq_rule (ns_prev s) (fst p) (snd p)) (combine (seq 0 n) m) in
  (if c3 then [] else [3]) ++ (if c16 then [] else [16]).

Fixpoint nwalk (cl : list (list val)) (s : nst) (ops : list nop) (bs : list nobs)
         (fin : list (list bool)) (t : nat) : list (nat * nat) :=
  match ops, bs with
  | o :: ops', b :: bs' =>
    let '(s', fails) := nstep_check cl s o b in
    map (fun f => (t, f)) fails ++ nwalk cl s' ops' bs' fin (S t)
  | [], [] => map (fun f => (t, f)) (nfinal_check s fin)
  | _, _ => [(t, 9)]    (* observation and program of different lengths *)
  end.

(** all failing (step, sub-check) pairs; (0, 18): the shared default instances do not show
    the default values of the class statements *)
Definition ndiag (c : ncase) : list (nat * nat) :=
  let cl := nc_cl c in
  let s0 := nstate0 cl in
  (if all2 (fun (m : nobj) (ob : nsobs) => shows ob (fst m) (snd m)) (fst s0) (nc_init c)
   then [] else [(0, 18)]) ++
  nwalk cl {| ns_h := fst s0; ns_env := snd s0; ns_senv := senv0 cl; ns_prev := nc_init c |}
        (nc_ops c) (nc_obs c) (nc_fin_eq c) 0.

(** 0 = agrees with model and rule; 1 = differs from the model only; 2 = the observed
    behaviour contradicts the rule (property fails); 3 = both *)
Definition ncheck (c : ncase) : nat :=
  let d := ndiag c in
  (if existsb (fun p => snd p <? 10) d then 1 else 0) +
  (if existsb (fun p => 10 <=? snd p) d then 2 else 0).

Fixpoint nindex_from {A} (n : nat) (l : list A) : list (nat * A) :=
  match l with [] => [] | x :: r => (n, x) :: nindex_from (S n) r end.

Definition nbad (cases : list ncase) : list (nat * nat) :=
  filter (fun p => negb (Nat.eqb (snd p) 0)) (nindex_from 0 (map ncheck cases)).
