(** C11, round 9: the IMAGE's close() as an operation of the history, at any position relative to
    the operations of the iterators over it (before the first next(), between two next() calls,
    after iterator.close(), twice), and the observation point "after an explicit close() of every
    object the history created, before anything is dropped or collected".

    Code modelled (src/term_image/image/common.py, AFTER
    pending_fixes/C11_iterator_close_after_image_close.diff):
      BaseImage.close() :608-629        deletes [_source] (and removes the URL temp copy); idempotent
      BaseImage._close_image :1313      [if img is not self._source: img.close()] -- AttributeError
                                        once the image has been finalized
      BaseImage._renderer :1650         refuses a finalized image before _get_image() opens anything
      ImageIterator.__init__ :2020      _renderer -> _get_image(): the caller's image for a PIL source,
                                        a fresh Image.open() otherwise; kept in [_img] by _animate
      ImageIterator.__next__ :2063      StopIteration / any exception of the generator -> self.close()
      ImageIterator.close() :2106       generator.close(); del _animator; release [_img]; del _img;
                                        AttributeError (attributes already gone) swallowed.
    The three designs of "release [_img]":
      DFixed       close it unless the source is a PIL image              (the fix)
      DSourceTest  [self._image._close_image(img)]: the finalized image's [_source] test raises, the
                   handler swallows it: nothing is released, [_img] stays  (the code before the fix)
      DGetattr     [img is not getattr(image, "_source", None)]: a finalized image no longer knows that
                   [img] is the caller's                                    (a tempting repair)        *)
From Coq Require Import List Bool Arith.
Import ListNotations.

Inductive skind := KFile | KUrl | KPil.
Inductive design := DFixed | DSourceTest | DGetattr.

Definition is_pil (k : skind) : bool := match k with KPil => true | _ => false end.
Definition is_url (k : skind) : bool := match k with KUrl => true | _ => false end.

Inductive cop :=
| ONew (total : nat)           (* ImageIterator(image, ...): [total] frames before StopIteration *)
| ONext (i : nat) (fails : bool)
    (* next() of the i-th iterator; [fails] is consulted only when the image has been finalized:
       whether the render of that frame raised (it does whenever it reaches _close_image; a frame
       served from the iterator's cache, or one needing no conversion, is still yielded) *)
| OIterClose (i : nat)
| OImgClose.

Record ist := mkist {
  attached : bool;   (* [_animator] is set: the iterator has not been closed / exhausted *)
  held : bool;       (* it owns an image FILE (opened by _get_image for it) that has not been closed *)
  left : nat         (* frames left before StopIteration *)
}.

Record cst := mkcst {
  fin : bool;            (* BaseImage.close() has run *)
  caller_closed : bool;  (* the caller's PIL image has been closed by the library *)
  its : list ist
}.

Definition init : cst := mkcst false false [].

Fixpoint upd {A} (i : nat) (f : A -> A) (l : list A) {struct l} : list A :=
  match l, i with
  | [], _ => []
  | x :: t, 0 => f x :: t
  | x :: t, S j => x :: upd j f t
  end.

(** ImageIterator.close() on an iterator whose attributes are set; second component: the caller's
    PIL image was closed by this call *)
Definition release (d : design) (k : skind) (finalized : bool) (it : ist) : ist * bool :=
  match d with
  | DFixed => (mkist false false (left it), false)
  | DSourceTest =>
      if finalized then (mkist false (held it) (left it), false)   (* AttributeError swallowed *)
      else (mkist false false (left it), false)
  | DGetattr => (mkist false false (left it), finalized && is_pil k)
  end.

Definition close_iter (d : design) (k : skind) (finalized : bool) (it : ist) : ist * bool :=
  if attached it then release d k finalized it else (it, false).

(* outcomes: 0 frame, 1 StopIteration, 2 error, 3 refused (finalized image), 8 closed, 9 created *)
Definition dead : ist := mkist false false 0.

Definition set_it (s : cst) (i : nat) (r : ist * bool) : cst :=
  mkcst (fin s) (caller_closed s || snd r) (upd i (fun _ => fst r) (its s)).

Definition step (d : design) (k : skind) (s : cst) (o : cop) : cst * nat :=
  match o with
  | ONew total =>
      if fin s then (mkcst (fin s) (caller_closed s) (its s ++ [dead]), 3)
      else (mkcst (fin s) (caller_closed s) (its s ++ [mkist true (negb (is_pil k)) total]), 9)
  | ONext i fails =>
      let it := nth i (its s) dead in
      if negb (attached it) then (s, 1)
      else if fin s && fails then (set_it s i (close_iter d k (fin s) it), 2)
      else match left it with
           | 0 => (set_it s i (close_iter d k (fin s) it), 1)
           | S m => (set_it s i (mkist true (held it) m, false), 0)
           end
  | OIterClose i =>
      (set_it s i (close_iter d k (fin s) (nth i (its s) dead)), 8)
  | OImgClose => (mkcst true (caller_closed s) (its s), 8)
  end.

Definition run_from (d : design) (k : skind) (s : cst) (h : list cop) : cst :=
  fold_left (fun s o => fst (step d k s o)) h s.
Definition run (d : design) (k : skind) (h : list cop) : cst := run_from d k init h.

(** what the process shows *)
Definition files_open (s : cst) : nat := length (filter held (its s)).
Definition tmp_exists (k : skind) (s : cst) : bool := is_url k && negb (fin s).

Definition obs := (nat * nat * bool * bool)%type.  (* outcome, files open, temp copy exists, caller's image closed *)
Fixpoint trace_from (d : design) (k : skind) (s : cst) (h : list cop) : list obs :=
  match h with
  | [] => []
  | o :: t => let '(s', out) := step d k s o in
              (out, files_open s', tmp_exists k s', caller_closed s') :: trace_from d k s' t
  end.
Definition trace d k h := trace_from d k init h.

(** ---- the history-level side: which objects have been closed EXPLICITLY ---- *)
Definition mark_step (m : list bool) (o : cop) : list bool :=
  match o with
  | ONew _ => m ++ [false]
  | OIterClose i => upd i (fun _ => true) m
  | _ => m
  end.
Definition marks_from (m : list bool) (h : list cop) : list bool := fold_left mark_step h m.
Definition is_imgclose (o : cop) : bool := match o with OImgClose => true | _ => false end.
Definition img_closed (h : list cop) : bool := existsb is_imgclose h.

(** every iterator the history created has had close() called on it since, and so has the image *)
Definition all_closed (h : list cop) : bool :=
  img_closed h && forallb (fun b : bool => b) (marks_from [] h).
