(** * DrawEnv — the terminal size [draw()] validates against is the ACTIVE TERMINAL's window
    size (C06)

    [utils.get_terminal_size()] ([utils.py:561-584]): [os.get_terminal_size(_tty_fd)] — the
    window size (TIOCGWINSZ) of the active terminal — whenever there is an active terminal;
    only without one [shutil.get_terminal_size()], which lets the [COLUMNS] / [LINES]
    environment variables override whatever terminal [sys.__stdout__] is connected to.
    Both [draw()] implementations take the size their validation (and the resolution of
    relative padding) uses from there: [Renderable._init_render_] ([_renderable.py:1121]),
    [BaseImage.draw] / [_renderer] ([common.py:741,1690]).

    The environment is a record that HOLDS the variables, so that "the decision depends on
    the window size only" is a statement about something. *)
From Coq Require Import List ZArith Bool.
Import ListNotations.
From TI Require Import lib.Term model.Padding model.Draw model.DrawTie.
Open Scope Z_scope.

Record tenv := {
  e_window : option (Z * Z);   (* (columns, lines) of the active terminal's window; None: no active terminal *)
  e_columns : option Z;        (* COLUMNS in the process environment (None: unset or not an integer) *)
  e_lines : option Z;          (* LINES *)
  e_stdout : option (Z * Z)    (* window of the terminal [sys.__stdout__] is connected to, if it is one *)
}.

(** [shutil.get_terminal_size(fallback=(80, 24))] *)
Definition shutil_size (e : tenv) : Z * Z :=
  let c := match e_columns e with Some c => c | None => 0 end in
  let l := match e_lines e with Some l => l | None => 0 end in
  if (c <=? 0) || (l <=? 0) then
    let '(sc, sl) := match e_stdout e with Some s => s | None => (80, 24) end in
    (if c <=? 0 then (if sc =? 0 then 80 else sc) else c,
     if l <=? 0 then (if sl =? 0 then 24 else sl) else l)
  else (c, l).

(** [utils.get_terminal_size()]: [size = os.get_terminal_size(_tty_fd)] if there is an active
    terminal; [return size or shutil.get_terminal_size()] (an [os.terminal_size] is a
    non-empty tuple: always true) *)
Definition get_terminal_size (e : tenv) : Z * Z :=
  match e_window e with
  | Some wh => wh
  | None => shutil_size e
  end.

(** the design the property excludes: the standard-library detection first, the terminal
    itself only when that cannot tell ([0] in the result) *)
Definition shutil_size0 (e : tenv) : Z * Z :=
  let c := match e_columns e with Some c => c | None => 0 end in
  let l := match e_lines e with Some l => l | None => 0 end in
  if (c <=? 0) || (l <=? 0) then
    let '(sc, sl) := match e_stdout e with Some s => s | None => (0, 0) end in
    (if c <=? 0 then sc else c, if l <=? 0 then sl else l)
  else (c, l).
Definition get_terminal_size_env_first (e : tenv) : Z * Z :=
  let '(c, l) := shutil_size0 e in
  if (c =? 0) || (l =? 0) then
    match e_window e with Some wh => wh | None => shutil_size e end
  else (c, l).

(** a draw (either API; [c] carries everything but the terminal size) performed in
    environment [e]: the terminal size every decision of it uses — validation, resolution of
    relative padding, the screen the stream lands on — is [get_terminal_size e] *)
Definition in_env (size : tenv -> Z * Z) (e : tenv) (c : dcase) : dcase :=
  let '(tw, th) := size e in
  {| d_kind := d_kind c; d_tw := tw; d_th := th; d_cs := d_cs c; d_scroll := d_scroll c;
     d_anim := d_anim c; d_hide := d_hide c; d_dyn := d_dyn c; d_fill := d_fill c;
     d_w := d_w c; d_h := d_h c; d_clear := d_clear c; d_oldk := d_oldk c; d_wez := d_wez c;
     d_kitty := d_kitty c; d_frames := d_frames c; d_obs := d_obs c; d_raised := d_raised c;
     d_rows := d_rows c |}.

Definition env_case (e : tenv) (c : dcase) : dcase := in_env get_terminal_size e c.

(** what [draw()] writes in environment [e] ([None]: the documented size error, nothing written) *)
Definition draw_in_env (e : tenv) (c : dcase) : option (list tok) := model_stream (env_case e c).

(** new API, spelled out: the terminal size is not a free parameter of the draw *)
Definition new_draw_in_env (e : tenv) (check_size allow_scroll animation hide : bool)
           (fill : option glyph) (d : Z * Z * Z * Z) (w h : Z) (clear : list tok)
           (frames : list (list tok)) : option (list tok) :=
  let '(tw, th) := get_terminal_size e in
  draw_stream check_size allow_scroll animation hide tw th fill d w h clear frames.

Definition old_draw_in_env (e : tenv) (check_size scroll animation dynamic tty : bool)
           (rawW rawH : Z) (ha va : nat) (w h : Z) (pre clear : list tok)
           (frames : list (list tok)) : option (list tok) :=
  let '(tw, th) := get_terminal_size e in
  old_draw_stream check_size scroll animation dynamic tty tw th rawW rawH ha va w h pre clear frames.

(** the correspondence's check of a draw observed in environment [e] (model/DrawTie.v's
    [check] with the terminal size taken from the environment by the model) *)
Definition echeck (p : tenv * dcase) : nat := check (env_case (fst p) (snd p)).

Definition ebad (cases : list (tenv * dcase)) : list (nat * nat) :=
  filter (fun p => negb (Nat.eqb (snd p) 0)) (index_from 0 (map echeck cases)).
