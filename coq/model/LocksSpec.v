(** * LocksSpec — the property C14 as a judge of (thread, event) traces

    The specification side of C14: an executable judgement of a trace ALONE (no lock, no
    global, no program counter).  It is applied to the traces observed on the real code
    under the deterministic scheduler ([model/LocksTie.v]) and, in
    [proofs/LocksProofs.v], proved to accept every trace the model can produce, for any
    number of threads / processes and any schedule.

    The judge reads only [EEnter] / [EExit] (entry to and return from the body of a
    synchronized function) and [EWrite] / [EReply] (a request written to the terminal,
    a reply read from it); the other events are bookkeeping of the mechanism and are
    ignored.  It demands:

    - bodies never overlap: while a thread is inside a body (nesting depth >= 1, the
      lock being re-entrant) no OTHER thread enters one; an exit is by the occupant;
    - every caller gets exactly its own reply: a reply read by [t] answers the request
      [t] wrote last, and carries [t]'s name (it was not meant for anybody else); no
      reply is read that was not asked for; a thread that has written a request does
      nothing else before it has read the reply (none is lost). *)
From Coq Require Import List Arith Bool.
Import ListNotations.
From TI Require Import lib.Sched model.Locks.

Record jstate := {
  j_occ : option (nat * nat);      (* the thread inside a body, its nesting depth *)
  j_pend : nat -> option nat       (* per thread: request written, reply not yet read *)
}.

Definition j0 : jstate := {| j_occ := None; j_pend := fun _ => None |}.

Definition jstep (j : jstate) (te : nat * event) : option jstate :=
  let t := fst te in
  match j_pend j t, snd te with
  | Some n, EReply u m =>
    if Nat.eqb u t && Nat.eqb m n
    then Some {| j_occ := j_occ j; j_pend := upd (j_pend j) t None |}
    else None
  | Some _, _ => None
  | None, EReply _ _ => None
  | None, EWrite n => Some {| j_occ := j_occ j; j_pend := upd (j_pend j) t (Some n) |}
  | None, EEnter =>
    match j_occ j with
    | None => Some {| j_occ := Some (t, 1); j_pend := j_pend j |}
    | Some (u, d) =>
      if Nat.eqb u t then Some {| j_occ := Some (u, S d); j_pend := j_pend j |} else None
    end
  | None, EExit =>
    match j_occ j with
    | Some (u, S d) =>
      if Nat.eqb u t
      then Some {| j_occ := match d with 0 => None | _ => Some (u, d) end;
                   j_pend := j_pend j |}
      else None
    | _ => None
    end
  | None, _ => Some j
  end.

(** a log is kept newest first *)
Fixpoint judge_from (j : jstate) (lg : list (nat * event)) : option jstate :=
  match lg with
  | [] => Some j
  | te :: older =>
    match judge_from j older with
    | Some j' => jstep j' te
    | None => None
    end
  end.

Definition judge_log (lg : list (nat * event)) : option jstate := judge_from j0 lg.

(** a trace in chronological order satisfies the property *)
Definition accepts (tr : list (nat * event)) : bool :=
  match judge_log (rev tr) with Some _ => true | None => false end.
