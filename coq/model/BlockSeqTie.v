(** * BlockSeqTie — executable comparison for the C02 sequence correspondence: a sequence of
    requests observed on the implementation (several image instances of [BlockImage] and its
    subclasses, multi-frame sources whose frames differ in mode, seeks, the image iterator,
    renders of other styles in between, the alpha setting given explicitly or through a format
    specifier) against the sequence model ([model/BlockSeq.v]), every block render handed out
    being judged
    - like a single render ([RenderTie.check]: token model on the data the renderer was given,
      rectangle contract, pixel oracle on the implementation's own tokens),
    - at render resolution, against the SOURCE pixels of the frame the HISTORY selects
      ([BlockSeq.bs_run] on the table of source frames: token equality with [render_of];
      [RenderDataTie.rd_check]: the specification [src_expect] of each source pixel),
    - against every other request of the sequence with the same request key (same image
      content, frame, size, settings): equal requests must SHOW the same pixels. *)
From Coq Require Import List ZArith Bool Arith.
Import ListNotations.
From TI Require Import lib.Term lib.RectCheck model.Block model.RenderData model.RenderDataTie
     model.RenderTie model.BlockSeq.
Open Scope Z_scope.

(** the world as far as the harness knows it: the source frames (decoded independently of the
    instance under test) of the (instance, frame, size) triples that are at render resolution *)
Definition wkey := (nat * nat * csize)%type.
Definition wtable := list (wkey * frame).

Definition wkey_eqb (a b : wkey) : bool :=
  let '(i, n, (w, h)) := a in let '(i', n', (w', h')) := b in
  Nat.eqb i i' && Nat.eqb n n' && Nat.eqb w w' && Nat.eqb h h'.

Fixpoint lookup (tb : wtable) (k : wkey) : option frame :=
  match tb with
  | [] => None
  | (k', f) :: rest => if wkey_eqb k' k then Some f else lookup rest k
  end.

Definition no_frame : frame := {| f_has_alpha := false; f_rows := [] |}.
Definition world (tb : wtable) : nat -> nat -> csize -> frame :=
  fun i n sz => match lookup tb (i, n, sz) with Some f => f | None => no_frame end.

(** an observed block render *)
Record qobs := {
  o_key : nat;                  (* request key (equal keys: equal requests) *)
  o_w : Z; o_h : Z;             (* advertised size in cells *)
  o_amode : bool;               (* the renderer's image was in mode RGBA *)
  o_rows : list (list px);      (* the (rgb, a) data the renderer was given, per line *)
  o_toks : list tok             (* the lexed output *)
}.

(** one request with what was observed for it ([None]: nothing handed out by a block image) *)
Definition elem := (bop * option qobs)%type.
Record qcase := { q_tbl : wtable; q_elems : list elem }.

Definition settings_of (o : bop) : option settings :=
  match o with ORender _ s | OIterFrame _ _ s => Some s | _ => None end.

Definition flat_src (rows : list (list (spx * spx))) : list spx :=
  concat (map (fun r => map fst r ++ map snd r) rows).
Definition flat_obs (rows : list (list px)) : list (rgb * Z) :=
  concat (map (fun r => map (fun p => (p1 p, a1 p)) r ++ map (fun p => (p2 p, a2 p)) r) rows).

(** what an observed render shows, drawn at the origin *)
Definition shows (ob : qobs) : list (list (Z * Z)) :=
  area_codes (log (exec 0 (start 0 0) (o_toks ob))) 0 0 (o_h ob) (o_w ob).

Definition st0 : bs_state := fun _ => {| pos := 0%nat; isize := (0, 0)%nat |}.

(** bits: +1 differs from the model (tokens / render data / structure); +2 rectangle contract;
    +4 pixel oracle on the observed data; +8 the SOURCE pixels of the selected frame are not
    shown as the specification demands; +16 two equal requests show different pixels *)
Definition elem_bits (tb : wtable) (all : list elem) (e : elem) (m : option rendered) : nat :=
  match snd e, settings_of (fst e), m with
  | Some ob, Some s, Some r =>
    let t := {| t_w := o_w ob; t_h := o_h ob;
                t_case := RBlock (o_amode ob) (st_kitty s) (st_termbg s) (st_split s) (o_rows ob);
                t_obs := o_toks ob |} in
    let kb :=
        match lookup tb (r_inst r, r_frame r, r_size r) with
        | Some f =>
          let k := rd_check {| rd_has_alpha := f_has_alpha f; rd_set := st_alpha s; rd_termbg := st_termbg s;
                               rd_src := flat_src (f_rows f); rd_obs := flat_obs (o_rows ob);
                               rd_obs_amode := o_amode ob |} in
          Nat.lor (if toks_eqb (r_toks r) (o_toks ob)
                      && (Z.of_nat (fst (r_size r)) =? o_w ob)%Z && (Z.of_nat (snd (r_size r)) =? o_h ob)%Z
                   then 0%nat else 1%nat)
                  (Nat.lor (if Nat.odd k then 1%nat else 0%nat) (if Nat.leb 2 k then 8%nat else 0%nat))
        | None => 0%nat
        end in
    let dup :=
        if forallb (fun e' => match snd e' with
                              | Some ob' => if Nat.eqb (o_key ob') (o_key ob)
                                            then zzl_eqb (shows ob') (shows ob) else true
                              | None => true
                              end) all
        then 0%nat else 16%nat in
    Nat.lor (check t) (Nat.lor kb dup)
  | None, None, None => 0%nat
  | None, Some _, Some _ => 0%nat       (* a request whose output the harness does not judge *)
  | _, _, _ => 1%nat
  end.

Fixpoint first_where (f : nat -> bool) (codes : list nat) (i : nat) : option nat :=
  match codes with
  | [] => None
  | c :: r => if f c then Some i else first_where f r (S i)
  end.

(** each request is compared with the EARLIER equal requests of the sequence *)
Fixpoint codes_of (tb : wtable) (earlier : list elem) (l : list (elem * option rendered)) : list nat :=
  match l with
  | [] => []
  | (e, m) :: rest => elem_bits tb earlier e m :: codes_of tb (e :: earlier) rest
  end.

(** bits of the whole sequence + 32 * (index of the offending request: the first one that
    contradicts the specification side (bits 2, 4, 8), else the first one that shows other pixels
    than an earlier equal request, else the first one that differs from the model) *)
Definition qcheck (c : qcase) : nat :=
  let ops := map fst (q_elems c) in
  let outs := bs_run comp_exact (world (q_tbl c)) st0 ops in
  let codes := codes_of (q_tbl c) [] (combine (q_elems c) outs) in
  let spec := first_where (fun k => negb (Nat.eqb (Nat.land k 14) 0)) codes 0 in
  let any := first_where (fun k => negb (Nat.eqb k 0)) codes 0 in
  let at_ := match spec, any with Some i, _ => i | None, Some i => i | None, None => 0%nat end in
  (fold_right Nat.lor 0%nat codes + 32 * at_)%nat.

Definition qbad (cases : list qcase) : list (nat * nat) :=
  filter (fun p => negb (Nat.eqb (snd p) 0)) (index_from 0 (map qcheck cases)).
