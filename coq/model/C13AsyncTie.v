(** Executable comparison for the asynchronous-fault runs of the C13 correspondence
    (harness/impl/impl_c13.py, class SigPoints).  Independent of the translated skeletons, so
    that it can be evaluated on a tree whose source the translator refuses.  Definitions only. *)
From Coq Require Import List Bool Arith ZArith.
Import ListNotations.

(** * Asynchronous faults (round 4)

    One run with an exception delivered at a signal point of the package code (any bytecode
    position at which CPython runs signal handlers), clean-up blocks included.  The
    specification side is the property itself, on the three attribute vectors read by the
    driver ([iflag; oflag; cflag; lflag; ispeed; ospeed] ++ c_cc): before the call, when the
    call has returned / raised with the exception still referenced, and after the exception
    has been released and the garbage collected.  No skeleton is involved. *)
Record acase := mkacase { a_before : list Z; a_held : list Z; a_after : list Z }.

Fixpoint zl_eqb (a b : list Z) : bool :=
  match a, b with
  | [], [] => true
  | x :: a', y :: b' => Z.eqb x y && zl_eqb a' b'
  | _, _ => false
  end.

(** 0: byte-identical at both observation times; 2: the property fails (bit 2), 6: fails
    already when the call exits (bits 2 + 4) *)
Definition acheck (c : acase) : nat :=
  (if zl_eqb (a_before c) (a_after c) && zl_eqb (a_before c) (a_held c) then 0 else 2)
  + (if zl_eqb (a_before c) (a_held c) then 0 else 4).

Definition abad (cases : list acase) : list (nat * nat) :=
  filter (fun ic => negb (Nat.eqb (snd ic) 0)) (combine (seq 0 (length cases)) (map acheck cases)).
