(** C04, round 8: HOW an image comes into being and how its size is given.

    An image is created by the class constructor, by [from_file()] or by [from_url()];
    the size arguments [width] / [height] are keyword arguments that may be left out or
    be passed explicitly (also explicitly as [None]).  The initial size state of the
    history model ([Sizing.state]) is what this file adds: [create] gives the size
    setting of the new image (or the exception and no image).  Definitions only. *)
From Coq Require Import ZArith List Bool.
Import ListNotations.
From TI Require Import lib.FArith model.Sizing.
Open Scope Z_scope.

(** the construction route *)
Inductive route := RCtor | RFromFile | RFromUrl.

(** a keyword argument: not passed ([None]) or passed with a value ([Some d]; the value
    may be Python's [None]: [Some DNone]) *)
Definition kwarg := option dim.

(** binding of the call's keyword arguments to the parameters [width=None, height=None]
    (common.py:237-238): a parameter that is not passed has its default *)
Definition kw_value (k : kwarg) : dim := match k with Some d => d | None => DNone end.

(** which rule applies the size arguments: the code's ([InCtor]: every route hands them to
    the constructor) or the design "build the image first, then apply the arguments that
    were given with [set_size of the given keywords]" ([AfterCtor]) *)
Inductive apply_rule := InCtor | AfterCtor.

Section WithFloat.
Context {FA : FloatArith}.

(** common.py:233-253 [BaseImage.__init__]: [(Some _size, ok)] or [(None, exception)] --
    an exception of [set_size] leaves no image behind.
      if width is None is height: self.size = Size.FIT       (dynamic)
      else: self.set_size(width, height)                     (fixed, default frame) *)
Definition ctor (fam : family) (ow oh : Z) (e : env FA) (w h : dim) : option sizeval * Z :=
  if is_none w && is_none h then (Some (Dyn FIT), ok)
  else let '(sz, c) := set_size fam ow oh e (Dyn FIT) w h default_frame in
       if c =? ok then (Some sz, ok) else (None, c).

(** the design [AfterCtor]: [new = cls(img)] then [if kwargs: new.set_size of the given keywords] *)
Definition ctor_then_set_size (fam : family) (ow oh : Z) (e : env FA) (kw kh : kwarg)
  : option sizeval * Z :=
  match kw, kh with
  | None, None => (Some (Dyn FIT), ok)
  | _, _ => let '(sz, c) := set_size fam ow oh e (Dyn FIT) (kw_value kw) (kw_value kh)
                                     default_frame in
            if c =? ok then (Some sz, ok) else (None, c)
  end.

(** creation of an image, per route *)
Definition create_with (rule : apply_rule) (r : route) (fam : family) (ow oh : Z) (e : env FA)
           (kw kh : kwarg) : option sizeval * Z :=
  match rule with
  | AfterCtor => ctor_then_set_size fam ow oh e kw kh
  | InCtor =>
    match r with
    | RCtor => ctor fam ow oh e (kw_value kw) (kw_value kh)      (* cls(image, width=.., height=..) *)
    | RFromFile => ctor fam ow oh e (kw_value kw) (kw_value kh)  (* common.py:836 cls(img, **kwargs) *)
    | RFromUrl => ctor fam ow oh e (kw_value kw) (kw_value kh)   (* common.py:888 cls(Image.open(..), **kwargs) *)
    end
  end.

Definition create := create_with InCtor.

(** the state a history starts from once the image exists *)
Definition created_state (e : env FA) (sz : sizeval) : state FA :=
  {| st_env := e; st_size := sz |}.

End WithFloat.
