(** C19, round 8 — the denotation of the transparency field, PIXEL-EXACT.  Definitions only.

    Two refinements of the round-7 layer (FmtDen.v):

    1. THE EXACT 8-BIT THRESHOLD (text-based styles).  formatting.rst: "any pixel with an
       alpha value above the given threshold is taken as opaque"; the threshold field is a
       ratio 0.d1 d2 ... dk = num / 10^k, a pixel's alpha is one of 256 levels.  The code
       (common.py:1516-1520, _get_render_data, round_alpha branch)

           alpha = round(alpha * 255);  a = [0 if val < alpha else 255 for val in a]

       quantises the ratio to the NEAREST level T (Python's round: half-to-even) and takes the
       pixels at or above T as opaque.  [thr8] is that integer, computed exactly from the
       decimal digits; the specification side ([level_ok], [pixel_ok_x]) only says "T is a
       nearest integer to num * 255 / den" (at an exact tie k + 1/2 either neighbour), which
       leaves exactly ONE alpha level per tie threshold unjudged (the lower neighbour k) and
       none otherwise.  [trunc8] is the excluded design (truncation).

    2. WHAT A GRAPHICS-BASED STYLE TRANSMITS.  formatting.rst: for graphics-based styles "the
       alpha value of each pixel is used as-is" under a threshold; "alpha channel is ignored"
       when disabled; "transparent pixels overlaid on a color" for a bgcolor.  The picture
       transmitted by ITerm2Image is either re-encoded from the processed pixels or — the
       "read directly from file" shortcut (iterm2.py:672-699) — the bytes of the source file,
       VERBATIM.  [impl_verbatim] mirrors that gate with the alpha condition as a parameter;
       [gpixel_ok] is what a transmitted pixel must be. *)
From Coq Require Import List NArith ZArith Bool.
Import ListNotations.
From TI Require Import model.FmtSpec model.FmtDen.
Local Open Scope Z_scope.

(** * 1. the exact threshold *)

(** round-half-even of 255 * num / den (den > 0): Python's round() on the exact product *)
Definition thr8 (num den : Z) : Z :=
  let q := (255 * num) / den in
  let r := (255 * num) mod den in
  if 2 * r <? den then q
  else if den <? 2 * r then q + 1
  else if Z.even q then q else q + 1.

(** the excluded design: int(alpha * 255) *)
Definition trunc8 (num den : Z) : Z := (255 * num) / den.

(** specification: T is a nearest integer to 255 * num / den *)
Definition level_ok (T num den : Z) : bool := Z.abs (2 * T * den - 510 * num) <=? den.

(** a displayed pixel under threshold num/den, exact:
      a + 1/2 < 255 t   strictly below every admissible level: the terminal shows through;
      a + 1/2 = 255 t   the lower neighbour at an exact tie: either;
      otherwise          at or above every admissible level: opaque, over [back]. *)
Definition pixel_ok_x (e : eff) (p : px) (o : shown) : bool :=
  match e with
  | EThr num den back =>
      let l := (2 * p_a p + 1) * den in
      if l <? 510 * num then match o with None => true | Some _ => false end
      else if l =? 510 * num then match o with Some x => over_ok back p x | None => true end
      else match o with Some x => over_ok back p x | None => false end
  | _ => pixel_ok e p o
  end.

(** the code: [level] computes the 8-bit threshold (thr8 in the code, trunc8 the variant) *)
Definition impl_pixel (level : Z -> Z -> Z) (e : eff) (p : px) (o : shown) : bool :=
  match e with
  | EThr num den back =>
      if p_a p <? level num den then match o with None => true | Some _ => false end
      else match o with Some x => over_ok back p x | None => false end
  | _ => pixel_ok e p o
  end.

(** * 2. graphics-based styles: the transmitted picture *)

(** img.mode as the shortcut sees it *)
Inductive amode :=
| MOpaque        (* "1", "L", "RGB", "HSV", "CMYK": no alpha *)
| MAlpha         (* RGBA, LA, ...: an alpha channel *)
| MPal.          (* "P", "PA": palette, possibly with transparency *)

Record gsrc := {
  g_mode : amode;
  g_animated : bool;     (* self._is_animated *)
  g_readable : bool;     (* a file source / a PIL image with a readable filename *)
  g_fits : bool;         (* original pixels <= render pixels *)
  g_rff : bool           (* read_from_file (library default: on) *)
}.

(** iterm2.py:681-686, the alpha conjunct.  [afloat] = isinstance(alpha, float) *)
Definition is_float (a : alpha_raw) : bool :=
  match a with RDefault | RFloat _ => true | _ => false end.
Definition is_not_none (a : alpha_raw) : bool :=
  match a with RNone => false | _ => true end.
Definition mode_gate (alpha_cond : alpha_raw -> bool) (a : alpha_raw) (m : amode) : bool :=
  match m with MOpaque => true | MAlpha => alpha_cond a | MPal => false end.
Definition code_gate := mode_gate is_float.
Definition notnone_gate := mode_gate is_not_none.       (* the excluded variant *)

(** iterm2.py:672-687; method 1 = L, 2 = W, 3 = A (A on a non-animated image / a frame of an
    iteration is rendered as W).  Only ITerm2Image has the shortcut. *)
Definition impl_verbatim (gate : alpha_raw -> amode -> bool) (sty : style) (a : alpha_raw)
    (s : gsrc) (method : nat) : bool :=
  match sty with
  | ITerm2 =>
      g_rff s && negb (g_animated s) && g_readable s
      && (Nat.eqb method 2 || Nat.eqb method 3) && g_fits s && gate a (g_mode s)
  | _ => false
  end.

(** a transmitted pixel: (r, g, b, a); a picture without alpha channel reads a = 255 *)
Definition tpx := (Z * Z * Z * Z)%type.

(** documented (formatting.rst, "Transparency"), graphics-based styles:
      threshold / default — "the alpha value of each pixel is used as-is";
      disabled            — "alpha channel is ignored": the colour, opaque;
      bgcolor             — overlaid on the colour: opaque, the blend (to one unit) *)
Definition near (x y : Z) : bool := Z.abs (x - y) <=? 1.
(** under a kept alpha channel what is seen of a colour is colour * alpha: one unit of THAT
    (Pillow resamples RGBA pictures in premultiplied space) *)
Definition near_a (x y a : Z) : bool := (x =? y) || (Z.abs (x - y) * a <=? 255 + a).
(** resampling then compositing: two roundings *)
Definition gblend_ok (u src a out : Z) : bool :=
  Z.abs (255 * out - (src * a + u * (255 - a))) <=? 510.
Definition gover_ok (u : Z) (p : px) (o : Z * Z * Z) : bool :=
  let '(r, g, b) := o in
  gblend_ok (chan u 2) (p_r p) (p_a p) r && gblend_ok (chan u 1) (p_g p) (p_a p) g
  && gblend_ok (chan u 0) (p_b p) (p_a p) b.
Definition gpixel_ok (e : eff) (p : px) (o : tpx) : bool :=
  let '(r, g, b, a) := o in
  match e with
  | EThr _ _ _ =>
      (a =? p_a p)
      && ((a =? 0) || (near_a r (p_r p) a && near_a g (p_g p) a && near_a b (p_b p) a))
  | EOff => (a =? 255) && near r (p_r p) && near g (p_g p) && near b (p_b p)
  | EUnder c => (a =? 255) && gover_ok c p (r, g, b)
  end.

(** the bytes of the file, undisturbed *)
Definition as_is (p : px) : tpx := (p_r p, p_g p, p_b p, p_a p).

(** the documented treatment leaves every pixel of an image of this mode as it is *)
Definition eff_identity (e : eff) (m : amode) : bool :=
  match e with
  | EThr _ _ _ => true
  | _ => match m with MOpaque => true | _ => false end
  end.

(** a pixel an image of that mode can hold *)
Definition px_of_mode (m : amode) (p : px) : bool :=
  match m with MOpaque => p_a p =? 255 | _ => true end.

(** what the transmitted pixel must be according to the code: the file's own pixel when the
    shortcut is taken, else the processed one *)
Definition impl_gpixel (gate : alpha_raw -> amode -> bool) (sty : style) (bg : termbg) (a : alpha_raw)
    (s : gsrc) (method : nat) (p : px) (o : tpx) : bool :=
  if impl_verbatim gate sty a s method then
    let '(r, g, b, al) := o in
    (r =? p_r p) && (g =? p_g p) && (b =? p_b p) && (al =? p_a p)
  else match impl_eff code_fallback bg a with
       | Some e => gpixel_ok e p o
       | None => false
       end.
