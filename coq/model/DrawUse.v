(** C10, "never used afterwards", for one-shot operations on a failing output stream.

    Executable model of [Renderable.draw] (_renderable.py:475-591, still and animated) and
    [Renderable._animate_] (:698-819), [render] (:593) and [__str__] (:393), as a producer of
    the sequence of ENTRIES INTO RENDERABLE-DEFINED CODE THAT IS HANDED THE RENDER DATA -
    [_render_], [_handle_interrupted_draw_], [_clear_frame_], [_finalize_render_data_] -
    each with the value of [RenderData.finalized] at that entry, when

      - the k-th [write()] / [flush()] call on the output stream raises KeyboardInterrupt
        or an Exception (k counts all stream calls of the operation, incl. those of the
        clean-up blocks),
      - the j-th [sleep()] call is interrupted (KeyboardInterrupt),
      - the frame source behaves in any way: each pull ([next(render_iter)] / the one-off
        [_render_]) yields a frame, ends (StopIteration) or fails, having entered
        [_render_] or not (a cached frame / a definite iterator's end do not).

    [early]: the variant "release the data of a one-off render before writing it"
    (finalize right after the still render), kept to show what the specification rejects.
    Definitions only; proofs/DrawUseProofs.v. *)
From Coq Require Import List Bool Arith.
Import ListNotations.

Inductive xk := XKI | XExc.                       (* KeyboardInterrupt | an Exception subclass *)
Inductive hook := HRender | HInterrupt | HClear | HFinalize.
Inductive pull := PFrame (entered : bool) | PStop (entered : bool) | PErr.

Record faults := { f_io : option (nat * xk); f_sleep : option nat }.

Record dst := mkd {
  ioc : nat;                     (* stream calls made so far *)
  slc : nat;                     (* sleep calls made so far *)
  fz : bool;                     (* RenderData.finalized *)
  evs : list (hook * bool)       (* entries, newest first, with the flag they saw *)
}.
Definition d0 : dst := mkd 0 0 false [].

Inductive res := RNorm (s : dst) | RRet (s : dst) | RExc (k : xk) (s : dst).
Definition state_of (r : res) : dst := match r with RNorm s | RRet s | RExc _ s => s end.
Definition bind (r : res) (f : dst -> res) : res := match r with RNorm s => f s | _ => r end.
Notation "r >>= f" := (bind r f) (at level 50, left associativity).

Definition enter (h : hook) (s : dst) : dst := mkd (ioc s) (slc s) (fz s) ((h, fz s) :: evs s).
(** [RenderData.finalize()] (_types.py:1369): once-flag *)
Definition finalize (s : dst) : dst :=
  if fz s then s else mkd (ioc s) (slc s) true ((HFinalize, fz s) :: evs s).

Section Op.
Variable F : faults.

Definition io (s : dst) : res :=
  let s' := mkd (S (ioc s)) (slc s) (fz s) (evs s) in
  match f_io F with
  | Some (k, e) => if Nat.eqb k (ioc s) then RExc e s' else RNorm s'
  | None => RNorm s'
  end.
Definition slp (s : dst) : res :=
  let s' := mkd (ioc s) (S (slc s)) (fz s) (evs s) in
  match f_sleep F with
  | Some j => if Nat.eqb j (slc s) then RExc XKI s' else RNorm s'
  | None => RNorm s'
  end.
Definition write_flush (s : dst) : res := io s >>= io.

(** [try: write(frame); flush()
     except KeyboardInterrupt: hook(render_data, ...); return | raise
     except Exception: hook(render_data, ...); raise] *)
Definition guarded_write (ki_returns : bool) (s : dst) : res :=
  match write_flush s with
  | RExc XKI s1 => let s2 := enter HInterrupt s1 in if ki_returns then RRet s2 else RExc XKI s2
  | RExc XExc s1 => RExc XExc (enter HInterrupt s1)
  | r => r
  end.

Inductive nres := NFrame (s : dst) | NStop (s : dst) | NErr (s : dst).
Definition next (p : pull) (s : dst) : nres :=
  match p with
  | PFrame e => NFrame (if e then enter HRender s else s)
  | PStop e => NStop (if e then enter HRender s else s)
  | PErr => NErr (enter HRender s)
  end.

(** the [for frame in render_iter] loop and the last sleep, :783-811 *)
Fixpoint frames_loop (l : list pull) (s : dst) : res :=
  match l with
  | [] => slp s
  | p :: t =>
    match next p s with
    | NStop s1 => slp s1
    | NErr s1 => RExc XExc s1
    | NFrame s1 =>
      slp s1 >>= (fun s2 => guarded_write true (enter HClear s2)) >>= write_flush >>= frames_loop t
    end
  end.

(** a [finally] block: it runs whatever the outcome; when it raises, that wins *)
Definition fin_block (r : res) (f : dst -> res) : res :=
  match f (state_of r) with
  | RNorm s' => match r with RNorm _ => RNorm s' | RRet _ => RRet s' | RExc k _ => RExc k s' end
  | r' => r'
  end.

(** [_animate_] :749-819; the render iterator does not own the data ([finalize=False]) *)
Definition animate (l : list pull) (s : dst) : res :=
  let '(r, ffw) :=
    match l with
    | [] => (RRet s, false)
    | p :: t =>
      match next p s with
      | NStop s1 => (RRet s1, false)
      | NErr s1 => (RExc XExc s1, false)
      | NFrame s1 =>
        match guarded_write true s1 with
        | RNorm s2 => match write_flush s2 with
                      | RNorm s3 => (frames_loop t s3, true)
                      | r => (r, false)
                      end
        | r => (r, false)
        end
      end
    end in
  let r1 := match r with RExc XKI s' => RNorm s' | _ => r end in          (* except KeyboardInterrupt: pass *)
  fin_block r1 (fun s' => if ffw then write_flush s' else RNorm s').     (* finally: close(); if ffw: write; flush *)

(** the non-animated branch of [draw], :569-583 *)
Definition still (early : bool) (l : list pull) (s : dst) : res :=
  let s1 := enter HRender s in
  let s1 := if early then finalize s1 else s1 in
  match l with
  | PFrame _ :: _ => guarded_write false s1
  | _ => RExc XExc s1
  end.

(** [draw] past [_init_render_] (stdout is not a tty: no cursor hiding, no termios).
    [nested]: how the clean-up block is built.  [false]: a straight line
    [write("\n"); flush(); finalize()] - a stream call of the clean-up that raises skips
    [finalize()], the data is then finalized by [RenderData.__del__];  [true]:
    [try: write("\n"); flush() finally: finalize()] - finalized before [draw] ends on that
    path too.  Both satisfy the property (the theorems are for both). *)
Definition draw_call (early nested anim : bool) (l : list pull) (s : dst) : res :=
  fin_block (if anim then animate l s else still early l s)
            (fun s' => if nested then fin_block (write_flush s') (fun s'' => RNorm (finalize s''))
                       else write_flush s' >>= (fun s'' => RNorm (finalize s''))).

(** [render] / [__str__]: [_init_render_(.., finalize=True)]: render, [finally: finalize] *)
Definition render_call (l : list pull) (s : dst) : res :=
  let s1 := enter HRender s in
  fin_block (match l with PFrame _ :: _ => RNorm s1 | _ => RExc XExc s1 end) (fun s' => RNorm (finalize s')).
End Op.

(** the whole life of the data: the operation, then the exception (if any) is dropped and
    the data garbage-collected ([RenderData.__del__] = [finalize]).
    Result: (outcome, state when the call ended, state in the end) *)
Definition run_draw (F : faults) (early nested anim : bool) (l : list pull) : res * dst :=
  let r := draw_call F early nested anim l d0 in (r, finalize (state_of r)).
Definition run_render (F : faults) (l : list pull) : res * dst :=
  let r := render_call l d0 in (r, finalize (state_of r)).

(** * The specification, on a sequence of entries alone *)

Definition hook_eqb (a b : hook) : bool :=
  match a, b with
  | HRender, HRender | HInterrupt, HInterrupt | HClear, HClear | HFinalize, HFinalize => true
  | _, _ => false
  end.
Definition count_fin (l : list (hook * bool)) : nat :=
  length (filter (fun e => hook_eqb (fst e) HFinalize) l).

(** no entry into the renderable's code ever saw finalized data; the finalizer was entered
    exactly once *)
Definition entries_ok (l : list (hook * bool)) : bool :=
  forallb (fun e => negb (snd e)) l && Nat.eqb (count_fin l) 1.
