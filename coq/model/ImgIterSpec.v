(** C11 — the specification side of image iteration: what the documentation of
    ImageIterator promises, as a function of the history alone.  No generator, no phases,
    no cache, no "sent" value:

      * each pass yields frame 0, 1, ... n_frames-1, every frame being exactly what direct
        formatting of that frame at the image's current size gives ([fmt_frame]);
      * [seek p] makes p the next frame number and does not count as a pass;
      * the image's seek position is the number of the last frame yielded (written just
        before the frame is produced) and 0 at the end of every pass;
      * after [repeat] passes (never, for a negative repeat) the iterator stops; a failed
        frame closes it; close / deletion leave the seek position alone;
      * loop_no: None before the first frame, then the number of passes left;
      * the PIL image the iterator works on is closed when the iterator ends (exhaustion,
        failure, close, deletion) and not before.

    Shares only the vocabulary (operations, outcomes, [res]) with model/ImgIter.v. *)
From Coq Require Import List ZArith Bool Arith.
Import ListNotations.
From TI Require Import model.ImgIter.

Set Implicit Arguments.

Section Spec.
  Variables Str Size : Type.
  Variable fmt_frame : nat -> Size -> res Str.
  Variable N : nat.

  Record sp := {
    started : bool;
    closed : bool;
    nxt : nat;          (* number of the frame the next [Next] produces *)
    left : Z;           (* passes left, the current one included (negative: unbounded) *)
    spos : Z;           (* image.tell() *)
    ssize : Size;
    sloop : option Z
  }.

  Definition sinit (repeat pos0 : Z) (z : Size) : sp :=
    {| started := false; closed := false; nxt := 0; left := repeat; spos := pos0; ssize := z;
       sloop := None |}.

  (** produce frame k *)
  Definition produce (s : sp) (k : nat) (lft : Z) : sp * outcome Str :=
    match fmt_frame k (ssize s) with
    | Ok f => ({| started := true; closed := false; nxt := S k; left := lft; spos := Z.of_nat k;
                  ssize := ssize s; sloop := Some lft |}, OYield k f)
    | _ => ({| started := true; closed := true; nxt := k; left := lft; spos := Z.of_nat k;
               ssize := ssize s; sloop := Some lft |}, ORaise)
    end.

  Definition sstep (s : sp) (o : op Size) : sp * outcome Str :=
    match o with
    | Next =>
        if closed s then (s, OStop)
        else if nxt s <? N then produce s (nxt s) (left s)
        else (* the pass is over *)
          let l := if (0 <? left s)%Z then (left s - 1)%Z else left s in
          if Z.eqb l 0 then
            ({| started := true; closed := true; nxt := 0; left := l; spos := 0; ssize := ssize s;
                sloop := Some l |}, OStop)
          else produce s 0 l
    | Seek p =>
        if negb ((0 <=? p)%Z && (p <? Z.of_nat N)%Z) then (s, OSeekBad)
        else if closed s then (s, OSeekClosed)
        else if started s then
          ({| started := true; closed := false; nxt := Z.to_nat p; left := left s; spos := spos s;
              ssize := ssize s; sloop := sloop s |}, OSeekOk)
        else (s, OSeekNotStarted)
    | Close | Drop =>
        ({| started := started s; closed := true; nxt := nxt s; left := left s; spos := spos s;
            ssize := ssize s; sloop := sloop s |}, OClosed)
    | SetImageSize z =>
        ({| started := started s; closed := closed s; nxt := nxt s; left := left s; spos := spos s;
            ssize := z; sloop := sloop s |}, OSized)
    end.

  (** the iterator holds an open PIL image exactly while it is not closed / exhausted *)
  Fixpoint strace (s : sp) (ops : list (op Size)) : list (outcome Str * Z * option Z * bool) :=
    match ops with
    | [] => []
    | o :: r => let (s1, x) := sstep s o in (x, spos s1, sloop s1, negb (closed s1)) :: strace s1 r
    end.

  Fixpoint srun (s : sp) (ops : list (op Size)) : sp :=
    match ops with
    | [] => s
    | o :: r => srun (fst (sstep s o)) r
    end.

  (* ---- vocabulary of the theorems (props/C11.v) ---- *)

  (** the contract of the frame renderer: the image has n_frames >= 1 frames; asking for
      frame number n_frames (and only that) raises EOFError *)
  Definition renderer_ok : Prop :=
    (1 <= N)%nat /\ (forall z, fmt_frame N z = Eof) /\ (forall k z, (k < N)%nat -> fmt_frame k z <> Eof).

  (** the sizes the image takes during a history *)
  Definition sizes_of (z0 : Size) (ops : list (op Size)) : list Size :=
    z0 :: flat_map (fun o => match o with SetImageSize z => [z] | _ => [] end) ops.

  (** Python's hash() tells these sizes apart *)
  Definition hash_separates (hash : Size -> Z) (l : list Size) : Prop :=
    forall a b, In a l -> In b l -> hash a = hash b -> a = b.

  Definition in_range (p : Z) : bool := (0 <=? p)%Z && (p <? Z.of_nat N)%Z.

  (** what every operation answers once the iterator has ended (exhausted, failed, closed,
      deleted), [p] and [l] being image.tell() and loop_no at that moment *)
  Definition ended_view (p : Z) (l : option Z) (o : op Size) : outcome Str * Z * option Z * bool :=
    (match o with
     | Next => OStop
     | Seek q => if in_range q then OSeekClosed else OSeekBad
     | Close | Drop => OClosed
     | SetImageSize _ => OSized
     end, p, l, false).

  (** one full pass over frames [F 0 .. F (N-1)] with the countdown showing [l] *)
  Definition pass_frames (F : nat -> Str) (l : Z) : list (outcome Str * Z * option Z * bool) :=
    map (fun k => (OYield k (F k), Z.of_nat k, Some l, true)) (seq 0 N).

  (** [c] passes, the countdown showing c, c-1, .., 1 *)
  Fixpoint passes (F : nat -> Str) (c : nat) : list (outcome Str * Z * option Z * bool) :=
    match c with
    | 0 => []
    | S c' => pass_frames F (Z.of_nat c) ++ passes F c'
    end.

  Definition stopped : outcome Str * Z * option Z * bool := (OStop, 0%Z, Some 0%Z, false).
End Spec.
