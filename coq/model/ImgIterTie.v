(** Executable comparison used by the C11 correspondence.

    [check_iter]: an observed iterator history against model/ImgIter.v (code 1 on a
    difference) and against the specification model/ImgIterSpec.v, whose [fmt_frame] is
    the table of frames obtained by DIRECT formatting on a second instance (code 2: the
    property fails).  Frames are compared by identity numbers assigned by the driver
    (equal strings = equal numbers); sizes by their index in the case's size list; [hash]
    is the real [hash(image.rendered_size)] observed for each size.

    [check_fault] / [check_url]: resource observations against the expected values.  What
    the skeleton theorems (props/C11.v, PART 2) predict is that no image the library opened
    is left without a call of Image.close() when the operation returns or raises, at every
    fault position (code 1 otherwise).  Descriptor counts, temp-file counts, survival of the
    caller's PIL image, size / seek position kept are the property's own observables
    (code 2); they depend on Pillow, the OS and CPython and are NOT consequences of any
    theorem: the comparison is evaluated here only so that every verdict of the check is
    computed in one place. *)
From Coq Require Import List ZArith Bool Arith.
Import ListNotations.
From TI Require Import model.ImgIter model.ImgIterSpec model.ImgIterEnv.

Local Open Scope nat_scope.

(* -------------------------------------------------------------- iterator *)

Record itcase := {
  it_n : nat;                         (* n_frames *)
  it_repeat : Z;
  it_cached : bool + Z;               (* the constructor's argument *)
  it_cache_on : bool;                 (* observed it._cached *)
  it_pos0 : Z;
  it_nenv : nat;                      (* number of environments of the case (>= 1) *)
  it_table : list (list Z);           (* per configuration, per frame: frame id, -1 = rendering fails *)
  it_hashes : list Z;                 (* per configuration: hash(rendered_size) *)
  it_ops : list (eop nat nat);
  it_file : bool;                     (* the source is a file path: the library opens the file itself *)
  it_obs : list (list Z);             (* per op: outcome code, frame id, tell, loop_no (-99 = None), number of
                                         images opened by the library for this iterator and not yet handed to
                                         Image.close() *)
  it_direct : list Z;                 (* per op: after a yield, the id of the frame formatted directly right
                                         then under the environment in force; -1 otherwise *)
  it_keep : bool                      (* size setting unchanged, caller's image alive, fds balanced,
                                         exhausted PIL source back at frame 0 *)
}.

(** configuration number of (setting i, environment j) *)
Definition cfg (nenv : nat) (i j : nat) : nat := i * nenv + j.

Definition tab_fmt (t : list (list Z)) (k z : nat) : res Z :=
  match nth_error (nth z t []) k with
  | Some id => if (id <? 0)%Z then Err else Ok id
  | None => Eof
  end.
Definition tab_hash (h : list Z) (z : nat) : Z := nth z h 0%Z.

Definition ocode (o : outcome Z) : Z * Z :=
  match o with
  | OYield _ f => (0, f)
  | OStop => (1, -1)
  | ORaise => (2, -1)
  | OHang => (3, -1)
  | OSeekOk => (4, -1)
  | OSeekBad => (5, -1)
  | OSeekNotStarted => (6, -1)
  | OSeekClosed => (7, -1)
  | OClosed => (8, -1)
  | OSized => (9, -1)
  end%Z.
(** [file]: only a file-path source makes the library open (and therefore owe the closing
    of) an image; a PIL source is handed over as it is and never closed *)
Definition row (file : bool) (x : outcome Z * Z * option Z * bool) : list Z :=
  let '(o, p, l, io) := x in
  let (c, f) := ocode o in
  [c; f; p; match l with Some v => v | None => (-99)%Z end; if file && io then 1 else 0]%Z.

Fixpoint zl_eqb (a b : list Z) : bool :=
  match a, b with
  | [], [] => true
  | x :: a', y :: b' => Z.eqb x y && zl_eqb a' b'
  | _, _ => false
  end.
Fixpoint zll_eqb (a b : list (list Z)) : bool :=
  match a, b with
  | [], [] => true
  | x :: a', y :: b' => zl_eqb x y && zll_eqb a' b'
  | _, _ => false
  end.

Definition iter_ok_model (c : itcase) : bool :=
  let ce := cache_enabled (it_repeat c) (it_cached c) (it_n c) in
  Bool.eqb ce (it_cache_on c)
  && zll_eqb (map (row (it_file c)) (trace (tab_fmt (it_table c)) (tab_hash (it_hashes c)) (it_n c) ce
                             (init Z (it_repeat c) (it_pos0 c) (cfg (it_nenv c) 0 0))
                             (lower (cfg (it_nenv c)) 0 0 (it_ops c))))
             (it_obs c).

(** every yielded frame is the one direct formatting gave right after the yield *)
Fixpoint direct_ok (obs : list (list Z)) (d : list Z) : bool :=
  match obs, d with
  | [], [] => true
  | r :: obs', x :: d' =>
      (negb (Z.eqb (nth 0 r (-1)%Z) 0) || Z.eqb (nth 1 r (-1)%Z) x) && direct_ok obs' d'
  | _, _ => false
  end.

Definition iter_ok_spec (c : itcase) : bool :=
  it_keep c
  && direct_ok (it_obs c) (it_direct c)
  && zll_eqb (map (row (it_file c)) (strace (fmt_env (cfg (it_nenv c)) (tab_fmt (it_table c))) (it_n c)
                              (sinit (it_repeat c) (it_pos0 c) (0, 0)) (lower2 0 0 (it_ops c))))
             (it_obs c).

Definition check_iter (c : itcase) : nat :=
  (if iter_ok_model c then 0 else 1) + (if iter_ok_spec c then 0 else 2).

(* ----------------------------------------------------------- fault runs *)

(** one run of a scenario with a failure injected at the k-th PIL call (k = -1: none) *)
Record frun := {
  f_k : Z;
  f_outcome_ok : bool;         (* fault-free: the expected outcome (no exception, or the documented error of an
                                  invalid argument); with a fault: the injected exception (or, for an interrupt
                                  during an animated draw, none) and nothing else *)
  f_unclosed : Z;              (* images the library opened (Image.open) and had not handed to Image.close()
                                  when the call returned / raised -- every opened image being kept alive by the
                                  observer, i.e. without any help from the garbage collector *)
  f_fd_after : Z;              (* descriptors above the baseline at that moment *)
  f_fd_end : Z;                (* ... after the image itself was closed and deleted *)
  f_size_kept : bool;
  f_tell_kept : bool;
  f_pil_alive : bool
}.

Record fcase := {
  fc_expect_tell_kept : bool;  (* the scenario must leave the seek position alone (draw / format) *)
  fc_runs : list frun
}.

Definition frun_ok_spec (e : fcase) (r : frun) : bool :=
  Z.eqb (f_unclosed r) 0 && Z.eqb (f_fd_after r) 0 && Z.eqb (f_fd_end r) 0 && f_size_kept r && f_pil_alive r
  && (negb (fc_expect_tell_kept e) || f_tell_kept r)
  && f_outcome_ok r.

(** the skeleton theorems (props/C11.v, PART 2) predict exactly one thing about these runs:
    nothing opened is left unclosed, whatever the fault position *)
Definition frun_ok_model (e : fcase) (r : frun) : bool := Z.eqb (f_unclosed r) 0.

Definition check_fault (c : fcase) : nat :=
  (if forallb (frun_ok_model c) (fc_runs c) then 0 else 1)
  + (if forallb (frun_ok_spec c) (fc_runs c) then 0 else 2).

(* ------------------------------------------------------------------ URL *)

(** temp-file life cycle of URL-sourced images: the specification is a count *)
Inductive uop :=
| UOpen (slot : nat) (kind : nat)   (* kind: 0 image, 1 404, 2 non-image body, 3 bad constructor argument *)
| UUse (slot : nat)
| UClose (slot : nat)               (* close() or leaving a with-block *)
| UDel (slot : nat).                (* the last reference dropped *)

Fixpoint remove_nat (x : nat) (l : list nat) : list nat :=
  match l with [] => [] | y :: r => if Nat.eqb x y then remove_nat x r else y :: remove_nat x r end.

(** [open_slots]: images currently holding a temp file.  Expected per op:
    (error code, number of temp files afterwards) *)
Fixpoint uspec (open_slots : list nat) (base : Z) (ops : list uop) : list (list Z) :=
  match ops with
  | [] => []
  | o :: r =>
      let '(code, slots) :=
          match o with
          | UOpen s 0 => (0%Z, s :: remove_nat s open_slots)
          | UOpen _ k => (Z.of_nat k, open_slots)
          | UUse s => (if existsb (Nat.eqb s) open_slots then 0%Z else 4%Z, open_slots)
          | UClose s | UDel s => (0%Z, remove_nat s open_slots)
          end in
      [code; (base + Z.of_nat (length slots))%Z] :: uspec slots base r
  end.

Record ucase := {
  uc_base : Z;                 (* files in the temp dir before the history *)
  uc_ops : list uop;
  uc_obs : list (list Z);      (* per op: error code, ok flag, files in the temp dir *)
  uc_files_end : Z;
  uc_fd_delta : Z
}.

Definition check_url (c : ucase) : nat :=
  let want := uspec [] (uc_base c) (uc_ops c) in
  let got := map (fun r => [nth 0 r 9; nth 2 r (-1)]%Z) (uc_obs c) in
  let flags := forallb (fun r => negb (Z.eqb (nth 0 r 9%Z) 0) || Z.eqb (nth 1 r 0%Z) 1) (uc_obs c) in
  if zll_eqb want got && flags && Z.eqb (uc_files_end c) (uc_base c) && Z.eqb (uc_fd_delta c) 0
  then 0 else 2.

(* ---------------------------------------------------------------- driver *)

Fixpoint index_from {A} (k : nat) (l : list A) : list (nat * A) :=
  match l with [] => [] | x :: r => (k, x) :: index_from (S k) r end.
Definition bad {A} (chk : A -> nat) (cases : list A) : list (nat * nat) :=
  filter (fun p => negb (Nat.eqb (snd p) 0)) (index_from 0 (map chk cases)).
