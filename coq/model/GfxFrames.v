(** C03 — WHICH FRAME of an animated source a graphics render transmits, over histories that
    move the underlying PIL image.

    "... equals the image's pixels": the image's pixels are those of its CURRENT frame,
    [image.tell()].  For an instance made from a PIL image the PIL object is SHARED: by every
    render of the instance, by its ImageIterators and with the caller who owns it; its own
    position ([PIL.Image.tell()]) is moved by all of them.  For an instance made from a file
    every render opens the file anew (position 0).

    Mirrors:
      src/term_image/image/common.py
        BaseImage.__init__      258   self._seek_position = image.tell()        [init_state]
        BaseImage.seek          942-943  self._seek_position = pos              [FSeek]
        BaseImage.tell          1092  return self._seek_position                [fs_seek]
        BaseImage._get_image    1422-1426 the source itself (PIL) / Image.open(path) (file)
                                                                                 [opened_pos]
        BaseImage._get_render_data 1493-1494
                                if self._is_animated: img.seek(self._seek_position)
                                                                                 [render_pos]
        ImageIterator._generate_frames 2182-2201 per frame n = 0, 1, ...:
                                image._seek_position = n; render with frame=True (1494 seeks
                                the iterator's PIL image — the shared one for a PIL source —
                                to n); EOF: _seek_position = 0 and 2225-2226 img.seek(0) on a
                                shared image                                      [FIter, FIterFull]
    The owner of a wrapped PIL image calling [pil.seek(k)] — or anything else that leaves the
    shared object on frame k (another BaseImage wrapping it, Pillow's save(save_all=True) in
    the iterm2 native re-encoding of a PIL source, iterm2.py:617) — is [FForeign k].

    Only animated sources are modelled here (the guard [self._is_animated] of line 1493 is
    true); a still image has one frame and every position is 0.

    The design is parameterised by [must_seek] (does the render seek the PIL image it was
    handed?): the code's is constantly true; [skip_zero] — seek only when the wanted frame is
    not 0, "a newly opened image is on its first frame" — is the excluded design used by
    proofs/GfxFramesProofs.v to show what the theorem separates.

    Definitions only. *)
From Coq Require Import List Arith Bool.
Import ListNotations.
Local Open Scope nat_scope.

Inductive skind := SrcPil | SrcFile.

Inductive fop :=
| FSeek (n : nat)        (* image.seek(n) *)
| FForeign (k : nat)     (* the shared PIL object is left on frame k by someone else *)
| FIter (k : nat)        (* an ImageIterator yields frames 0..k and is closed *)
| FIterFull              (* an ImageIterator (repeat=1) runs to exhaustion *)
| FRender.               (* a non-iterator render: str / format / draw(animate=False) / _renderer *)

Record fstate := {
  fs_seek : nat;         (* BaseImage._seek_position = image.tell() *)
  fs_pil : nat           (* position of the shared PIL object (PIL source only) *)
}.

(** common.py:258 — a new instance is on the frame its PIL image is on *)
Definition init_state (init : nat) : fstate := {| fs_seek := init; fs_pil := init |}.

Definition always_seek (s : fstate) : bool := true.
Definition skip_zero (s : fstate) : bool := negb (fs_seek s =? 0).

Section Frames.
  Variable Img : Type.
  Variable frame_of : nat -> Img.          (* frame k of the source, as decoded by Pillow *)
  Variable must_seek : fstate -> bool.
  Variable kind : skind.

  (** common.py:1422-1426 — the position of the PIL image handed to a render *)
  Definition opened_pos (s : fstate) : nat :=
    match kind with SrcPil => fs_pil s | SrcFile => 0 end.

  (** common.py:1493-1494 — the frame the pixels are taken from *)
  Definition render_pos (s : fstate) : nat :=
    if must_seek s then fs_seek s else opened_pos s.

  (** the shared object keeps the position a render / iterator left it on; a file source has
      no shared object *)
  Definition moved (s : fstate) (p : nat) : nat :=
    match kind with SrcPil => p | SrcFile => fs_pil s end.

  Definition step (s : fstate) (o : fop) : fstate * list Img :=
    match o with
    | FSeek n => ({| fs_seek := n; fs_pil := fs_pil s |}, [])
    | FForeign k => ({| fs_seek := fs_seek s; fs_pil := moved s k |}, [])
    | FIter k => ({| fs_seek := k; fs_pil := moved s k |}, [])
    | FIterFull => ({| fs_seek := 0; fs_pil := moved s 0 |}, [])
    | FRender =>
        let p := render_pos s in
        ({| fs_seek := fs_seek s; fs_pil := moved s p |}, [frame_of p])
    end.

  (** the frames transmitted by the renders of a history, in order, and the final state *)
  Fixpoint run (s : fstate) (h : list fop) : fstate * list Img :=
    match h with
    | [] => (s, [])
    | o :: r =>
        let (s1, out1) := step s o in
        let (s2, out2) := run s1 r in
        (s2, out1 ++ out2)
    end.
End Frames.

Arguments step {Img}.
Arguments run {Img}.

(* ------------------------------------------------------------- specification *)

(** [image.tell()] as a function of the history alone: the argument of the last seek() /
    the last frame an iterator yielded (0 after an exhausted one) — whatever happened to the
    PIL object meanwhile; [init] before any of these.  [rh] is the history, most recent
    operation first. *)
Fixpoint last_tell (init : nat) (rh : list fop) : nat :=
  match rh with
  | [] => init
  | FSeek n :: _ => n
  | FIter k :: _ => k
  | FIterFull :: _ => 0
  | _ :: r => last_tell init r
  end.
Definition spec_tell (init : nat) (h : list fop) : nat := last_tell init (rev h).

(** the frame index every render of the history [h] (executed after [done]) must carry *)
Fixpoint spec_frames (init : nat) (done h : list fop) : list nat :=
  match h with
  | [] => []
  | FRender :: r => spec_tell init done :: spec_frames init (done ++ [FRender]) r
  | o :: r => spec_frames init (done ++ [o]) r
  end.

(* ------------------------------------------------------------ correspondence *)

(** what the correspondence records about one render of a history *)
Record frec := {
  f_pil : bool;            (* the instance wraps a PIL image (shared) / was made from a file *)
  f_init : nat;            (* position of the PIL image when the instance was made *)
  f_hist : list fop;       (* everything done to the instance / the PIL image before this render *)
  f_tell : nat;            (* image.tell() just before the render, as observed *)
  f_sent : option nat;     (* the source frame whose pixels the decoded payload carries *)
  f_pilpos : option nat    (* PIL.Image.tell() of the shared object just before the render *)
}.

Definition kind_of (pil : bool) : skind := if pil then SrcPil else SrcFile.

(** specification: the payload carries the pixels of frame [image.tell()] *)
Definition frames_ok_spec (f : frec) : bool :=
  match f_sent f with Some k => k =? f_tell f | None => false end.

(** model: the code's render after this history sends the observed frame, and [tell] is
    what the history says *)
Definition frames_ok_model (f : frec) : bool :=
  let r := run (fun k => k) always_seek (kind_of (f_pil f)) (init_state (f_init f))
               (f_hist f ++ [FRender]) in
  (fs_seek (fst r) =? f_tell f)
  && match f_sent f with Some k => last (snd r) (S k) =? k | None => false end
  && match f_pilpos f with
     | Some p => fs_pil (fst (run (fun k => k) always_seek (kind_of (f_pil f))
                                  (init_state (f_init f)) (f_hist f))) =? p
     | None => true
     end.
